"""Native oracle for C16: dagrt.transform.fuse_two_dags on pairs of small methods.

input (what `replay` accepts):
  {"pair": {"m1": METHOD, "m2": METHOD, "pred": PRED, "init": {name: number | [numbers]}, "t0": x, "dt": x,
            "steps": n},
   "clause": "<clause name>", "name": variable concerned, "phase": phase concerned   (all three optional filters)}
  METHOD = {"initial": phase, "phases": {phase: {"next": phase, "stmts": [STMT...]}}}
  STMT = {"id", "deps": [ids], "cond": E|null} +
         {"k": "assign", "lhs": name, "sub": E|null, "rhs": E, "loops": [[ident, E, E]]}
       | {"k": "call", "lhs": [names], "fn": full function id, "args": [E...], "kw": {name: E}}
       | {"k": "yield", "expr": E, "time": E, "comp": str, "time_id": str}
       | {"k": "raise"} | {"k": "fail"}          (guarded by "cond"; only their guards hold names)
  E = ["v", name] | ["c", number] | ["sub", name, E] | ["+", E, E] | ["*", E, E] | ["<", E, E]
    | ["call", full function id, [E...]] | ["not", E] | ["and", E, E]
  PRED = null (caller passes nothing) | {"only": [names]} | {"nonpersistent": true} | {"all": true}
"""
import json
import random
from collections import Counter

import numpy as np
from pymbolic import primitives as P

from dagrt import language as lang
from dagrt.transform import fuse_two_dags

# ---------------------------------------------------------------- building real objects


def mk(e):
    t = e[0]
    if t == "v":
        return P.Variable(e[1])
    if t == "c":
        return e[1]
    if t == "sub":
        return P.Variable(e[1])[mk(e[2])]
    if t == "+":
        return P.Sum((mk(e[1]), mk(e[2])))
    if t == "*":
        return P.Product((mk(e[1]), mk(e[2])))
    if t == "<":
        return P.Comparison(mk(e[1]), "<", mk(e[2]))
    if t == "call":
        return P.Call(P.Variable(e[1]), tuple(mk(a) for a in e[2]))
    if t == "not":
        return P.LogicalNot(mk(e[1]))
    if t == "and":
        return P.LogicalAnd((mk(e[1]), mk(e[2])))
    raise ValueError("bad expression tag %r" % (t,))


def build_stmt(s):
    cond = mk(s["cond"]) if s.get("cond") else True
    deps = frozenset(s.get("deps") or [])
    if s["k"] == "assign":
        sub = (mk(s["sub"]),) if s.get("sub") else ()
        loops = [(l[0], mk(l[1]), mk(l[2])) for l in s.get("loops") or []]
        return lang.Assign(assignee=s["lhs"], assignee_subscript=sub, expression=mk(s["rhs"]), loops=loops,
                           condition=cond, id=s["id"], depends_on=deps)
    if s["k"] == "call":
        return lang.AssignFunctionCall(assignees=tuple(s["lhs"]), function_id=s["fn"],
                                       parameters=tuple(mk(a) for a in s["args"]),
                                       kw_parameters={k: mk(v) for k, v in sorted((s.get("kw") or {}).items())},
                                       condition=cond, id=s["id"], depends_on=deps)
    if s["k"] == "yield":
        return lang.YieldState(expression=mk(s["expr"]), time=mk(s["time"]), component_id=s["comp"],
                               time_id=s["time_id"], condition=cond, id=s["id"], depends_on=deps)
    if s["k"] == "raise":
        return lang.Raise(error_condition=GuardTripped, error_message="guard tripped", condition=cond, id=s["id"],
                          depends_on=deps)
    if s["k"] == "fail":
        return lang.FailStep(condition=cond, id=s["id"], depends_on=deps)
    raise ValueError("bad statement kind")


class GuardTripped(Exception):
    pass


def build_dag(m):
    phases = {}
    for name in sorted(m["phases"]):
        ph = m["phases"][name]
        phases[name] = lang.ExecutionPhase(name, ph["next"], [build_stmt(s) for s in ph["stmts"]])
    return lang.DAGCode(phases, m["initial"])


def build_pred(p):
    if p is None:
        return None
    if p.get("all"):
        return lambda name: True
    if p.get("nonpersistent"):
        return lambda name: not persistent(name)
    only = set(p.get("only") or [])
    return lambda name: name in only


def persistent(name):
    return name in ("<t>", "<dt>") or name.startswith("<state>") or name.startswith("<p>")


# ---------------------------------------------------------------- independent syntax walkers

def expr_names(e, acc):
    if isinstance(e, P.Variable):
        acc.add(e.name)
    elif isinstance(e, (P.Call, P.CallWithKwargs)):
        for a in e.parameters:
            expr_names(a, acc)
        if isinstance(e, P.CallWithKwargs):
            for a in e.kw_parameters.values():
                expr_names(a, acc)
    elif isinstance(e, P.Subscript):
        expr_names(e.aggregate, acc)
        expr_names(e.index, acc)
    elif isinstance(e, (P.Sum, P.Product, P.LogicalAnd, P.LogicalOr)):
        for c in e.children:
            expr_names(c, acc)
    elif isinstance(e, P.Comparison):
        expr_names(e.left, acc)
        expr_names(e.right, acc)
    elif isinstance(e, P.LogicalNot):
        expr_names(e.child, acc)
    elif isinstance(e, (tuple, list)):
        for c in e:
            expr_names(c, acc)
    elif isinstance(e, (int, float, bool, complex)) or e is None:
        pass
    else:
        raise TypeError("walker: unexpected node %r" % type(e).__name__)
    return acc


def fields(st):
    """[(role, expression-or-name)] of one statement: every place a name can occur"""
    out = []
    if st.condition is not True:
        out.append(("guard", st.condition))
    if isinstance(st, lang.Assign):
        out.append(("lhs", P.Variable(st.assignee)))
        if st.assignee_subscript:
            out.append(("lhs_sub", tuple(st.assignee_subscript)))
        out.append(("rhs", st.rhs))
        for ident, lo, hi in st.loops:
            out.append(("loop_ident", P.Variable(ident)))
            out.append(("loop_bound", lo))
            out.append(("loop_bound", hi))
    elif isinstance(st, lang.AssignFunctionCall):
        for a in st.assignees:
            out.append(("lhs", P.Variable(a)))
        for a in st.parameters:
            out.append(("param", a))
        for k in sorted(st.kw_parameters):
            out.append(("param", st.kw_parameters[k]))
    elif isinstance(st, lang.YieldState):
        out.append(("yield_value", st.expression))
        out.append(("yield_time", st.time))
    return out


def stmt_roles(st):
    """name -> set of roles"""
    r = {}
    for role, e in fields(st):
        for n in expr_names(e, set()):
            r.setdefault(n, set()).add(role)
    return r


def names_of(stmts):
    acc = {}
    for st in stmts:
        for n, roles in stmt_roles(st).items():
            acc.setdefault(n, set()).update(roles)
    return acc


def loop_scoped_only(stmts, name):
    """`name` occurs only in statements that declare it as their own loop identifier"""
    for st in stmts:
        r = stmt_roles(st)
        if name in r and "loop_ident" not in r[name]:
            return False
    return True


def reads_writes(st):
    r, w = set(), set()
    for role, e in fields(st):
        if role == "lhs":
            w.update(expr_names(e, set()))
        elif role == "loop_ident":
            w.update(expr_names(e, set()))
        else:
            r.update(expr_names(e, set()))
    if isinstance(st, lang.Assign) and st.assignee_subscript:
        r.add(st.assignee)
    return r, w


class Mismatch(Exception):
    pass


def pair(a, b, role, out):
    """walk original and fused expression in lockstep, recording (old name, new name, role)"""
    if isinstance(a, P.Variable):
        if not isinstance(b, P.Variable):
            raise Mismatch("variable %s became %r" % (a.name, b))
        out.append((a.name, b.name, role))
        return
    if isinstance(a, (tuple, list)):
        if not isinstance(b, (tuple, list)) or len(a) != len(b):
            raise Mismatch("tuple changed")
        for x, y in zip(a, b):
            pair(x, y, role, out)
        return
    if type(a) is not type(b):
        raise Mismatch("%s became %s" % (type(a).__name__, type(b).__name__))
    if isinstance(a, (P.Call,)):
        if a.function != b.function:
            raise Mismatch("function symbol changed: %s -> %s" % (a.function, b.function))
        pair(tuple(a.parameters), tuple(b.parameters), role, out)
    elif isinstance(a, P.Subscript):
        pair(a.aggregate, b.aggregate, role, out)
        pair(a.index, b.index, role, out)
    elif isinstance(a, (P.Sum, P.Product, P.LogicalAnd, P.LogicalOr)):
        pair(tuple(a.children), tuple(b.children), role, out)
    elif isinstance(a, P.Comparison):
        if a.operator != b.operator:
            raise Mismatch("operator changed")
        pair(a.left, b.left, role, out)
        pair(a.right, b.right, role, out)
    elif isinstance(a, P.LogicalNot):
        pair(a.child, b.child, role, out)
    else:
        if not (a == b):
            raise Mismatch("constant %r became %r" % (a, b))


def pair_stmt(s, f, out):
    if type(s) is not type(f):
        raise Mismatch("statement class changed")
    fs, ff = fields(s), fields(f)
    if [r for r, _ in fs] != [r for r, _ in ff]:
        raise Mismatch("statement shape changed: %s vs %s" % ([r for r, _ in fs], [r for r, _ in ff]))
    if isinstance(s, lang.AssignFunctionCall) and s.function_id != f.function_id:
        raise Mismatch("function id changed")
    if isinstance(s, lang.YieldState) and (s.component_id != f.component_id or s.time_id != f.time_id):
        raise Mismatch("yield ids changed")
    for (role, a), (_, b) in zip(fs, ff):
        pair(a, b, role, out)


def stmt_sig(st):
    return (type(st).__name__, st.id, tuple(sorted(st.depends_on)),
            tuple((r, repr(e)) for r, e in fields(st)),
            getattr(st, "function_id", None), getattr(st, "component_id", None), getattr(st, "time_id", None))


# ---------------------------------------------------------------- reference renamer (for attributing run failures)

def subst(e, m):
    if isinstance(e, P.Variable):
        return P.Variable(m.get(e.name, e.name))
    if isinstance(e, tuple):
        return tuple(subst(x, m) for x in e)
    if isinstance(e, P.Call):
        return P.Call(e.function, tuple(subst(a, m) for a in e.parameters))
    if isinstance(e, P.Subscript):
        return P.Subscript(subst(e.aggregate, m), subst(e.index, m))
    if isinstance(e, P.Sum):
        return P.Sum(tuple(subst(c, m) for c in e.children))
    if isinstance(e, P.Product):
        return P.Product(tuple(subst(c, m) for c in e.children))
    if isinstance(e, P.LogicalAnd):
        return P.LogicalAnd(tuple(subst(c, m) for c in e.children))
    if isinstance(e, P.LogicalOr):
        return P.LogicalOr(tuple(subst(c, m) for c in e.children))
    if isinstance(e, P.LogicalNot):
        return P.LogicalNot(subst(e.child, m))
    if isinstance(e, P.Comparison):
        return P.Comparison(subst(e.left, m), e.operator, subst(e.right, m))
    return e


def rename_stmt(s, f, m, keep_real_idents=False, keep_real_guard=False):
    """the original statement `s` of method 2 renamed completely by `m`; id/dependencies from the fused one"""
    cond = f.condition if keep_real_guard else (True if s.condition is True else subst(s.condition, m))
    if isinstance(s, lang.Assign):
        loops = []
        for (ident, lo, hi), (fident, _, _) in zip(s.loops, f.loops):
            loops.append((fident if keep_real_idents else m.get(ident, ident), subst(lo, m), subst(hi, m)))
        return lang.Assign(assignee=m.get(s.assignee, s.assignee),
                           assignee_subscript=tuple(subst(x, m) for x in s.assignee_subscript),
                           expression=subst(s.rhs, m), loops=loops, condition=cond, id=f.id,
                           depends_on=f.depends_on)
    if isinstance(s, lang.AssignFunctionCall):
        return lang.AssignFunctionCall(assignees=tuple(m.get(a, a) for a in s.assignees), function_id=s.function_id,
                                       parameters=tuple(subst(a, m) for a in s.parameters),
                                       kw_parameters={k: subst(v, m) for k, v in s.kw_parameters.items()},
                                       condition=cond, id=f.id, depends_on=f.depends_on)
    if isinstance(s, lang.YieldState):
        return lang.YieldState(expression=subst(s.expression, m), time=subst(s.time, m),
                               component_id=s.component_id, time_id=s.time_id, condition=cond, id=f.id,
                               depends_on=f.depends_on)
    if isinstance(s, (lang.Raise, lang.FailStep)):
        return s.copy(condition=cond, id=f.id, depends_on=f.depends_on)
    raise TypeError


# ---------------------------------------------------------------- running with the real interpreter

FUNCS = {"<func>f": lambda x: 2 * x + 1, "<func>g": lambda x, y: x - 3 * y}


def linear_extension(stmts, mode, first_ids=None):
    """deterministic topological order. mode 'list': lowest list position first; 'reverse': highest first;
    'alternate': switch between the statements of the first method (`first_ids`) and the others whenever
    possible, so the two halves of a fused phase interleave"""
    ids = [s.id for s in stmts]
    pos = {i: k for k, i in enumerate(ids)}
    byid = {s.id: s for s in stmts}
    first_ids = first_ids or set()
    done, order = set(), []
    last = 2
    while len(order) < len(stmts):
        ready = [i for i in ids if i not in done and all(d in done for d in byid[i].depends_on)]
        if not ready:
            raise ValueError("cyclic or dangling dependencies")
        ready.sort(key=lambda i: pos[i], reverse=(mode == "reverse"))
        pick = ready[0]
        if mode == "alternate":
            other = [i for i in ready if (1 if i in first_ids else 2) != last]
            pick = (other or ready)[0]
            last = 1 if pick in first_ids else 2
        done.add(pick)
        order.append(byid[pick])
    return order


def freeze(v):
    if isinstance(v, np.ndarray):
        return ("arr", tuple(float(x) for x in v.ravel()))
    if isinstance(v, (bool, np.bool_)):
        return ("b", bool(v))
    if v is None:
        return ("none",)
    try:
        return ("n", float(v))
    except Exception:
        return ("o", repr(v))


def run_dag(dag, pr, mode, first_ids=None):
    """statements of each step are executed by the real NumpyInterpreter (evaluate_condition / exec_*), in a
    deterministic linear extension of the dependency order; returns per-step snapshots of persistent
    variables and the yielded events"""
    from dagrt.exec_numpy import FailStepException, NumpyInterpreter, TransitionEvent
    interp = NumpyInterpreter(dag, dict(FUNCS))
    state = {k[len("<state>"):]: v for k, v in pr["init"].items() if k.startswith("<state>")}
    interp.set_up(t_start=pr.get("t0", 0.0), dt_start=pr.get("dt", 0.5),
                  context={k: (np.array(v, dtype=float) if isinstance(v, list) else v) for k, v in state.items()})
    for k, v in pr["init"].items():
        if k.startswith("<p>"):
            interp.context[k] = np.array(v, dtype=float) if isinstance(v, list) else v
    snaps, events = [], []
    for _ in range(pr.get("steps", 2)):
        phase = dag.phases[interp.next_phase]
        interp.next_phase = phase.next_phase
        try:
            for st in linear_extension(list(phase.statements), mode, (first_ids or {}).get(phase.name)):
                if not interp.evaluate_condition(st):
                    continue
                res = getattr(interp, st.exec_method)(st)
                if res is not None and res[0] is not None:
                    ev = res[0]
                    events.append((ev.component_id, ev.time_id, freeze(ev.t), freeze(ev.state_component)))
        except TransitionEvent as ev:
            interp.next_phase = ev.next_phase
        except FailStepException:
            pass
        finally:
            for name in list(interp.context):
                if not persistent(name):
                    del interp.context[name]
        snaps.append({k: freeze(v) for k, v in interp.context.items()})
    return snaps, events


def persistent_rw(m):
    r, w = set(), set()
    for ph in m["phases"].values():
        for s in ph["stmts"]:
            rr, ww = reads_writes(build_stmt(s))
            r.update(n for n in rr if persistent(n))
            w.update(n for n in ww if persistent(n))
    return r, w


def run_domain(pr):
    """None if the run clause does not apply to the pair, else what is needed to compare"""
    r1, w1 = persistent_rw(pr["m1"])
    r2, w2 = persistent_rw(pr["m2"])
    if w1 & (r2 | w2) or w2 & (r1 | w1):
        return None
    comps = {}
    for key in ("m1", "m2"):
        comps[key] = {s["comp"] for ph in pr[key]["phases"].values() for s in ph["stmts"] if s["k"] == "yield"}
    if comps["m1"] & comps["m2"]:
        return None
    pred = build_pred(pr.get("pred"))
    d1, d2 = build_dag(pr["m1"]), build_dag(pr["m2"])
    if pred is not None:
        # temporaries the caller's predicate keeps shared make the methods interfere by the caller's choice
        for name in set(d1.phases) & set(d2.phases):
            S1, S2 = list(d1.phases[name].statements), list(d2.phases[name].statements)
            for n in set(names_of(S1)) & set(names_of(S2)):
                if not persistent(n) and not pred(n) and not loop_scoped_only(S1 + S2, n):
                    return None
                if persistent(n) and pred(n):
                    return None             # the caller asked to separate persistent state: nothing to compare
    alone = {}
    for key, d in (("m1", d1), ("m2", d2)):
        try:
            a = run_dag(d, pr, "list")
            b = run_dag(d, pr, "reverse")
        except Exception:
            return None                     # the method does not run on its own: outside the domain
        if a != b:
            return None                     # the method itself depends on the schedule
        alone[key] = a
    first_ids = {name: {st.id for st in ph.statements} for name, ph in d1.phases.items()}
    return {"w": {"m1": w1, "m2": w2}, "comps": comps, "alone": alone, "first_ids": first_ids}


def compare_runs(pr, fused, dom):
    """list of differences between the fused run and the separate runs"""
    diffs = []
    for mode in ("list", "reverse", "alternate"):
        try:
            snaps, events = run_dag(fused, pr, mode, dom["first_ids"])
        except Exception as ex:
            diffs.append("fused run (%s order) raises %s: %s" % (mode, type(ex).__name__, str(ex)[:120]))
            continue
        for key in ("m1", "m2"):
            asnaps, aevents = dom["alone"][key]
            for step, (fs, as_) in enumerate(zip(snaps, asnaps)):
                for n in sorted(dom["w"][key]):
                    if fs.get(n) != as_.get(n):
                        diffs.append("%s order, step %d: %s of %s is %s fused but %s alone"
                                     % (mode, step, n, key, fs.get(n), as_.get(n)))
            fe = [e for e in events if e[0] in dom["comps"][key]]
            if Counter(fe) != Counter(aevents):
                diffs.append("%s order: events of %s differ: fused %s, alone %s" % (mode, key, fe[:3], aevents[:3]))
    return diffs


# ---------------------------------------------------------------- the oracle

def analyse(pr):
    """returns (failures [(clause, detail, data)], info)"""
    d1, d2 = build_dag(pr["m1"]), build_dag(pr["m2"])
    pred = build_pred(pr.get("pred"))
    info = {}
    fails = []
    try:
        if pred is None:
            fused = fuse_two_dags(d1, d2)
        else:
            fused = fuse_two_dags(d1, d2, should_disambiguate_name=pred)
    except Exception as ex:
        fails.append(("fuse-raises", "fuse_two_dags raises %s: %s on methods that agree on the initial phase and "
                      "default transitions" % (type(ex).__name__, str(ex)[:200]), {}))
        return fails, info, None, None
    if fused.initial_phase != d1.initial_phase:
        fails.append(("phases", "initial phase %r" % fused.initial_phase, {}))
    if set(fused.phases) != set(d1.phases) | set(d2.phases):
        fails.append(("phases", "phase names %s" % sorted(fused.phases), {}))
        return fails, info, fused, None
    sigma_all = {}
    variants = {}
    renamed_any = False
    for name in sorted(fused.phases):
        F = list(fused.phases[name].statements)
        S1 = list(d1.phases[name].statements) if name in d1.phases else []
        S2 = list(d2.phases[name].statements) if name in d2.phases else []
        want_next = (d1.phases.get(name) or d2.phases.get(name)).next_phase
        if fused.phases[name].next_phase != want_next:
            fails.append(("phases", "phase %s: next phase %r" % (name, fused.phases[name].next_phase), {}))
        ids = [s.id for s in F]
        dup = sorted(i for i, c in Counter(ids).items() if c > 1)
        if dup:
            fails.append(("unique-ids", "phase %s: duplicate ids %s" % (name, dup), {}))
        if not S1 or not S2:
            if sorted(map(stmt_sig, F)) != sorted(map(stmt_sig, S1 or S2)):
                fails.append(("statements-present", "phase %s exists in one method only but was not copied" % name, {}))
            continue
        if len(F) != len(S1) + len(S2):
            fails.append(("statements-present", "phase %s: %d statements, expected %d" % (name, len(F),
                                                                                           len(S1) + len(S2)), {}))
            continue
        sig1 = Counter(map(stmt_sig, S1))
        rest = []
        for f in F:
            k = stmt_sig(f)
            if sig1.get(k):
                sig1[k] -= 1
            else:
                rest.append(f)
        if sum(sig1.values()) or len(rest) != len(S2):
            fails.append(("statements-present", "phase %s: statements of the first method are not all present "
                          "unchanged" % name, {}))
            continue
        F2 = rest
        occ = []
        idmap = {}
        ok = True
        for s, f in zip(S2, F2):
            idmap[s.id] = f.id
            try:
                pair_stmt(s, f, occ)
            except Mismatch as ex:
                fails.append(("statements-present", "phase %s: statement %s of the second method changed beyond "
                              "renaming: %s" % (name, s.id, ex), {}))
                ok = False
        if not ok:
            continue
        for s, f in zip(S2, F2):
            want = {idmap.get(d, "?" + d) for d in s.depends_on}
            if set(f.depends_on) != want:
                fails.append(("dependencies-intact", "phase %s: %s (was %s) depends on %s, expected %s"
                              % (name, f.id, s.id, sorted(f.depends_on), sorted(want)), {}))
        n1, n2 = names_of(S1), names_of(S2)
        # --- every occurrence renamed consistently
        by_old = {}
        for old, new, role in occ:
            by_old.setdefault(old, {}).setdefault(new, set()).add(role)
        sigma = {}
        for old in sorted(by_old):
            news = by_old[old]
            main = [n for n, roles in news.items() if roles - {"guard", "loop_ident"}]
            if len(news) > 1:
                if len(main) == 1:
                    odd = sorted(r for n, roles in news.items() if n != main[0] for r in roles)
                else:
                    odd = sorted(r for roles in news.values() for r in roles)
                fails.append(("consistent-renaming",
                              "phase %s: occurrences of %r of the second method became %s"
                              % (name, old, {n: sorted(r) for n, r in sorted(news.items())}),
                              {"old": old, "odd_roles": odd, "clean": len(main) == 1, "phase": name}))
            sigma[old] = main[0] if len(main) == 1 else (sorted(news)[0] if len(news) == 1 else old)
        for old, new in sigma.items():
            if old != new:
                renamed_any = True
        clashes = set(n1) & set(n2)
        # --- what may / must be renamed
        pj = pr.get("pred")
        for old in sorted(sigma):
            new = sigma[old]
            ren = new != old
            if pj is None:
                if ren and persistent(old):
                    fails.append(("persistent-shared", "phase %s: %r of the second method was renamed to %r although "
                                  "no predicate asked for it" % (name, old, new), {"old": old, "phase": name}))
            else:
                if ren and not pred(old):
                    fails.append(("predicate-respected", "phase %s: %r renamed to %r although "
                                  "should_disambiguate_name(%r) is False" % (name, old, new, old), {"old": old, "phase": name}))
                if (not ren) and pred(old) and old in clashes and not loop_scoped_only(S1 + S2, old):
                    fails.append(("clash-renamed", "phase %s: %r clashes and should_disambiguate_name(%r) is "
                                  "True but it was not renamed" % (name, old, old), {"old": old, "phase": name}))
        # --- new names are new, and the renaming is injective
        inv = {}
        for old, new in sigma.items():
            inv.setdefault(new, set()).add(old)
        for new, olds in sorted(inv.items()):
            if len(olds) > 1:
                fails.append(("temporaries-disjoint", "phase %s: %s of the second method all became %r"
                              % (name, sorted(olds), new), {"names": sorted(olds)}))
        # --- temporaries of the two halves are disjoint
        f2names = names_of(F2)
        for n in sorted(set(n1) & set(f2names)):
            if persistent(n):
                continue
            if loop_scoped_only(S1, n) and loop_scoped_only(F2, n):
                info["shared_loop_identifier_only"] = info.get("shared_loop_identifier_only", 0) + 1
                continue
            olds = sorted(o for o, nw in sigma.items() if nw == n) or [n]
            if pj is not None and all(not pred(o) for o in olds):
                continue                      # the caller asked to keep it shared
            fails.append(("temporaries-disjoint", "phase %s: temporary %r is used by both halves of the fused phase "
                          "(roles in first %s, in second %s)" % (name, n, sorted(n1[n]), sorted(f2names[n])),
                          {"name": n, "roles1": sorted(n1[n]), "roles2": sorted(f2names[n]), "phase": name}))
        sigma_all[name] = sigma
        variants[name] = (S1, S2, F2)
    info["renamed_any"] = renamed_any
    return fails, info, fused, (sigma_all, variants)


def repaired(pr, fused, aux, repair):
    """the fused DAG with the second half re-derived from the original statements, repairing the known defects
    named in `repair` (subset of D6, D7, D24) and reproducing the real result in every other respect"""
    sigma_all, variants = aux
    pj = pr.get("pred")
    pred = build_pred(pj)
    phases = {}
    for name, ph in fused.phases.items():
        if name not in variants:
            phases[name] = ph
            continue
        S1, S2, F2 = variants[name]
        m = dict(sigma_all[name])
        if "D6" in repair:
            for old in list(m):
                if m[old] != old and (persistent(old) if pj is None else not pred(old)):
                    m[old] = old
        keep_idents, keep_guard = "D7" not in repair, "D24" not in repair
        if "INV" in repair:
            # clashing temporaries that were not renamed at all (no clash was seen) get a new name everywhere
            n1, n2 = names_of(S1), names_of(S2)
            taken = set(n1) | set(n2) | set(m.values())
            for n in sorted(set(n1) & set(n2)):
                if persistent(n) or m.get(n, n) != n or (pj is not None and not pred(n)):
                    continue
                if loop_scoped_only(list(S1) + list(S2), n):
                    continue
                k = 0
                while "%s_inv%d" % (n, k) in taken:
                    k += 1
                m[n] = "%s_inv%d" % (n, k)
                taken.add(m[n])
        new2 = []
        for s_, f in zip(S2, F2):
            inv = {ident for ident, _, _ in getattr(s_, "loops", []) if m.get(ident, ident).find("_inv") > 0}
            new2.append(rename_stmt(s_, f, m, keep_real_idents=keep_idents and not inv, keep_real_guard=keep_guard))
        phases[name] = lang.ExecutionPhase(name, ph.next_phase, list(S1) + new2)
    return lang.DAGCode(phases, fused.initial_phase)


def run_clause(pr, fused, aux):
    dom = run_domain(pr)
    if dom is None:
        return None, {}
    diffs = compare_runs(pr, fused, dom)
    if not diffs:
        return [], {}
    data = {"minimal_repairs": []}
    if aux is not None:
        try:
            if compare_runs(pr, repaired(pr, fused, aux, set()), dom):        # reproduction of the real result
                import itertools
                for k in (1, 2, 3, 4):
                    for rs in itertools.combinations(("D6", "D7", "D24", "INV"), k):
                        if any(set(m) <= set(rs) for m in data["minimal_repairs"]):
                            continue
                        if not compare_runs(pr, repaired(pr, fused, aux, set(rs)), dom):
                            data["minimal_repairs"].append(list(rs))
        except Exception as ex:
            data["repair_error"] = "%s: %s" % (type(ex).__name__, ex)
    return diffs, data


def item_name(data):
    return data.get("old") or data.get("name")


def check(inp, want_run=True):
    """failures [(clause, detail, data)] of the pair, restricted to inp["clause"] / inp["name"] if given"""
    pr = inp["pair"]
    fails, info, fused, aux = analyse(pr)
    want_run = want_run and inp.get("clause") in (None, "same-results-as-alone")
    if fused is not None and want_run and not any(c in ("fuse-raises", "phases", "statements-present")
                                                  for c, _, _ in fails):
        diffs, data = run_clause(pr, fused, aux)
        if diffs is None:
            info["run_out_of_domain"] = True
        else:
            info["run_checked"] = True
            if diffs:
                fails.append(("same-results-as-alone", "; ".join(diffs[:3]), data))
    if inp.get("clause"):
        fails = [f for f in fails if f[0] == inp["clause"]]
    if inp.get("name"):
        fails = [f for f in fails if item_name(f[2]) == inp["name"]]
    if inp.get("phase"):
        fails = [f for f in fails if f[2].get("phase") in (None, inp["phase"])]
    return fails, info


def replay(inp):
    try:
        fails, _ = check(inp)
    except Exception as ex:
        return {"error": "%s: %s" % (type(ex).__name__, ex)}
    if fails:
        return {"fails": True, "detail": "[%s] %s" % (fails[0][0], fails[0][1])}
    return {"fails": False, "detail": None}


# ---------------------------------------------------------------- fingerprints of known findings

def declared_clashes(pr):
    """per shared phase: the names the real read/write sets of both methods have in common"""
    d1, d2 = build_dag(pr["m1"]), build_dag(pr["m2"])
    out = {}
    for name in set(d1.phases) & set(d2.phases):
        a, b = set(), set()
        for st in d1.phases[name].statements:
            a |= set(st.get_read_variables()) | set(st.get_written_variables())
        for st in d2.phases[name].statements:
            b |= set(st.get_read_variables()) | set(st.get_written_variables())
        out[name] = a & b
    return out


def _renames_every_declared_clash(pr, aux):
    sigma_all, _ = aux
    cl = declared_clashes(pr)
    for name, sigma in sigma_all.items():
        ren = {o for o, n in sigma.items() if o != n}
        if ren != {c for c in cl.get(name, set()) if c in sigma}:
            return False
    return True


def _run_needs(inp, which):
    fails, _ = check(dict(inp, name=None, phase=None))
    return any(c == "same-results-as-alone" and any(which in m for m in d.get("minimal_repairs", []))
               for c, _, d in fails)


def fp_d6(inp):
    """the predicate is not consulted: exactly the declared clashes are renamed, among them a persistent name /
    <t> / <dt> (no predicate) or a name the predicate rejects; for a run failure: repairing that is part of a
    minimal repair"""
    clause = inp.get("clause")
    if clause not in ("persistent-shared", "predicate-respected", "same-results-as-alone"):
        return False
    pr = inp["pair"]
    fails, info, fused, aux = analyse(pr)
    if aux is None or not _renames_every_declared_clash(pr, aux):
        return False
    if not any(f[0] in ("persistent-shared", "predicate-respected") for f in fails):
        return False
    if clause == "same-results-as-alone":
        return _run_needs(inp, "D6")
    return bool(check(inp, want_run=False)[0])


def _stray(inp, role, dk):
    """the failure is a renamed name that keeps its old spelling exactly in occurrences of kind `role`"""
    clause = inp.get("clause")
    if clause == "consistent-renaming":
        fails, _ = check(inp, want_run=False)
        return bool(fails) and all(d.get("clean") and d.get("odd_roles") == [role] for _, _, d in fails)
    if clause == "temporaries-disjoint":
        fails, _ = check(inp, want_run=False)
        cons = {d.get("old") for c, _, d in check(dict(inp, clause="consistent-renaming", name=None), False)[0]
                if d.get("clean") and role in d.get("odd_roles", [])}
        return bool(fails) and all(d.get("roles2") == [role] and d.get("name") in cons for _, _, d in fails)
    if clause == "same-results-as-alone":
        cons = [d for c, _, d in check(dict(inp, clause="consistent-renaming", name=None), False)[0]
                if role in d.get("odd_roles", [])]
        return bool(cons) and _run_needs(inp, dk)
    return False


def fp_d7(inp):
    """a renamed name keeps its old spelling exactly where it is a loop identifier"""
    return _stray(inp, "loop_ident", "D7")


def fp_d24(inp):
    """a renamed name keeps its old spelling exactly where it occurs in a guard"""
    return _stray(inp, "guard", "D24")


def fp_invisible_name(inp):
    """a temporary shared by both halves is in no declared read/write set of one of the methods (it occurs only
    as a left-hand subscript / loop bound / loop identifier there: the D8 omission), so no clash was seen"""
    if inp.get("clause") == "same-results-as-alone":
        struct = [f for f in check(dict(inp, clause=None, name=None, phase=None), False)[0]
                  if f[0] in ("temporaries-disjoint", "clash-renamed")]
        return any(fp_invisible_name({"pair": inp["pair"], "clause": c, "name": item_name(d), "phase": d.get("phase")})
                   for c, _, d in struct) \
            and _run_needs(inp, "INV")
    if inp.get("clause") not in ("temporaries-disjoint", "clash-renamed"):
        return False
    pr = inp["pair"]
    fails, _ = check(inp, want_run=False)
    if not fails:
        return False
    d1, d2 = build_dag(pr["m1"]), build_dag(pr["m2"])

    def declared(d, phase):
        acc = set()
        for st in d.phases[phase].statements:
            acc |= set(st.get_read_variables()) | set(st.get_written_variables())
        return acc
    for _, _, data in fails:
        n = item_name(data)
        ph = data.get("phase")
        if n is None or ph is None or data.get("names"):
            return False
        if n in declared(d1, ph) and n in declared(d2, ph):
            return False
    return True


FINGERPRINTS = {
    "D6_predicate_ignored_every_clash_renamed": fp_d6,
    "D7_loop_identifier_not_renamed": fp_d7,
    "D24_guard_not_renamed": fp_d24,
    "shared_temporary_invisible_to_declared_sets": fp_invisible_name,
}


# ---------------------------------------------------------------- input generation

def V(n):
    return ["v", n]


def C(x):
    return ["c", x]


def jnames(e, acc):
    t = e[0]
    if t == "v":
        acc.add(e[1])
    elif t == "sub":
        acc.add(e[1])
        jnames(e[2], acc)
    elif t == "call":
        for a in e[2]:
            jnames(a, acc)
    elif t != "c":
        for a in e[1:]:
            jnames(a, acc)
    return acc


def jrw(s):
    r, w = set(), set()
    if s.get("cond"):
        jnames(s["cond"], r)
    if s["k"] == "assign":
        w.add(s["lhs"])
        jnames(s["rhs"], r)
        if s.get("sub"):
            jnames(s["sub"], r)
            r.add(s["lhs"])
        for l in s.get("loops") or []:
            w.add(l[0])
            jnames(l[1], r)
            jnames(l[2], r)
    elif s["k"] == "call":
        w.update(s["lhs"])
        for a in s["args"]:
            jnames(a, r)
        for a in (s.get("kw") or {}).values():
            jnames(a, r)
    elif s["k"] in ("raise", "fail"):
        pass
    else:
        jnames(s["expr"], r)
        jnames(s["time"], r)
    return r, w


def add_deps(stmts, rng, chain):
    """conservative dependencies: every earlier conflicting statement (full syntactic read/write sets)"""
    for i, s in enumerate(stmts):
        r, w = jrw(s)
        deps = []
        for t in stmts[:i]:
            tr, tw = jrw(t)
            if (w & (tr | tw)) or (r & tw) or (t["k"] in ("yield", "raise", "fail") and s["k"] in ("yield", "raise", "fail")):
                deps.append(t["id"])
        if chain and i and stmts[i - 1]["id"] not in deps:
            deps.append(stmts[i - 1]["id"])
        s["deps"] = deps
    return stmts


def gen_phase(rng, who, shared_persist, idstyle, features):
    """one phase of method `who` (1 or 2); temporaries have the same names in both methods"""
    own_state = "<state>u" if who == 1 else "<state>v"
    own_p = "<p>k1" if who == 1 else "<p>k2"
    reads = [own_state, own_p]
    if shared_persist:
        reads += ["<t>", "<dt>", "<state>c"]
    stmts = []
    defined = []

    def sid():
        k = len(stmts)
        return {"s": "s%d" % k, "mixed": ("s%d_0" % k if who == 2 and k % 2 else "s%d" % k),
                "own": "m%d_%d" % (who, k)}[idstyle]

    def leaf():
        pool = reads + defined
        return V(rng.choice(pool)) if rng.random() < 0.8 else C(rng.choice([1, 2, 0.5]))

    def expr(d=2):
        if d == 0 or rng.random() < 0.3:
            return leaf()
        op = rng.choice(["+", "*", "f", "g", "+"])
        if op in "+*":
            return [op, expr(d - 1), expr(d - 1)]
        if op == "f":
            return ["call", "<func>f", [expr(d - 1)]]
        return ["call", "<func>g", [expr(d - 1), expr(d - 1)]]

    def A(lhs, rhs, cond=None, sub=None, loops=None):
        stmts.append({"id": sid(), "k": "assign", "lhs": lhs, "sub": sub, "rhs": rhs, "cond": cond,
                      "loops": loops or []})

    A("tmp", expr())
    defined.append("tmp")
    for feat in features:
        if feat == "flag":
            A("<cond>c", ["<", V("tmp"), C(rng.choice([0, 1, 3]))])
            A(rng.choice([own_state, own_p]), expr(), cond=V("<cond>c"))
            if rng.random() < 0.5:
                A(own_p, expr(1), cond=["not", V("<cond>c")])
        elif feat == "loop":
            stmts.append({"id": sid(), "k": "call", "lhs": ["a"], "fn": "<builtin>array", "args": [C(3)], "kw": {},
                          "cond": None})
            A("a", ["+", ["*", V("i"), C(2)], V("tmp")], sub=V("i"), loops=[["i", C(0), C(3)]])
            A(own_p, ["sub", "a", C(rng.choice([0, 1, 2]))])
        elif feat == "loop_sub_only":
            stmts.append({"id": sid(), "k": "call", "lhs": ["a"], "fn": "<builtin>array", "args": [C(3)], "kw": {},
                          "cond": None})
            A("a", V("tmp"), sub=V("i"), loops=[["i", C(0), C(3)]])
            A(own_state, ["+", ["sub", "a", C(1)], V(own_state)])
        elif feat == "bound":
            A("n", C(rng.choice([2, 3])))
            A("k", C(0))
            A("k", ["+", V("k"), ["*", V("i"), V("tmp")]], loops=[["i", C(1), V("n")]])
            A(own_state, ["+", V("k"), V(own_state)])
            defined.append("k")
        elif feat == "call":
            stmts.append({"id": sid(), "k": "call", "lhs": ["k"], "fn": "<func>" + rng.choice("fg"),
                          "args": [expr(1)], "kw": {}, "cond": None})
            if stmts[-1]["fn"] == "<func>g":
                stmts[-1]["args"].append(expr(1))
            defined.append("k")
            A(own_p, ["+", V("k"), V(own_p)])
        elif feat == "ivar":        # `i` as an ordinary temporary (the other method may use it as a loop identifier)
            A("i", expr(1))
            A(own_state, ["+", V("i"), V(own_state)])
        elif feat == "kwcall":       # a statement-level call that passes a per-step temporary as a KEYWORD argument
            stmts.append({"id": sid(), "k": "call", "lhs": ["k"], "fn": "<func>g", "args": [V(own_state)], "kw": {"y": V("tmp")},
                          "cond": None})
            defined.append("k")
            A(own_p, ["+", V("k"), V(own_p)])
        elif feat == "sharedp":      # a persistent <p> variable that BOTH methods read (it must stay one variable)
            A(own_state, ["+", ["*", V("<p>gain"), V("tmp")], V(own_state)])
        elif feat in ("guardraise", "guardfail"):
            # an error / step-rejection guard under an if_-style flag; it never holds at run time (tmp is finite)
            A("<cond>r", ["<", V("tmp"), C(-1e30)])
            stmts.append({"id": sid(), "k": "raise" if feat == "guardraise" else "fail", "cond": V("<cond>r")})
        elif feat == "update":
            A(own_state, expr())
        elif feat == "yield":
            tm = V("<t>") if shared_persist and rng.random() < 0.7 else C(0.0)
            stmts.append({"id": sid(), "k": "yield", "expr": rng.choice([V("tmp"), V(own_state)]), "time": tm,
                          "comp": "u" if who == 1 else "v", "time_id": "final", "cond": None})
    return add_deps(stmts, rng, chain=rng.random() < 0.4)


FEATURES = ["flag", "loop", "loop_sub_only", "bound", "call", "ivar", "update", "yield"]


def gen_pair(rng, f1=None, f2=None, shared=None, pred="?", idstyle=None, two_phase=None):
    shared = rng.random() < 0.6 if shared is None else shared
    idstyle = idstyle or rng.choice(["s", "s", "mixed", "own"])
    two_phase = rng.random() < 0.25 if two_phase is None else two_phase
    f1 = f1 if f1 is not None else rng.sample(FEATURES, rng.randint(1, 3))
    f2 = f2 if f2 is not None else rng.sample(FEATURES, rng.randint(1, 3))
    ms = {}
    for who, feats in ((1, f1), (2, f2)):
        if two_phase:
            phases = {"p0": {"next": "p1", "stmts": gen_phase(rng, who, shared, idstyle, feats)},
                      "p1": {"next": "p0", "stmts": gen_phase(rng, who, shared, idstyle, feats[:1] or ["update"])}}
        else:
            phases = {"p0": {"next": "p0", "stmts": gen_phase(rng, who, shared, idstyle, feats)}}
        if who == 2 and rng.random() < 0.15:
            phases["extra"] = {"next": "p0", "stmts": gen_phase(rng, who, shared, idstyle, ["update"])}
        ms["m%d" % who] = {"initial": "p0", "phases": phases}
    if pred == "?":
        r = rng.random()
        pred = None if r < 0.5 else ({"nonpersistent": True} if r < 0.7 else
                                     ({"only": rng.sample(["tmp", "k", "a", "<cond>c", "i", "n"], 2)} if r < 0.9
                                      else {"all": True}))
    return dict(ms, pred=pred, init={"<state>u": 1.5, "<state>v": -0.5, "<state>c": 2.0, "<p>k1": 0.25, "<p>k2": 4.0,
                                     "<p>gain": 0.75},
                t0=rng.choice([0.0, 0.5]), dt=0.5, steps=2)


# ---------------------------------------------------------------- driver

def _safe(f, inp):
    try:
        return bool(f(inp))
    except Exception:
        return False


def bounded(payload):
    import time
    budget = payload.get("budget", {}) or {}
    tier = payload.get("tier", "quick")
    seed = payload.get("seed", 0)
    rng = random.Random(seed)
    nrand = budget.get("pairs", 250 if tier == "quick" else 6000)
    deadline = time.time() + budget.get("wall_s", 14 if tier == "quick" else 270)
    active = [(e.get("id"), e.get("fingerprint")) for e in payload.get("known", []) or []
              if e.get("fingerprint") in FINGERPRINTS]
    evals = 0
    distinct = set()
    failures, samples = [], []
    per_class = Counter()
    parts = Counter()

    def consider(pr):
        nonlocal evals
        evals += 1
        try:
            fails, info = check({"pair": pr})
        except Exception as ex:              # a bug of this oracle or an input it cannot build: never a finding
            parts["oracle_skipped_" + type(ex).__name__] += 1
            return
        if info.get("renamed_any"):
            distinct.add(json.dumps(pr, sort_keys=True))
        if info.get("run_checked"):
            parts["pairs_run_fused_vs_alone"] += 1
        if info.get("run_out_of_domain"):
            parts["pairs_run_clause_not_applicable"] += 1
        parts["shared_loop_identifier_only_not_counted"] += info.get("shared_loop_identifier_only", 0)
        if not fails:
            parts["pairs_all_clauses_hold"] += 1
        seen_items = set()
        for clause, detail, data in fails:
            item = (clause, item_name(data), data.get("phase"))
            if item in seen_items:
                continue
            seen_items.add(item)
            parts["failing_" + clause] += 1
            inp = {"pair": pr, "clause": clause}
            if item[1]:
                inp["name"] = item[1]
            if item[2]:
                inp["phase"] = item[2]
            matched = [n for n, f in sorted(FINGERPRINTS.items()) if _safe(f, inp)]
            for m in matched:
                parts["fingerprint_" + m] += 1
            if not matched:
                parts["no_fingerprint"] += 1
            sup = [kid for kid, name in active if name in matched]
            if sup:
                parts["suppressed_known_" + str(sup[0])] += 1
                continue
            cls = (clause, tuple(matched))
            per_class[cls] += 1
            if per_class[cls] <= 2:
                failures.append({"oracle": clause, "input": inp, "detail": detail, "matches_fingerprints": matched})

    # 1. systematic family: every ordered pair of single features x shared/disjoint persistent reads x predicate
    preds = [None, {"nonpersistent": True}, {"only": ["tmp"]}]
    k = 0
    for a in FEATURES:
        for b in FEATURES:
            for shared in (True, False):
                for pj in preds:
                    k += 1
                    if tier == "quick" and (k + seed) % 2:
                        continue
                    if time.time() > deadline:
                        parts["family_cut_by_wall_clock"] = 1
                        break
                    pr = gen_pair(random.Random(k), [a], [b], shared, pj, "s", False)
                    consider(pr)
                    parts["family_pairs"] += 1
                    if len(samples) < 1 and a == "flag" and b == "loop":
                        samples.append(pr)
    # 1a'. the same temporaries under names that LOOK like pieces of the time names (t, dt, d, >): they are ordinary per-step
    #      names, clash between the two methods, and have to be renamed like any other
    k = 0
    for a in FEATURES:
        for b in ("flag", "update", "loop"):
            if b not in FEATURES:
                continue
            for nm in ("dt", "t", "d"):
                k += 1
                if tier == "quick" and (k + seed) % 3:
                    continue
                pr = gen_pair(random.Random("timelike/%d" % k), [a], [b], True, None, "s", False)
                consider(json.loads(json.dumps(pr).replace('"tmp"', json.dumps(nm))))
                parts["family_time_like_temporary_pairs"] += 1
    # 1b. a persistent <p> variable both methods read; guarded Raise / FailStep statements (only a guard to rename)
    extra = ["sharedp", "guardraise", "guardfail", "kwcall"]
    k = 0
    for a in extra + ["flag", "update"]:
        for b in extra + ["flag", "update"]:
            if a not in extra and b not in extra:
                continue
            for pj in (None, {"nonpersistent": True}):
                for ids in ("s", "own"):
                    k += 1
                    pr = gen_pair(random.Random("extra/%d" % k), [a], [b], True, pj, ids, False)
                    consider(pr)
                    parts["family_shared_p_and_guarded_raise_pairs"] += 1
    # 1c. statement ids that are NOT in dependency order and overlap with the other method's: a renamed statement may get, as its
    # new id, the old id of one of its own dependencies (no edge may be lost on the way)
    def _a(i, lhs, rhs, deps):
        return {"id": i, "k": "assign", "lhs": lhs, "sub": None, "rhs": rhs, "cond": None, "loops": [], "deps": deps}
    for n_a in (5, 6, 7):
        for pre in ("s", "main_"):
            m1 = {"initial": "p0", "phases": {"p0": {"next": "p0", "stmts": [
                _a("%s%d" % (pre, i), "tmp" if i == 0 else "<state>u", ["+", V("<state>u"), C(1)] if i else V("<state>u"),
                   ["%s%d" % (pre, i - 1)] if i else []) for i in range(n_a)]}}}
            fill = [_a("%s%d" % (pre, i), "f%d" % i, C(i), []) for i in range(2, 5)]
            m2 = {"initial": "p0", "phases": {"p0": {"next": "p0", "stmts": [
                _a(pre + "0", "<state>v", ["*", V("tb"), C(2)], [pre + "6"]),
                _a(pre + "1", "<p>k2", ["+", V("tc"), V("<p>k2")], [pre + "5", pre + "0"])] + fill + [
                _a(pre + "5", "tc", ["+", V("tb"), C(3)], [pre + "6"]), _a(pre + "6", "tb", ["+", V("<state>v"), C(1)], [])]}}}
            for a_, b_ in ((m1, m2), (m2, m1)):
                consider(dict({"m1": a_, "m2": b_}, pred=None, init={"<state>u": 1.5, "<state>v": -0.5, "<state>c": 2.0, "<p>k1": 0.25,
                                                                      "<p>k2": 4.0, "<p>gain": 0.75}, t0=0.0, dt=0.5, steps=2))
                parts["family_ids_out_of_dependency_order"] += 1
    # 2. seeded random tail
    for _ in range(nrand):
        if time.time() > deadline:
            parts["random_tail_cut_by_wall_clock"] = 1
            break
        pr = gen_pair(rng)
        consider(pr)
        parts["random_pairs"] += 1
        if len(samples) < 3:
            samples.append(pr)
    known_hits = []
    for e in payload.get("known", []) or []:
        try:
            r = replay(e["native"])
        except Exception:
            r = {}
        if r.get("fails"):
            known_hits.append("%s: %s" % (e["id"], e["what"]))
    return {"evaluations": evals, "distinct_nontrivial": len(distinct),
            "rule": "pairs of generated methods (1-2 phases, 2-12 statements each) whose temporaries have the same "
                    "names (tmp, k, a, n, i, <cond>c) and whose statement ids overlap; family = all ordered pairs of "
                    "8 statement features (flag+guarded, loop, loop with subscript-only counter, variable loop bound, "
                    "statement-level call, `i` as plain temporary, plain update, yield) x shared/disjoint persistent "
                    "reads x 3 predicates%s, then seeded random pairs with 1-3 features each, 4 predicates, 3 id "
                    "styles, optional second phase and one-sided phase. evaluation = one pair through all clauses "
                    "(structure, renaming, and 2 deterministic schedules of the real interpreter x 2 steps when the "
                    "persistent read/write sets do not interfere); distinct non-trivial = distinct pairs in which "
                    "fusion renamed at least one name" % (" (every 2nd)" if tier == "quick" else ""),
            "bound": "<=2 phases (+1 one-sided), <=12 statements per phase, expression depth <=2, 2 steps",
            "samples": samples, "failures": sorted(failures, key=lambda f: bool(f["matches_fingerprints"]))[:20], "known_hits": known_hits, "parts": dict(parts),
            "exhaustive": False}
