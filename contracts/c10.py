"""C10 — well-formedness verification accepts exactly the well-formed methods.

Functions under contract (read from /repo/dagrt/codegen/analysis.py on every run):
  verify_no_circular_dependencies (three contracts: frame, soundness, completeness),
  verify_switch_phases, verify_all_dependencies_exist,
  verify_single_definition_cond_rule, verify_code.
"""
import z3
from z3 import And, Or, Not, Implies, ForAll, Select, Store, If, IntSort, BoolSort

from pyvc.values import *  # noqa
from pyvc.contracts import FunctionContract, FunctionUnit, LemmaUnit
from pyvc.engine import Obligation
from .dagspec import *  # noqa
from . import dagspec as G

PROP = "C10"
REL = "dagrt/codegen/analysis.py"

I = lambda n: z3.Int(n)  # noqa


def qv(*names):
    return [z3.Int(n) for n in names]


# ==========================================================================
# verify_no_circular_dependencies
# ==========================================================================

num = z3.Function("num", Id, IntSort())           # arbitrary height function (soundness variant)
pos = z3.Function("lpos", Stmt, IntSort())        # choice of a list index for a statement
ix = z3.Function("ixdep", Id, IntSort())          # closure witness: index of the statement with that id


class CycleBase(FunctionContract):
    prop = PROP
    relpath = REL
    qualname = "verify_no_circular_dependencies"
    closed = True

    def __init__(self):
        self.n0 = z3.Int("stmts_n")
        self.a0 = z3.Const("stmts_a", STMT_LIST.asort)
        self.e0 = z3.Int("errors_n0")

    def In(self, s):
        return And(pos(s) >= 0, pos(s) < self.n0, Select(self.a0, pos(s)) == s)

    def params(self, ctx):
        ctx.env["statements"] = ctx.alloc(VList(STMT_LIST, self.n0, self.a0))
        ctx.env["errors"] = ctx.alloc(VList(MSG_LIST, self.e0, z3.Const("errors_a", MSG_LIST.asort)))

    def requires(self, st):
        n0, a0 = self.n0, self.a0
        i, j = qv("i", "j")
        d = z3.Const("d", Id)
        R = [("len>=0", And(n0 >= 0, self.e0 >= 0)),
             ("unique-ids", ForAll([i, j], Implies(And(0 <= i, i < n0, 0 <= j, j < n0, i != j),
                                                   sid(Select(a0, i)) != sid(Select(a0, j))))),
             ("pos-choice", ForAll([j], Implies(And(0 <= j, j < n0), self.In(Select(a0, j)))))]
        if self.closed:
            R.append(("closed", ForAll([j, d], Implies(
                And(0 <= j, j < n0, Select(sdeps(Select(a0, j)), d)),
                And(ix(d) >= 0, ix(d) < n0, sid(Select(a0, ix(d))) == d)))))
        return R

    def type_of_literal(self, node):
        raise Unsupported("literal")

    # `set()` with no argument: a set of ids
    names = {"set": VFunc("set", lambda ctx, it, args, kw: _mk_set(ctx, it, args))}


def _mk_set(ctx, it, args):
    if not args:
        return ctx.alloc(empty_set(TSet(ID)))
    from pyvc.interp import _b_set
    return _b_set(ctx, it, args, {})


class CycleFrame(CycleBase):
    """no assumption on the dependency sets: only KeyError may escape, errors never shrinks"""
    variant_name = "frame"
    closed = False
    raises = {"KeyError": lambda st: []}

    loops = {
        0: dict(shape="while stack", inv=lambda s: [
            ("stack-len", s.stack.n >= 0),
            ("errors-grow", s.errors.n >= s.old.errors.n)]),
        1: dict(shape="for neighbor in top.depends_on", inv=lambda s: [
            ("stack-len", s.stack.n >= 1),
            ("errors-grow", s.errors.n >= s.old.errors.n)]),
    }

    def ensures(self, st):
        return [("errors-grow", st.errors.n >= st.old.errors.n)]


def _common_inv(c, s, inner=False):
    """invariants shared by the soundness and completeness contracts"""
    K = s.stack
    m = z3.Int("m")
    x = z3.Const("x", Id)
    ep = s.g("ep")
    out = [
        ("stack-len", K.n >= (1 if inner else 0)),
        ("stack-entries-are-statements", ForAll([m], Implies(And(0 <= m, m < K.n), c.In(Select(K.a, m))))),
        ("visiting-subset-visited", ForAll([x], Implies(Select(s.visiting.t, x), Select(s.visited.t, x)))),
        ("visiting-has-expansion-position",
         ForAll([x], Implies(Select(s.visiting.t, x),
                             And(Select(ep, x) >= 0, Select(ep, x) < K.n,
                                 sid(Select(K.a, Select(ep, x))) == x)))),
    ]
    return out


def _inner_frame(c, s, extra_ghosts=()):
    """inner `for neighbor in top.depends_on`: what the loop leaves alone"""
    K, E = s.stack, s.entry.stack
    m = z3.Int("m")
    out = [
        ("stack-grows", K.n >= E.n),
        ("stack-below-entry-unchanged", ForAll([m], Implies(And(0 <= m, m < E.n),
                                                            Select(K.a, m) == Select(E.a, m)))),
        ("pushed-are-deps-of-top-not-visiting",
         ForAll([m], Implies(And(E.n <= m, m < K.n),
                             And(c.In(Select(K.a, m)),
                                 Select(sdeps(s.top.t), sid(Select(K.a, m))),
                                 Not(Select(s.visiting.t, sid(Select(K.a, m)))))))),
        ("visited-unchanged", s.visited.t == s.entry.visited.t),
        ("visiting-unchanged", s.visiting.t == s.entry.visiting.t),
        ("errors-unchanged", s.errors.n == s.entry.errors.n),
        ("ep-unchanged", s.g("ep") == s.entry.g("ep")),
        ("top-is-stack-top-at-entry", And(E.n >= 1, s.top.t == Select(E.a, E.n - 1))),
    ]
    for g in extra_ghosts:
        out.append(("%s-unchanged" % g, s.g(g) == s.entry.g(g)))
    return out


class CycleSound(CycleBase):
    """closed + an arbitrary height function `num` => the error branch is unreachable,
    no exception, errors untouched"""
    variant_name = "soundness"

    def ghosts(self, ctx):
        ctx.ghost["ep"] = z3.Const("ep0", z3.ArraySort(Id, IntSort()))

    def requires(self, st):
        R = super().requires(st)
        j = z3.Int("j")
        d = z3.Const("d", Id)
        R.append(("height", ForAll([j, d], Implies(
            And(0 <= j, j < self.n0, Select(sdeps(Select(self.a0, j)), d)),
            num(d) < num(sid(Select(self.a0, j)))))))
        return R

    def _inv6(self, s):
        K = s.stack
        m = z3.Int("m")
        x = z3.Const("x", Id)
        ep = s.g("ep")
        return ("above-a-visiting-node-everything-is-lower",
                ForAll([x, m], Implies(And(Select(s.visiting.t, x), Select(ep, x) < m, m < K.n),
                                       num(sid(Select(K.a, m))) < num(x))))

    def inv_outer(self, s):
        return _common_inv(self, s) + [self._inv6(s), ("errors-unchanged", s.errors.n == s.old.errors.n)]

    def inv_inner(self, s):
        top_id = sid(s.top.t)
        return (_common_inv(self, s, inner=True) + [self._inv6(s)] + _inner_frame(self, s)
                + [("top-visiting-at-entry-top",
                    And(Select(s.visiting.t, top_id), Select(s.g("ep"), top_id) == s.entry.stack.n - 1))])

    @property
    def loops(self):
        return {
            0: dict(shape="while stack", inv=self.inv_outer, havoc_ghosts=["ep"]),
            1: dict(shape="for neighbor in top.depends_on", inv=self.inv_inner),
        }

    @property
    def ghost_updates(self):
        def on_visiting_add(ctx, it):
            top = ctx.deref(ctx.env["top"])
            K = ctx.deref(ctx.env["stack"])
            ctx.ghost["ep"] = Store(ctx.ghost["ep"], sid(top.t), K.n - 1)
        return {"visiting.add(top.id)": on_visiting_add}

    def ensures(self, st):
        return [("errors-unchanged", st.errors.n == st.old.errors.n),
                ("error-branch-unreachable", st.errors.n == st.old.errors.n)]


card = z3.Function("card", IdSet, IntSort())        # number of elements of a finite set of ids (Finset.card, L-CARD)
ALLS = z3.Const("ids_of_all_statements", IdSet)


def card_axioms():
    """L-CARD (lemmas/LCard.lean): card >= 0; inserting a new element adds one; a subset has at most as many elements"""
    S, T = z3.Consts("S T", IdSet)
    x = z3.Const("x", Id)
    y = z3.Const("y", Id)
    return [ForAll([S], card(S) >= 0, patterns=[card(S)]),
            ForAll([S, x], Implies(Not(Select(S, x)), card(Store(S, x, True)) == card(S) + 1),
                   patterns=[card(Store(S, x, True))]),
            ForAll([S, T], Implies(ForAll([y], Implies(Select(S, y), Select(T, y))), card(S) <= card(T)),
                   patterns=[z3.MultiPattern(card(S), card(T))])]


class CycleTerminates(CycleBase):
    """'never hangs': the while loop of the cycle detector terminates on every input (lexicographic variant:
    number of statement ids not yet visited, then the length of the stack); finite-set cardinality from L-CARD"""
    variant_name = "termination"
    closed = False
    any_raise_ok = True            # leaving by KeyError is also leaving
    prune_quantified = False
    axioms = property(lambda self: tuple(card_axioms()))

    def requires(self, st):
        j = z3.Int("j")
        return super().requires(st) + [
            ("ids-of-all-statements", ForAll([j], Implies(And(0 <= j, j < self.n0), Select(ALLS, sid(Select(self.a0, j))))))]

    def inv_outer(self, s, inner=False):
        K = s.stack
        m = z3.Int("m")
        x = z3.Const("x", Id)
        return [("stack-len", K.n >= (1 if inner else 0)),
                ("stack-entries-are-statements", ForAll([m], Implies(And(0 <= m, m < K.n), self.In(Select(K.a, m))))),
                ("only-ids-of-statements-are-visited", ForAll([x], Implies(Select(s.visited.t, x), Select(ALLS, x))))]

    def inv_inner(self, s):
        K, E = s.stack, s.entry.stack
        return self.inv_outer(s, inner=True) + [
            ("stack-grows", K.n >= E.n),
            ("visited-unchanged", s.visited.t == s.entry.visited.t)]

    def measure(self, s):
        return [card(ALLS) - card(s.visited.t), s.stack.n]

    @property
    def loops(self):
        return {0: dict(shape="while stack", inv=self.inv_outer, variant=self.measure),
                1: dict(shape="for neighbor in top.depends_on", inv=self.inv_inner)}

    def ensures(self, st):
        return []


class CycleComplete(CycleBase):
    """closed => no exception; at most one message; if none was added the ghost finishing
    order `fin` is a height function (so the graph is acyclic)"""
    variant_name = "completeness"

    def __init__(self, fin_out=None):
        super().__init__()
        self.fin_out = fin_out

    def ghosts(self, ctx):
        ctx.ghost["ep"] = z3.Const("ep0", z3.ArraySort(Id, IntSort()))
        ctx.ghost["fin"] = z3.Const("fin0", z3.ArraySort(Id, IntSort()))
        ctx.ghost["cnt"] = z3.IntVal(0)
        ctx.ghost["lw"] = self.n0          # low-water mark of the stack length
        # W[x][d]: stack position at which dependency d of the visiting node x was pushed
        ctx.ghost["W"] = z3.Const("W0", z3.ArraySort(Id, z3.ArraySort(Id, IntSort())))

    def done(self, s, x):
        return And(Select(s.visited.t, x), Not(Select(s.visiting.t, x)))

    def inv_c(self, s, inner=False):
        K = s.stack
        m, j = qv("m", "j")
        x, d = z3.Consts("x d", Id)
        ep, fin, cnt, W, lw = s.g("ep"), s.g("fin"), s.g("cnt"), s.g("W"), s.g("lw")
        n0, a0 = self.n0, self.a0
        out = [
            ("topmost-occurrence",
             ForAll([x, m], Implies(And(Select(s.visiting.t, x), Select(ep, x) < m, m < K.n),
                                    sid(Select(K.a, m)) != x))),
            ("low-water-mark", And(0 <= lw, lw <= K.n, lw <= n0)),
            ("bottom-of-stack-is-the-input",
             ForAll([j], Implies(And(0 <= j, j < lw), Select(K.a, j) == Select(a0, j)))),
            ("popped-input-statements-are-done",
             ForAll([j], Implies(And(0 <= j, j < n0, j >= lw), self.done(s, sid(Select(a0, j)))))),
            ("cnt>=0", cnt >= 0),
            ("done-have-finishing-number",
             ForAll([x], Implies(self.done(s, x), And(Select(fin, x) >= 0, Select(fin, x) < cnt)))),
            ("deps-of-done-are-done-earlier",
             ForAll([j, d], Implies(
                 And(0 <= j, j < n0, self.done(s, sid(Select(a0, j))), Select(sdeps(Select(a0, j)), d)),
                 And(self.done(s, d), Select(fin, d) < Select(fin, sid(Select(a0, j))))))),
        ]
        # every dependency of a visiting node is done or waits above it on the stack
        topid = sid(s.top.t) if inner else None
        waiting = ForAll([x, d], Implies(
            And(Select(s.visiting.t, x), Select(sdeps(Select(K.a, Select(ep, x))), d),
                *( [Or(x != topid, Select(s.ex_proc, d))] if inner else [] )),
            Or(self.done(s, d),
               And(Select(Select(W, x), d) > Select(ep, x), Select(Select(W, x), d) < K.n,
                   sid(Select(K.a, Select(Select(W, x), d))) == d))))
        out.append(("deps-of-visiting-done-or-waiting-above", waiting))
        out.append(("errors-unchanged", s.errors.n == s.old.errors.n))
        return out

    def inv_outer(self, s):
        return _common_inv(self, s) + self.inv_c(s)

    def inv_inner(self, s):
        top_id = sid(s.top.t)
        x = z3.Const("x", Id)
        W = s.g("W")
        s._extra["ex_proc"] = s._extra["$proc"].t
        return (_common_inv(self, s, inner=True) + self.inv_c(s, inner=True)
                + _inner_frame(self, s, extra_ghosts=("fin", "cnt", "lw"))
                + [("top-visiting-at-entry-top",
                    And(Select(s.visiting.t, top_id), Select(s.g("ep"), top_id) == s.entry.stack.n - 1)),
                   ("W-of-others-unchanged",
                    ForAll([x], Implies(x != top_id, Select(W, x) == Select(s.entry.g("W"), x))))])

    @property
    def loops(self):
        return {
            0: dict(shape="while stack", inv=self.inv_outer, havoc_ghosts=["ep", "fin", "cnt", "W", "lw"]),
            1: dict(shape="for neighbor in top.depends_on", inv=self.inv_inner, havoc_ghosts=["W"]),
        }

    @property
    def ghost_updates(self):
        def on_visiting_add(ctx, it):
            top = ctx.deref(ctx.env["top"])
            K = ctx.deref(ctx.env["stack"])
            ctx.ghost["ep"] = Store(ctx.ghost["ep"], sid(top.t), K.n - 1)

        def on_visiting_remove(ctx, it):
            top = ctx.deref(ctx.env["top"])
            ctx.ghost["fin"] = Store(ctx.ghost["fin"], sid(top.t), ctx.ghost["cnt"])
            ctx.ghost["cnt"] = ctx.ghost["cnt"] + 1

        def on_push(ctx, it):
            top = ctx.deref(ctx.env["top"])
            nb = ctx.deref(ctx.env["neighbor"])
            K = ctx.deref(ctx.env["stack"])
            W = ctx.ghost["W"]
            ctx.ghost["W"] = Store(W, sid(top.t), Store(Select(W, sid(top.t)), nb.t, K.n - 1))
        def on_pop(ctx, it):
            K = ctx.deref(ctx.env["stack"])
            ctx.ghost["lw"] = If(K.n < ctx.ghost["lw"], K.n, ctx.ghost["lw"])
        return {"visiting.add(top.id)": on_visiting_add,
                "stack.pop()": on_pop,
                "visiting.remove(top.id)": on_visiting_remove,
                "stack.append(id_to_statement[neighbor])": on_push}

    def ensures(self, st):
        j = z3.Int("j")
        d = z3.Const("d", Id)
        fin = st.g("fin")
        n0, a0 = self.n0, self.a0
        return [
            ("at-most-one-message", Or(st.errors.n == st.old.errors.n, st.errors.n == st.old.errors.n + 1)),
            ("no-message=>finishing-order-is-a-height-function",
             Implies(st.errors.n == st.old.errors.n,
                     ForAll([j, d], Implies(And(0 <= j, j < n0, Select(sdeps(Select(a0, j)), d)),
                                            Select(fin, d) < Select(fin, sid(Select(a0, j))))))),
        ]


# ==========================================================================
# the DAG-level vocabulary: phases as a dict PName -> Phase
# ==========================================================================

PD = z3.Const("phases_dom", z3.ArraySort(PName, BoolSort()))
PVAL = z3.Const("phases_val", z3.ArraySort(PName, Phase))
PV = z3.Const("phases_values", z3.ArraySort(Phase, BoolSort()))
KEYOF = z3.Function("keyof", Phase, PName)
PHASES_TY = TDict(PNAME, PHASE)

H = z3.Function("H", Phase, Id, IntSort())        # height function assumed by WF_hyp
FIN = z3.Function("FIN", Phase, Id, IntSort())    # height function provided by the detector
IXH = z3.Function("IXH", Phase, Id, IntSort())    # closure witness assumed by WF_hyp
DJ = z3.Function("DJ", Phase, Id, IntSort())      # ExecutionPhase.depends_on is a subset of the ids


def stmt_at(p, i):
    return Select(ph_a(p), i)


def rng(p, i):
    return And(0 <= i, i < ph_n(p))


def dag_axioms():
    k = z3.Const("k", PName)
    p = z3.Const("p", Phase)
    d = z3.Const("d", Id)
    i, j = qv("i", "j")
    return [
        ("values-1", ForAll([k], Implies(Select(PD, k), Select(PV, Select(PVAL, k))))),
        ("values-2", ForAll([p], Implies(Select(PV, p), And(Select(PD, KEYOF(p)), Select(PVAL, KEYOF(p)) == p)))),
        ("len>=0", ForAll([p], ph_n(p) >= 0)),
        # input validity: statement ids are unique within a phase
        ("unique-ids", ForAll([p, i, j], Implies(And(rng(p, i), rng(p, j), i != j),
                                                 sid(stmt_at(p, i)) != sid(stmt_at(p, j))))),
        # proved contract of ExecutionPhase.depends_on (C04): a subset of the phase's statement ids
        ("phase.depends_on-subset-of-ids",
         ForAll([p, d], Implies(Select(ph_deps(p), d), And(rng(p, DJ(p, d)), sid(stmt_at(p, DJ(p, d))) == d)))),
    ]


def no_id(p, d):
    j = z3.Int("jn")
    return ForAll([j], Implies(rng(p, j), sid(stmt_at(p, j)) != d))


def dangling(p, i, d):
    return And(Select(sdeps(stmt_at(p, i)), d), no_id(p, d))


def bad_switch(p, i):
    return And(is_switch(stmt_at(p, i)), Not(Select(PD, s_next_phase(stmt_at(p, i)))))


def double_cond(p, i, j, v):
    return And(i != j, is_cond_name(v), Select(s_written(stmt_at(p, i)), v), Select(s_written(stmt_at(p, j)), v))


def closed_with(p, ixf):
    i = z3.Int("ic")
    d = z3.Const("dc", Id)
    return ForAll([i, d], Implies(And(rng(p, i), Select(sdeps(stmt_at(p, i)), d)),
                                  And(rng(p, ixf(p, d)), sid(stmt_at(p, ixf(p, d))) == d)))


def closed_exists(p):
    i, j = qv("ic", "jc")
    d = z3.Const("dc", Id)
    return ForAll([i, d], Implies(And(rng(p, i), Select(sdeps(stmt_at(p, i)), d)),
                                  z3.Exists([j], And(rng(p, j), sid(stmt_at(p, j)) == d))))


def height_with(p, h):
    i = z3.Int("ih")
    d = z3.Const("dh", Id)
    return ForAll([i, d], Implies(And(rng(p, i), Select(sdeps(stmt_at(p, i)), d)),
                                  h(p, d) < h(p, sid(stmt_at(p, i)))))


def WF_hyp():
    """the property's well-formedness, with its existentials skolemised by IXH / H (for use as a hypothesis)"""
    p = z3.Const("pw", Phase)
    i, j = qv("iw", "jw")
    v = z3.Const("vw", VarName)
    return And(
        ForAll([p], Implies(Select(PV, p), closed_with(p, IXH))),
        ForAll([p], Implies(Select(PV, p), height_with(p, H))),
        ForAll([p, i], Implies(And(Select(PV, p), rng(p, i)), Not(bad_switch(p, i)))),
        ForAll([p, i, j, v], Implies(And(Select(PV, p), rng(p, i), rng(p, j)), Not(double_cond(p, i, j, v)))))


def WF_concl_parts():
    """the property's well-formedness as goals (acyclicity witnessed by FIN)"""
    p = z3.Const("pw", Phase)
    i, j = qv("iw", "jw")
    v = z3.Const("vw", VarName)
    return [
        ("every-dependency-names-a-statement-of-the-same-phase",
         ForAll([p], Implies(Select(PV, p), closed_exists(p)))),
        ("each-phase-is-acyclic", ForAll([p], Implies(Select(PV, p), height_with(p, FIN)))),
        ("every-switch-targets-an-existing-phase",
         ForAll([p, i], Implies(And(Select(PV, p), rng(p, i)), Not(bad_switch(p, i))))),
        ("each-cond-flag-has-at-most-one-writer-per-phase",
         ForAll([p, i, j, v], Implies(And(Select(PV, p), rng(p, i), rng(p, j)), Not(double_cond(p, i, j, v))))),
    ]


class DagContract(FunctionContract):
    prop = PROP
    relpath = REL
    opaque_list_type = MSG_LIST

    def __init__(self):
        self.e0 = z3.Int("errors_n0")

    def bind_phases(self, ctx, name="phases"):
        ctx.env[name] = ctx.alloc(VDict(PHASES_TY, PD, PVAL))

    def bind_errors(self, ctx):
        ctx.env["errors"] = ctx.alloc(VList(MSG_LIST, self.e0, z3.Const("errors_a", MSG_LIST.asort)))

    def requires(self, st):
        return dag_axioms() + [("errors-len", self.e0 >= 0)]

    names = {"_quote": VFunc("_quote", lambda ctx, it, a, k: VPy("<str>")),
             "str": VFunc("str", lambda ctx, it, a, k: VPy("<str>"))}

    def _values(self, ctx, it, args, kw):
        return VSet(TSet(PHASE), PV)

    @property
    def calls(self):
        return {"phases.values": self._values, "code.phases.values": self._values}


# --------------------------------------------------------------------------
class SwitchContract(DagContract):
    qualname = "verify_switch_phases"

    def params(self, ctx):
        self.bind_phases(ctx)
        self.bind_errors(ctx)

    def ghosts(self, ctx):
        ctx.ghost["wp"] = z3.Const("wp0", Phase)
        ctx.ghost["wi"] = z3.Int("wi0")

    def witness(self, s):
        wp, wi = s.g("wp"), s.g("wi")
        return Implies(s.errors.n > self.e0, And(Select(PV, wp), rng(wp, wi), bad_switch(wp, wi)))

    def inv0(self, s):
        p = z3.Const("p", Phase)
        i = z3.Int("i")
        proc = s._extra["$proc"].t
        return [("errors-grow", s.errors.n >= self.e0),
                ("message=>witness", self.witness(s)),
                ("processed-bad-switch=>message",
                 ForAll([p, i], Implies(And(Select(proc, p), rng(p, i), bad_switch(p, i)), s.errors.n > self.e0)))]

    def inv1(self, s):
        i = z3.Int("i")
        ph = s.phase.t
        return self.inv0_outer_part(s) + [
            ("processed-prefix-bad-switch=>message",
             ForAll([i], Implies(And(0 <= i, i < s._extra["$i"].t, bad_switch(ph, i)), s.errors.n > self.e0)))]

    def inv0_outer_part(self, s):
        # inside the inner loop the outer loop's processed set is that of the enclosing iteration
        p = z3.Const("p", Phase)
        i = z3.Int("i")
        proc = s.loop(0)["$proc"].t
        return [("errors-grow", s.errors.n >= self.e0),
                ("message=>witness", self.witness(s)),
                ("processed-bad-switch=>message",
                 ForAll([p, i], Implies(And(Select(proc, p), rng(p, i), bad_switch(p, i)), s.errors.n > self.e0))),
                ("phase-is-a-value", Select(PV, s.phase.t))]

    @property
    def loops(self):
        return {0: dict(shape="for phase in phases.values()", inv=self.inv0, havoc_ghosts=["wp", "wi"]),
                1: dict(shape="for inst in phase.statements", inv=self.inv1, havoc_ghosts=["wp", "wi"],
                        outer=0)}

    @property
    def ghost_updates(self):
        def on_append(ctx, it):
            ctx.ghost["wp"] = ctx.deref(ctx.env["phase"]).t
            ctx.ghost["wi"] = ctx.loop_extra[1]["$i"].t
        return {"re:^errors\\.append\\(": on_append}

    def ensures(self, st):
        p = z3.Const("p", Phase)
        i = z3.Int("i")
        return [("errors-grow", st.errors.n >= self.e0),
                ("message=>some-switch-targets-a-missing-phase", self.witness(st)),
                ("bad-switch=>message",
                 ForAll([p, i], Implies(And(Select(PV, p), rng(p, i), bad_switch(p, i)), st.errors.n > self.e0)))]


# --------------------------------------------------------------------------
class DepsExistContract(DagContract):
    qualname = "verify_all_dependencies_exist"

    def params(self, ctx):
        self.bind_phases(ctx)
        self.bind_errors(ctx)

    def ghosts(self, ctx):
        ctx.ghost["wp"] = z3.Const("wp0", Phase)
        ctx.ghost["wi"] = z3.Int("wi0")
        ctx.ghost["wd"] = z3.Const("wd0", Id)

    def witness(self, s):
        wp, wi, wd = s.g("wp"), s.g("wi"), s.g("wd")
        return Implies(s.errors.n > self.e0, And(Select(PV, wp), rng(wp, wi), dangling(wp, wi, wd)))

    def all_reported(self, s, procset):
        p = z3.Const("p", Phase)
        i = z3.Int("i")
        d = z3.Const("d", Id)
        return ForAll([p, i, d], Implies(And(Select(procset, p), rng(p, i), dangling(p, i, d)),
                                         s.errors.n > self.e0))

    def ids_is_the_id_set(self, s):
        j = z3.Int("j")
        d = z3.Const("d", Id)
        ph = s.phase.t
        return [("ids-1", ForAll([j], Implies(rng(ph, j), Select(s.ids.t, sid(stmt_at(ph, j)))))),
                ("ids-2", ForAll([d], Implies(Select(s.ids.t, d), Not(no_id(ph, d)))))]

    def inv0(self, s):
        return [("errors-grow", s.errors.n >= self.e0),
                ("message=>witness", self.witness(s)),
                ("processed-dangling=>message", self.all_reported(s, s.loop(0)["$proc"].t))]

    def inv1(self, s):
        i = z3.Int("i")
        d = z3.Const("d", Id)
        ph = s.phase.t
        return [("errors-grow", s.errors.n >= self.e0),
                ("message=>witness", self.witness(s)),
                ("processed-dangling=>message", self.all_reported(s, s.loop(0)["$proc"].t)),
                ("phase-is-a-value", Select(PV, ph)),
                ("ids-unchanged", s.ids.t == s.entry.ids.t),
                ("processed-prefix-dangling=>message",
                 ForAll([i, d], Implies(And(0 <= i, i < s.loop(1)["$i"].t, dangling(ph, i, d)),
                                        s.errors.n > self.e0)))]

    def inv2(self, s):
        p = z3.Const("p", Phase)
        return [("errors-grow", s.errors.n >= self.e0),
                ("message=>witness", self.witness(s)),
                ("all-dangling=>message", self.all_reported(s, PV))]

    @property
    def loops(self):
        g = ["wp", "wi", "wd"]
        return {0: dict(shape="for phase in phases.values()", inv=self.inv0, havoc_ghosts=g),
                1: dict(shape="for inst in phase.statements", inv=self.inv1, havoc_ghosts=g),
                2: dict(shape="for (phase_name, phase) in phases.items()", inv=self.inv2, havoc_ghosts=g)}

    @property
    def ghost_updates(self):
        def on_extend(ctx, it):
            if "inst" not in ctx.env or 1 not in ctx.loop_extra or "$i" not in ctx.loop_extra[1]:
                return
            ph = ctx.deref(ctx.env["phase"]).t
            inst = ctx.deref(ctx.env["inst"]).t
            # a dependency of `inst` that is not an id of the phase: witness of `not deps <= ids`
            deps = ctx.deref(ctx.env["deps"])
            ids = ctx.deref(ctx.env["ids"])
            w = z3.Const(fresh_name("wdang"), Id)
            ctx.ghost["$pending_w"] = w
            ctx.ghost["wp"] = ph
            ctx.ghost["wi"] = ctx.loop_extra[1]["$i"].t
            ctx.ghost["wd"] = z3.Const("wd_choice", Id) if False else self._subset_witness(ctx)
        return {"re:^errors\\.extend\\(": on_extend}

    def _subset_witness(self, ctx):
        # the engine's subset test introduced a skolem witness `w` with deps[w] and not ids[w]
        # on the false branch; recover it from the path condition
        for f in reversed(ctx.pc):
            if z3.is_implies(f) and z3.is_not(f.arg(0)) and z3.is_and(f.arg(1)):
                sel = f.arg(1).arg(0)
                if z3.is_select(sel):
                    return sel.arg(1)
        raise Unsupported("subset witness not found")

    def ensures(self, st):
        return [("errors-grow", st.errors.n >= self.e0),
                ("message=>some-dependency-names-no-statement-of-its-phase", self.witness(st)),
                ("dangling-dependency=>message", self.all_reported(st, PV))]


# --------------------------------------------------------------------------
class CondRuleContract(FunctionContract):
    """per phase: a message is added iff two different statements write the same <cond> name"""
    prop = PROP
    relpath = REL
    qualname = "verify_single_definition_cond_rule"
    opaque_list_type = MSG_LIST

    def __init__(self):
        self.n0 = z3.Int("stmts_n")
        self.a0 = z3.Const("stmts_a", STMT_LIST.asort)
        self.e0 = z3.Int("errors_n0")
        self.cty = TDict(VARNAME, COUNT)

    def params(self, ctx):
        ctx.env["statements"] = ctx.alloc(VList(STMT_LIST, self.n0, self.a0))
        ctx.env["errors"] = ctx.alloc(VList(MSG_LIST, self.e0, z3.Const("errors_a", MSG_LIST.asort)))

    def requires(self, st):
        return [("len>=0", And(self.n0 >= 0, self.e0 >= 0))]

    def type_of_literal(self, node):
        return self.cty

    def list_literal(self, ctx, it, e):
        # `[statement]`: a list of which only the length matters
        for x in e.elts:
            it.eval(x)
        return VCount(len(e.elts))

    names = {"_quote": VFunc("_quote", lambda ctx, it, a, k: VPy("<str>")),
             "str": VFunc("str", lambda ctx, it, a, k: VPy("<str>"))}

    def ghosts(self, ctx):
        ctx.ghost["f1"] = z3.Const("f1_0", z3.ArraySort(VarName, IntSort()))
        ctx.ghost["f2"] = z3.Const("f2_0", z3.ArraySort(VarName, IntSort()))
        ctx.ghost["wv"] = z3.Const("wv0", VarName)

    def writes(self, i, v):
        return Select(s_written(Select(self.a0, i)), v)

    def table(self, s, upto, also=None):
        """cond_variables characterised for the statements a0[0..upto) (and, inside the inner loop,
        for the already processed names of statement `upto`)"""
        v = z3.Const("v", VarName)
        i = z3.Int("i")
        cv = s.cond_variables
        f1, f2 = s.g("f1"), s.g("f2")
        cnt = lambda x: Select(cv.val, x)  # noqa
        seen = (lambda i_, v_: Or(i_ < upto, And(i_ == upto, Select(also, v_)))) if also is not None \
            else (lambda i_, v_: i_ < upto)
        return [
            ("present=>first-writer",
             ForAll([v], Implies(Select(cv.dom, v),
                                 And(is_cond_name(v), cnt(v) >= 1, 0 <= Select(f1, v), seen(Select(f1, v), v),
                                     Select(f1, v) < self.n0, self.writes(Select(f1, v), v))))),
            ("count>1=>second-writer",
             ForAll([v], Implies(And(Select(cv.dom, v), cnt(v) > 1),
                                 And(0 <= Select(f2, v), seen(Select(f2, v), v), Select(f2, v) < self.n0,
                                     Select(f2, v) != Select(f1, v), self.writes(Select(f2, v), v))))),
            ("seen-writer=>present-and-counted",
             ForAll([i, v], Implies(And(0 <= i, i < self.n0, seen(i, v), is_cond_name(v), self.writes(i, v)),
                                    And(Select(cv.dom, v), Implies(i != Select(f1, v), cnt(v) > 1))))),
        ]

    def inv0(self, s):
        return [("errors-unchanged", s.errors.n == self.e0)] + self.table(s, s.loop(0)["$i"].t)

    def inv1(self, s):
        return ([("errors-unchanged", s.errors.n == self.e0),
                 ("iterating-written-set", s.loop(1)["$S"].t == s_written(s.statement.t)),
                 ("statement-is-current", And(s.statement.t == Select(self.a0, s.loop(0)["$i"].t),
                                              0 <= s.loop(0)["$i"].t, s.loop(0)["$i"].t < self.n0))]
                + self.table(s, s.loop(0)["$i"].t, also=s.loop(1)["$proc"].t))

    def double(self, v, i, j):
        return And(0 <= i, i < self.n0, 0 <= j, j < self.n0, i != j, is_cond_name(v),
                   self.writes(i, v), self.writes(j, v))

    def inv2(self, s):
        v = z3.Const("v", VarName)
        cv = s.cond_variables
        wv = s.g("wv")
        f1, f2 = s.g("f1"), s.g("f2")
        return ([("errors-grow", s.errors.n >= self.e0),
                 ("table-unchanged", And(cv.dom == s.entry.cond_variables.dom, cv.val == s.entry.cond_variables.val,
                                         f1 == s.entry.g("f1"), f2 == s.entry.g("f2"))),
                 ("message=>witness", Implies(s.errors.n > self.e0,
                                              And(Select(cv.dom, wv), Select(cv.val, wv) > 1))),
                 ("processed-multiple=>message",
                  ForAll([v], Implies(And(Select(s.loop(2)["$proc"].t, v), Select(cv.val, v) > 1),
                                      s.errors.n > self.e0)))]
                + self.table(s, self.n0))

    @property
    def loops(self):
        return {0: dict(shape="for statement in statements", inv=self.inv0, havoc_ghosts=["f1", "f2"]),
                1: dict(shape="for varname in statement.get_written_variables()", inv=self.inv1,
                        havoc_ghosts=["f1", "f2"]),
                2: dict(shape="for (varname, insts) in cond_variables.items()", inv=self.inv2,
                        havoc_ghosts=["wv"])}

    @property
    def ghost_updates(self):
        def first(ctx, it):
            v = ctx.deref(ctx.env["varname"]).t
            ctx.ghost["f1"] = Store(ctx.ghost["f1"], v, ctx.loop_extra[0]["$i"].t)

        def second(ctx, it):
            v = ctx.deref(ctx.env["varname"]).t
            ctx.ghost["f2"] = Store(ctx.ghost["f2"], v, ctx.loop_extra[0]["$i"].t)

        def report(ctx, it):
            ctx.ghost["wv"] = ctx.deref(ctx.env["varname"]).t
        return {"cond_variables[varname] = [statement]": first,
                "cond_variables[varname].append(statement)": second,
                "re:^errors\\.append\\(": report}

    def ensures(self, st):
        v = z3.Const("v", VarName)
        i, j = qv("i", "j")
        wv = st.g("wv")
        f1, f2 = st.g("f1"), st.g("f2")
        return [("errors-grow", st.errors.n >= self.e0),
                ("message=>two-writers-of-one-cond-name",
                 Implies(st.errors.n > self.e0, self.double(wv, Select(f1, wv), Select(f2, wv)))),
                ("two-writers-of-one-cond-name=>message",
                 ForAll([v, i, j], Implies(self.double(v, i, j), st.errors.n > self.e0)))]


# --------------------------------------------------------------------------
def no_dangling(p):
    i = z3.Int("ind")
    d = z3.Const("dnd", Id)
    return ForAll([i, d], Implies(rng(p, i), Not(dangling(p, i, d))))


class VerifyCodeContract(DagContract):
    """verify_code returns normally iff the method is well-formed; otherwise it raises
    CodeGenerationError carrying at least one message.  Callees enter through their
    (separately proved) contracts only."""
    qualname = "verify_code"
    exc_hierarchy = {"CodeGenerationError": ["Exception"]}
    call_modifies = {"verify_no_circular_dependencies": ["errors"],
                     "verify_single_definition_cond_rule": ["errors"]}

    def params(self, ctx):
        code_ty = TObj("DAGCode", {})
        ctx.env["code"] = VObj(code_ty, {"phases": ctx.alloc(VDict(PHASES_TY, PD, PVAL))})

    def requires(self, st):
        return dag_axioms()

    def type_of_literal(self, node):
        return MSG_LIST

    # ---- callee models = their proved contracts --------------------------------
    def _errors(self, ctx):
        ref = ctx.env["errors"]
        return ref, ctx.deref(ref)

    def _grow(self, ctx):
        ref, e = self._errors(ctx)
        n2 = z3.Int(fresh_name("errors_n"))
        ctx.assume(n2 >= e.n)
        ctx.store(ref, VList(MSG_LIST, n2, z3.Const(fresh_name("errors_a"), MSG_LIST.asort)))
        return e.n, n2

    def m_deps_exist(self, ctx, it, args, kw):
        n, n2 = self._grow(ctx)
        wp = z3.Const(fresh_name("wp"), Phase)
        wi = z3.Int(fresh_name("wi"))
        wd = z3.Const(fresh_name("wd"), Id)
        p = z3.Const("p", Phase)
        i = z3.Int("i")
        d = z3.Const("d", Id)
        ctx.assume(Implies(n2 > n, And(Select(PV, wp), rng(wp, wi), dangling(wp, wi, wd))))
        ctx.assume(ForAll([p], Implies(And(Select(PV, p), Not(no_dangling(p))), n2 > n)))
        return NONE

    def m_switch(self, ctx, it, args, kw):
        n, n2 = self._grow(ctx)
        wp = z3.Const(fresh_name("wp"), Phase)
        wi = z3.Int(fresh_name("wi"))
        p = z3.Const("p", Phase)
        i = z3.Int("i")
        ctx.assume(Implies(n2 > n, And(Select(PV, wp), rng(wp, wi), bad_switch(wp, wi))))
        ctx.assume(ForAll([p, i], Implies(And(Select(PV, p), rng(p, i), bad_switch(p, i)), n2 > n)))
        return NONE

    def m_cond(self, ctx, it, args, kw):
        ph = ctx.deref(ctx.env["phase"]).t
        n, n2 = self._grow(ctx)
        wv = z3.Const(fresh_name("wv"), VarName)
        wi, wj = z3.Int(fresh_name("wi")), z3.Int(fresh_name("wj"))
        v = z3.Const("v", VarName)
        i, j = qv("i", "j")
        ctx.assume(Implies(n2 > n, And(rng(ph, wi), rng(ph, wj), double_cond(ph, wi, wj, wv))))
        ctx.assume(ForAll([v, i, j], Implies(And(rng(ph, i), rng(ph, j), double_cond(ph, i, j, v)), n2 > n)))
        return NONE

    def m_cycle(self, ctx, it, args, kw):
        ph = ctx.deref(ctx.env["phase"]).t
        if ctx.choose(2, "cycle-outcome") == 0:
            # frame contract: only KeyError, and (soundness/completeness contracts) only if some
            # dependency names no statement of the phase
            wi = z3.Int(fresh_name("wi"))
            wd = z3.Const(fresh_name("wd"), Id)
            ctx.assume(And(rng(ph, wi), dangling(ph, wi, wd)))
            self._grow(ctx)
            ctx.raise_("KeyError")
        n, n2 = self._grow(ctx)
        ctx.assume(Or(n2 == n, n2 == n + 1) if False else n2 >= n)
        # soundness contract, instantiated with the height function H of WF_hyp
        ctx.assume(Implies(And(closed_with(ph, IXH), height_with(ph, H)), n2 == n))
        # completeness contract: its ghost finishing order is FIN(ph, .)
        ctx.assume(Implies(And(no_dangling(ph), n2 == n), height_with(ph, FIN)))
        return NONE

    @property
    def calls(self):
        c = dict(super().calls)
        c.update({"verify_all_dependencies_exist": self.m_deps_exist,
                  "verify_no_circular_dependencies": self.m_cycle,
                  "verify_switch_phases": self.m_switch,
                  "verify_single_definition_cond_rule": self.m_cond})
        return c

    names = dict(DagContract.names)
    names["CodeGenerationError"] = VClass(
        "CodeGenerationError",
        lambda ctx, it, args, kw: VExc("CodeGenerationError", args, {"errors": args[0]}))

    # ---- loop invariants ---------------------------------------------------------
    def inv0(self, s):
        p = z3.Const("p", Phase)
        proc = s.loop(0)["$proc"].t
        return [("errors-grow", s.errors.n >= s.entry.errors.n),
                ("well-formed=>no-new-message", Implies(WF_hyp(), s.errors.n == s.entry.errors.n)),
                ("no-message=>processed-phases-acyclic",
                 Implies(s.errors.n == 0, ForAll([p], Implies(Select(proc, p), height_with(p, FIN)))))]

    def inv1(self, s):
        p = z3.Const("p", Phase)
        i, j = qv("i", "j")
        v = z3.Const("v", VarName)
        proc = s.loop(1)["$proc"].t
        return [("errors-grow", s.errors.n >= s.entry.errors.n),
                ("well-formed=>no-new-message", Implies(WF_hyp(), s.errors.n == s.entry.errors.n)),
                ("no-message=>processed-phases-single-definition",
                 Implies(s.errors.n == 0,
                         ForAll([p, i, j, v], Implies(And(Select(proc, p), rng(p, i), rng(p, j)),
                                                      Not(double_cond(p, i, j, v))))))]

    @property
    def loops(self):
        return {0: dict(shape="for phase in code.phases.values()", inv=self.inv0),
                1: dict(shape="for phase in code.phases.values()", inv=self.inv1)}

    def ensures(self, st):
        return [("accepted=>" + n, f) for n, f in WF_concl_parts()]

    @property
    def raises(self):
        def cge(st):
            errs = st._deref(st.exc.payload["errors"])
            return [("carries-at-least-one-message", errs.n > 0),
                    ("rejected=>not-well-formed", Not(WF_hyp()))]
        return {"CodeGenerationError": cge}


def units():
    from pyvc.contracts import LeanUnit
    return [FunctionUnit(CycleFrame()), FunctionUnit(CycleSound()), FunctionUnit(CycleComplete()),
            FunctionUnit(CycleTerminates()),
            LeanUnit("lemma:L-CARD", "lemmas/LCard.lean", ["card_nonneg'", "card_insert_new", "card_subset_le"]),
            FunctionUnit(SwitchContract()), FunctionUnit(DepsExistContract()), FunctionUnit(CondRuleContract()),
            FunctionUnit(VerifyCodeContract())] \
        + __import__("contracts.stmtinit", fromlist=["units"]).units("C10")   # the edges the verifier sees are the ones a statement was given


LEVEL = "proof"
BOUNDED = {"quick": {"timeout_s": 60}, "thorough": {"timeout_s": 600}}
TRUSTED_BASE = [
    __import__("contracts.stmtinit", fromlist=["TRUSTED"]).TRUSTED,
    "callee models used in verify_code are transcriptions of the callees' separately proved contracts (same spec predicates in contracts/c10.py)",
    "isinstance / attribute access on statements follow the class family read from dagrt/language.py (SwitchPhase.next_phase, .id, .depends_on, get_written_variables())",
]
ASSUMPTIONS = [
    "input validity: statement ids are unique within a phase; phase.statements is a finite list; phases is a dict of distinct names",
    "ExecutionPhase.depends_on (a computed property) is a subset of the phase's statement ids (its own contract, C04)",
    "termination of the cycle detector ('never hangs'): proved with the lexicographic variant (ids not yet visited, stack length); the three "
    "cardinality facts used are L-CARD (lemmas/LCard.lean, checked by Lean against Mathlib's Finset.card) entering as quantified axioms over `card`; "
    "the for loops of the other passes iterate over finite collections (terminate by construction); expected_min: the empty postcondition makes "
    "this unit's content its variant obligations",
    "str.format / join / str() on messages do not raise (message text is opaque)",
    "set iteration order arbitrary but fixed; dict iteration = arbitrary order over keys (over-approximation of insertion order)",
]
EXPLANATION = ("The four verifier passes and verify_code are executed symbolically from analysis.py. Each pass is proved to add a "
               "message iff its defect exists (witness ghosts for =>, universally quantified invariants for <=); the cycle detector is "
               "proved sound (under an arbitrary height function the error branch is unreachable) and complete (the ghost finishing "
               "order is a height function when no message is added); verify_code, using only those contracts, returns normally iff "
               "well-formed and otherwise raises CodeGenerationError with >= 1 message; a KeyError escaping is proved unreachable.")
