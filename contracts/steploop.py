"""The step protocol shared by the interpreter and the emitted Python class (C01, C11).

One contract `StepLoop` for NumpyInterpreter.run and for the `run` template emitted by
codegen/python.py:_emit_run; one contract for the two run_single_step implementations.
The phase body is an arbitrary generator: it yields any number of events, may change t, dt and
the persistent state at every resumption, and ends by returning, by raising FailStep, by raising
a transition to some phase, or by raising any other exception.
"""
import ast as pyast
import z3
from z3 import And, Or, Not, Implies, ForAll, Select, Store, If, IntSort, BoolSort

from pyvc.values import *  # noqa
from pyvc.contracts import FunctionContract, FunctionUnit, LemmaUnit
from .dagspec import PName, PNAME

Val = z3.DeclareSort("Val")           # values of t / dt
BodyEv = z3.DeclareSort("BodyEv")     # an event yielded by a phase body
Ev = z3.Datatype("Ev")
Ev.declare("Body", ("be", BodyEv))
Ev.declare("StepFailed", ("sf_t", Val))
Ev.declare("StepCompleted", ("sc_dt", Val), ("sc_t", Val), ("sc_cur", PName), ("sc_next", PName))
Ev = Ev.create()

VAL = TElem("Val", Val)
EV = TElem("Ev", Ev)
reached = z3.Function("t_reached_t_end", Val, Val, BoolSort())     # t >= t_end
succ = z3.Function("default_successor", PName, PName)               # phase.next_phase


class StepGen(V):
    """self.run_single_step(): the generator of one step"""
    ty = None

    def __init__(self, c):
        self.c = c

    def for_loop(self, it, s, k, spec, ex):
        c, ctx = self.c, it.ctx
        m = z3.Int(fresh_name("n_body_events"))
        GE = z3.Function(fresh_name("body_event"), IntSort(), BodyEv)
        ctx.assume(m >= 0)
        ctx.ghost["m"] = m
        ctx.ghost["GE"] = GE
        ctx.ghost["log0_n"], ctx.ghost["log0_a"] = ctx.ghost["log_n"], ctx.ghost["log_a"]   # at step start
        ctx.ghost["cur0"] = c.get_next_phase(ctx)
        ex["$j"] = VInt(0)
        # run_single_step first moves next_phase to the default successor of the current phase
        c.set_next_phase(ctx, succ(ctx.ghost["cur0"]))

        def guard_fn():
            j = ex["$j"].t
            ctx.assume(And(0 <= j, j <= m))
            # every resumption may change t, dt (and the state)
            c.havoc_time(ctx, it)
            if ctx.branch(j < m, "generator-yields"):
                return True
            # the generator ends: normally, by FailStep, by a transition, or by another exception
            how = ctx.choose(4, "step-outcome")
            ctx.ghost["outcome"] = z3.IntVal(how)
            if how == 1:
                ctx.raise_("FailStepException")
            if how == 2:
                p = z3.Const(fresh_name("switch_to"), PName)
                ctx.ghost["switch_to"] = p
                raise_transition(ctx, p)
            if how == 3:
                ctx.raise_("UserException")
            return False

        def prologue():
            it.assign(s.target, EV.wrap(Ev.Body(GE(ex["$j"].t))))

        def epilogue():
            ex["$j"] = VInt(z3.simplify(ex["$j"].t + 1))

        it.run_cut_loop(s, k, spec, guard_fn, prologue, epilogue, lambda: None)


def raise_transition(ctx, p):
    from pyvc.engine import RaiseSig
    raise RaiseSig(VExc("TransitionEvent", [], {"next_phase": PNAME.wrap(p)}))


class StepLoop(FunctionContract):
    prop = "C01"
    exc_hierarchy = {"FailStepException": ["Exception"], "TransitionEvent": ["Exception"], "UserException": ["Exception"]}
    arbitrary_exception_classes = ("UserException",)      # of any class but the stepper's own signals
    prune_quantified = False
    kind = None     # "interpreter" | "generated"

    def __init__(self, kind):
        self.kind = kind
        if kind == "interpreter":
            self.relpath, self.qualname = "dagrt/exec_numpy.py", "NumpyInterpreter.run"
        else:
            self.relpath, self.qualname = "dagrt/codegen/python.py", "CodeGenerator._emit_run"
            self.template_marker = "n_steps = 0"
        self.t_end = z3.Const("t_end", Val)
        self.has_t_end = z3.Bool("t_end_given")
        self.max_steps = z3.Int("max_steps")
        self.has_max = z3.Bool("max_steps_given")

    # ---- the stepper object ------------------------------------------------------------------
    def params(self, ctx):
        ctx.ghost["T"] = z3.Const("t0", Val)
        ctx.ghost["DT"] = z3.Const("dt0", Val)
        ctx.ghost["NP"] = z3.Const("next_phase0", PName)
        ctx.env["self"] = VStepper(self)
        ctx.env["t_end"] = VOptional(self.has_t_end, VAL.wrap(self.t_end))
        ctx.env["max_steps"] = VOptional(self.has_max, VInt(self.max_steps))

    def ghosts(self, ctx):
        ctx.ghost["log_n"] = z3.IntVal(0)
        ctx.ghost["log_a"] = z3.Const("log_a0", z3.ArraySort(IntSort(), Ev))
        ctx.ghost["completed"] = z3.IntVal(0)
        ctx.ghost["outcome"] = z3.IntVal(-1)
        ctx.ghost["switch_to"] = z3.Const("no_switch", PName)
        # per-step ghosts: defined at the start of every step (StepGen.for_loop), arbitrary before
        ctx.ghost["m"] = z3.Int("m_before_first_step")
        ctx.ghost["GE"] = z3.Function("GE_before_first_step", IntSort(), BodyEv)
        ctx.ghost["log0_n"] = z3.Int("log0_n_before_first_step")
        ctx.ghost["log0_a"] = z3.Const("log0_a_before_first_step", z3.ArraySort(IntSort(), Ev))
        ctx.ghost["cur0"] = z3.Const("cur0_before_first_step", PName)

    def get_next_phase(self, ctx):
        return ctx.ghost["NP"]

    def set_next_phase(self, ctx, p):
        ctx.ghost["NP"] = p

    def havoc_time(self, ctx, it):
        ctx.ghost["T"] = z3.Const(fresh_name("t"), Val)
        ctx.ghost["DT"] = z3.Const(fresh_name("dt"), Val)

    def on_yield(self, ctx, it, v):
        v = ctx.deref(v)
        n, a = ctx.ghost["log_n"], ctx.ghost["log_a"]
        ctx.ghost["log_n"], ctx.ghost["log_a"] = n + 1, Store(a, n, v.t)

    def compare_hook(self, ctx, it, op, a, b):
        if isinstance(b, VOptional):
            b = b.value
            if isinstance(a, VInt) and isinstance(b, VInt) and isinstance(op, pyast.GtE):
                return a.t >= b.t
        if isinstance(op, pyast.GtE) and isinstance(a, VElem) and a.ty is VAL and isinstance(b, VElem) and b.ty is VAL:
            return reached(a.t, b.t)
        return None

    def m_step_failed(self, ctx, it, args, kw):
        return EV.wrap(Ev.StepFailed(ctx.deref(kw["t"]).t))

    def m_step_completed(self, ctx, it, args, kw):
        cur = kw.get("current_state", kw.get("current_phase"))
        return EV.wrap(Ev.StepCompleted(ctx.deref(kw["dt"]).t, ctx.deref(kw["t"]).t, ctx.deref(cur).t,
                                        ctx.deref(kw["next_phase"]).t))

    names = property(lambda self: {
        "StepFailed": VFunc("StepFailed", self.m_step_failed),
        "StepCompleted": VFunc("StepCompleted", self.m_step_completed),
        "FailStepException": VClass("FailStepException"), "TransitionEvent": VClass("TransitionEvent"),
    })

    def havoc_var(self, ctx, it, name, v):
        return None

    # ---- invariants -------------------------------------------------------------------------------
    def inv_while(self, s):
        return [("n_steps-counts-the-completed-steps", s.n_steps.t == s.g("completed")),
                ("log-length", s.g("log_n") >= 0)]

    def inv_for(self, s):
        j = s.loop(1)["$j"].t
        n, a = s.g("log_n"), s.g("log_a")
        n0, a0 = s.g("log0_n"), s.g("log0_a")
        k = z3.Int("k")
        GE = s.g("GE")
        return [("n_steps-unchanged-during-the-step", s.n_steps.t == s.g("completed")),
                ("events-of-the-body-so-far-are-forwarded-in-order",
                 And(n == n0 + j, ForAll([k], Implies(And(0 <= k, k < j), Select(a, n0 + k) == Ev.Body(GE(k)))),
                     ForAll([k], Implies(And(0 <= k, k < n0), Select(a, k) == Select(a0, k))))),
                ("step-bookkeeping", And(s.cur_state.t == s.g("cur0") if s.has("cur_state") else s.cur_phase.t == s.g("cur0")))]

    def end_of_iteration(self, ctx, it):
        """checked where an iteration of `while True` ends (after StepFailed / after n_steps += 1)"""

    loops = property(lambda self: {
        0: dict(shape="while True", inv=self.inv_while,
                havoc_ghosts=["log_n", "log_a", "completed", "T", "DT", "NP", "outcome", "switch_to",
                              "m", "GE", "log0_n", "log0_a", "cur0"]),
        1: dict(shape="for evt in self.run_single_step()", inv=self.inv_for, havoc_ghosts=["log_n", "log_a"]),
    })

    def iteration_post(self, ctx, it, entry):
        pass

    @property
    def ghost_updates(self):
        def after_failed(ctx, it):
            self.check_step(ctx, it, failed=True)

        def after_count(ctx, it):
            ctx.ghost["completed"] = ctx.ghost["completed"] + 1
            self.check_step(ctx, it, failed=False)
        return {"re:^yield (self\\.)?StepFailed\\(": after_failed, "n_steps += 1": after_count}

    def check_step(self, ctx, it, failed):
        n, a = ctx.ghost["log_n"], ctx.ghost["log_a"]
        n0, a0 = ctx.ghost["log0_n"], ctx.ghost["log0_a"]
        m, GE = ctx.ghost["m"], ctx.ghost["GE"]
        k = z3.Int("k")
        O = lambda name, g: ctx.oblige(it.oname("step/" + name), g)  # noqa
        O("every-body-event-forwarded-then-one-step-event",
          And(n == n0 + m + 1, ForAll([k], Implies(And(0 <= k, k < m), Select(a, n0 + k) == Ev.Body(GE(k)))),
              ForAll([k], Implies(And(0 <= k, k < n0), Select(a, k) == Select(a0, k)))))
        last = Select(a, n0 + m)
        T, DT, NP, cur0 = ctx.ghost["T"], ctx.ghost["DT"], ctx.ghost["NP"], ctx.ghost["cur0"]
        if failed:
            O("failed-step-reports-StepFailed-with-the-current-time", last == Ev.StepFailed(T))
            O("failed-step-was-a-FailStep", ctx.ghost["outcome"] == 1)
            O("next-phase-after-a-failed-step-is-the-default-successor", NP == succ(cur0))
        else:
            switched = ctx.ghost["outcome"] == 2
            want_next = If(switched, ctx.ghost["switch_to"], succ(cur0))
            O("completed-step-reports-dt-t-current-and-next-phase", last == Ev.StepCompleted(DT, T, cur0, want_next))
            O("stepper-continues-in-the-reported-next-phase", NP == want_next)
            O("completed-step-was-not-a-failure", Or(ctx.ghost["outcome"] == 0, ctx.ghost["outcome"] == 2))

    def ensures(self, st):
        # `run` returns only at a step boundary where a bound is reached
        T = st.g("T")
        return [("stops-only-when-a-bound-is-reached",
                 Or(And(self.has_t_end, reached(T, self.t_end)),
                    And(self.has_max, st.n_steps.t >= self.max_steps))),
                ("n_steps-counts-the-completed-steps", st.n_steps.t == st.g("completed"))]

    @property
    def raises(self):
        # any other exception of the body propagates unchanged (with the body events seen so far forwarded)
        def user(st):
            n, a = st.g("log_n"), st.g("log_a")
            n0, a0 = st.g("log0_n"), st.g("log0_a")
            m, GE = st.g("m"), st.g("GE")
            k = z3.Int("k")
            return [("events-before-the-exception-were-forwarded",
                     And(n == n0 + m, ForAll([k], Implies(And(0 <= k, k < m), Select(a, n0 + k) == Ev.Body(GE(k))))))]
        return {"UserException": user}


class VOptional(V):
    """an argument that is None or a value"""
    ty = None

    def __init__(self, present, value):
        self.present, self.value = present, value

    def is_none(self):
        return Not(self.present)


class VStepper(V):
    """`self` of either stepper: .t / .dt / .next_phase / .context['<t>'] read the ghost state"""
    ty = None

    def __init__(self, c):
        self.c = c


def stepper_getattr(c):
    def hook(ctx, it, obj, name):
        o = ctx.deref(obj)
        if isinstance(o, VOptional):
            return None
        if not isinstance(o, VStepper):
            return None
        if name == "t":
            return VAL.wrap(ctx.ghost["T"])
        if name == "dt":
            return VAL.wrap(ctx.ghost["DT"])
        if name == "next_phase":
            return PNAME.wrap(ctx.ghost["NP"])
        if name == "context":
            return VCtxTime()
        if name == "run_single_step":
            return VFunc("run_single_step", lambda ctx, it, a, k: StepGen(c))
        if name in ("StepFailed", "StepCompleted", "FailStepException", "TransitionEvent"):
            return c.names[name]
        return None
    return hook


class VCtxTime(V):
    ty = None

    def getitem(self, it, idx, node):
        k = it.ctx.deref(idx)
        if isinstance(k, VPy) and k.py == "<t>":
            return VAL.wrap(it.ctx.ghost["T"])
        if isinstance(k, VPy) and k.py == "<dt>":
            return VAL.wrap(it.ctx.ghost["DT"])
        raise Unsupported("context[%r]" % (k,))


StepLoop.getattr_hook = lambda self, ctx, it, obj, name: stepper_getattr(self)(ctx, it, obj, name)


def _setattr(self, ctx, it, obj, name, v):
    if isinstance(ctx.deref(obj), VStepper) and name == "next_phase":
        ctx.ghost["NP"] = ctx.deref(v).t
        return True
    return False


StepLoop.setattr_hook = _setattr


def _assign_next_phase(self, ctx, it, tgt, v):
    pass


# ==========================================================================
# run_single_step
# ==========================================================================
from .dagspec import VarName, VARNAME   # noqa: E402

starts_state = z3.Function("startswith_<state>", VarName, BoolSort())
starts_p = z3.Function("startswith_<p>", VarName, BoolSort())
T_NAME = z3.Const("name_<t>", VarName)
DT_NAME = z3.Const("name_<dt>", VarName)
CtxVal = z3.DeclareSort("CtxVal")
CTX = TDict(TElem("VarName", VarName), TElem("CtxVal", CtxVal))


def persistent(n):
    """the interpreter's documented per-step cleanup keeps <state>*, <p>*, <t>, <dt>"""
    return Or(starts_state(n), starts_p(n), n == T_NAME, n == DT_NAME)


def _name_startswith(ctx, it, obj, args, kw):
    p = ctx.deref(args[0])
    n = ctx.deref(obj).t
    if isinstance(p, VPy) and p.py == "<state>":
        return VBool(starts_state(n))
    if isinstance(p, VPy) and p.py == "<p>":
        return VBool(starts_p(n))
    raise Unsupported("startswith(%r)" % (p,))


CNAME = TElem("VarName", VarName, methods={"startswith": _name_startswith})


def _name_const_eq(t, const):
    if isinstance(const, VPy) and const.py == "<t>":
        return t == T_NAME
    if isinstance(const, VPy) and const.py == "<dt>":
        return t == DT_NAME
    return None


CNAME.const_eq = _name_const_eq
CTX = TDict(CNAME, TElem("CtxVal", CtxVal))


class SingleStepInterp(FunctionContract):
    """NumpyInterpreter.run_single_step: protocol order, default successor before the body, and the
    `finally` that discards per-step state on every exit"""
    prop = "C11"
    relpath = "dagrt/exec_numpy.py"
    qualname = "NumpyInterpreter.run_single_step"
    exc_hierarchy = {"BodyException": ["Exception"]}
    arbitrary_exception_classes = ("BodyException",)
    list_literals_as_tuples = True
    prune_quantified = False

    def __init__(self):
        self.np0 = z3.Const("next_phase0", PName)

    def params(self, ctx):
        ctxd = CTX.fresh("context")
        self.ctx0 = ctxd
        ctx.env["self"] = ctx.alloc(VObj(TObj("NumpyInterpreter", {}), {
            "context": ctx.alloc(ctxd),
            "next_phase": PNAME.wrap(self.np0),
            "exec_controller": VObj(TObj("ExecutionController", {}), {}),
        }))

    def ghosts(self, ctx):
        ctx.ghost["calls"] = z3.IntVal(0)      # protocol position: 0 start, 1 after reset, 2 after update_plan, 3 body
        ctx.ghost["np_at_body"] = z3.Const("np_unset", PName)
        ctx.ghost["ctx_after_body_dom"] = None
        ctx.ghost["ctx_after_body_val"] = None

    def m_reset(self, ctx, it, args, kw):
        ctx.oblige(it.oname("protocol/reset-is-the-first-action-of-a-step"), ctx.ghost["calls"] == 0)
        ctx.ghost["calls"] = z3.IntVal(1)
        return NONE

    def m_update_plan(self, ctx, it, args, kw):
        ctx.oblige(it.oname("protocol/plan-is-built-after-reset-from-the-sinks-of-the-current-phase"),
                   And(ctx.ghost["calls"] == 1, _is(ctx, args[0], "phase"), _is(ctx, args[1], "sinks")))
        ctx.ghost["calls"] = z3.IntVal(2)
        return NONE

    def m_controller(self, ctx, it, args, kw):
        ctx.oblige(it.oname("protocol/controller-runs-the-planned-phase-with-the-interpreter-as-target"),
                   And(ctx.ghost["calls"] == 2, _is(ctx, args[0], "phase"), _is(ctx, args[1], "self")))
        ctx.ghost["calls"] = z3.IntVal(3)
        return VPy("<controller generator>")

    def on_yield_from(self, ctx, it, v):
        """the phase body: arbitrary events, arbitrary changes of the context, any exit"""
        selfo = ctx.deref(ctx.env["self"])
        ctx.ghost["np_at_body"] = ctx.deref(selfo.fields["next_phase"]).t
        ref = selfo.fields["context"]
        after = CTX.fresh("context_after_body")
        ctx.store(ref, after)
        ctx.ghost["ctx_after_body_dom"], ctx.ghost["ctx_after_body_val"] = after.dom, after.val
        if ctx.choose(2, "body-raises") == 0:
            ctx.raise_("BodyException")
        return NONE

    def m_phases_lookup(self, ctx, it):
        return VPhases()

    attr_exprs = property(lambda self: {"self.code.phases": lambda ctx, it: VPhases()})
    calls = property(lambda self: {"self.exec_controller.reset": self.m_reset,
                                   "self.exec_controller.update_plan": self.m_update_plan,
                                   "self.exec_controller": self.m_controller})

    def getattr_hook(self, ctx, it, obj, name):
        o = ctx.deref(obj)
        if isinstance(o, VCurPhase):
            if name == "next_phase":
                return PNAME.wrap(succ(o.p))
            if name == "depends_on":
                return VTag("sinks")
        return None

    def inv(self, s):
        i = s.loop(0)["$i"].t
        L = s.loop(0)["$L"]
        C = s.field("self", "context")
        d0, v0 = s.g("ctx_after_body_dom"), s.g("ctx_after_body_val")
        j = z3.Int("j")
        n = z3.Const("n", VarName)
        return [("only-deletions", ForAll([n], Implies(Select(C.dom, n), Select(d0, n)))),
                ("processed-temporaries-are-gone",
                 ForAll([j], Implies(And(0 <= j, j < i, Not(persistent(Select(L.a, j)))), Not(Select(C.dom, Select(L.a, j)))))),
                ("persistent-entries-untouched",
                 ForAll([n], Implies(persistent(n), And(Select(C.dom, n) == Select(d0, n), Select(C.val, n) == Select(v0, n))))),
                ("pending-names-still-present",
                 ForAll([j], Implies(And(i <= j, j < L.n), Select(C.dom, Select(L.a, j))))),
                ("next-phase-unchanged", s.field("self", "next_phase").t == s.g("np_at_body"))]

    loops = property(lambda self: {0: dict(shape="for name in list(self.context.keys())", inv=self.inv)})

    def after_cleanup(self, st):
        C = st.field("self", "context")
        d0, v0 = st.g("ctx_after_body_dom"), st.g("ctx_after_body_val")
        n = z3.Const("n", VarName)
        return [("no-per-step-temporary-is-visible", ForAll([n], Implies(Select(C.dom, n), persistent(n)))),
                ("persistent-variables-hold-what-the-step-left-in-them",
                 ForAll([n], Implies(persistent(n), And(Select(C.dom, n) == Select(d0, n),
                                                        Implies(Select(d0, n), Select(C.val, n) == Select(v0, n)))))),
                ("next-phase-was-moved-to-the-default-successor-before-the-body",
                 st.g("np_at_body") == succ(self.np0)),
                ("the-body-ran", st.g("calls") == 3)]

    def ensures(self, st):
        return self.after_cleanup(st)

    @property
    def raises(self):
        # an exception of the body reaches the caller unchanged, after the same cleanup
        return {"BodyException": self.after_cleanup}


class VTag(V):
    ty = None

    def __init__(self, tag):
        self.tag = tag


class VCurPhase(V):
    ty = None

    def __init__(self, p):
        self.p = p
        self.tag = "phase"


class VPhases(V):
    ty = None

    def getitem(self, it, idx, node):
        return VCurPhase(it.ctx.deref(idx).t)


def _is(ctx, v, tag):
    v = ctx.deref(v)
    if tag == "self":
        return z3.BoolVal(isinstance(v, VObj) and v.ty.name == "NumpyInterpreter")
    return z3.BoolVal(getattr(v, "tag", None) == tag)


class SingleStepGenerated(FunctionContract):
    """the emitted run_single_step: next_phase := table[next_phase][0], events of the phase function
    forwarded, nothing caught"""
    prop = "C01"
    relpath = "dagrt/codegen/python.py"
    qualname = "CodeGenerator._emit_run_single_step"
    template_marker = "phase_transition_table"
    exc_hierarchy = {"BodyException": ["Exception"]}
    arbitrary_exception_classes = ("BodyException",)

    def __init__(self):
        self.np0 = z3.Const("next_phase0", PName)

    def params(self, ctx):
        ctx.env["self"] = ctx.alloc(VObj(TObj("Stepper", {}), {
            "next_phase": PNAME.wrap(self.np0), "phase_transition_table": VTable()}))

    def ghosts(self, ctx):
        ctx.ghost["forwarded"] = z3.IntVal(0)
        ctx.ghost["m"] = z3.Int("n_body_events")
        ctx.ghost["phase_run"] = z3.Const("no_phase", PName)

    def on_yield(self, ctx, it, v):
        j = ctx.loop_extra[0]["$j"].t
        ctx.oblige(it.oname("forwards-the-event-the-phase-function-just-yielded"), ctx.deref(v).t == j)
        ctx.ghost["forwarded"] = ctx.ghost["forwarded"] + 1

    loops = property(lambda self: {0: dict(shape="for evt in phase_func()", havoc_ghosts=["forwarded"],
                                           inv=lambda s: [("forwarded-so-far", s.g("forwarded") == s.loop(0)["$j"].t)])})

    def post(self, st):
        return [("next-phase-is-the-default-successor-of-the-phase-that-ran",
                 And(st.field("self", "next_phase").t == succ(self.np0), st.g("phase_run") == self.np0)),
                ("every-event-forwarded", st.g("forwarded") == st.g("m"))]

    def ensures(self, st):
        return self.post(st)

    raises = property(lambda self: {"BodyException": self.post})


class VTable(V):
    """phase_transition_table[name] == (phase.next_phase, self.phase_<name>)  (built by _emit_constructor)"""
    ty = None

    def getitem(self, it, idx, node):
        p = it.ctx.deref(idx).t

        def phase_func(ctx, it2, a, k):
            ctx.ghost["phase_run"] = p
            return VPhaseGen()
        return VTuple([PNAME.wrap(succ(p)), VFunc("phase_func", phase_func)])


class VPhaseGen(V):
    ty = None

    def for_loop(self, it, s, k, spec, ex):
        ctx = it.ctx
        m = ctx.ghost["m"]
        ctx.assume(m >= 0)
        ex["$j"] = VInt(0)

        def guard_fn():
            j = ex["$j"].t
            ctx.assume(And(0 <= j, j <= m))
            if ctx.branch(j < m, "phase-yields"):
                return True
            if ctx.choose(2, "phase-raises") == 0:
                ctx.raise_("BodyException")
            return False

        it.run_cut_loop(s, k, spec, guard_fn, lambda: it.assign(s.target, VInt(ex["$j"].t)),
                        lambda: ex.__setitem__("$j", VInt(z3.simplify(ex["$j"].t + 1))), lambda: None)


def persistence_lemma():
    """the generated class keeps what is_state_variable says; the interpreter keeps <state>*, <p>*, <t>, <dt>.
    Probe for known finding D22: the two predicates differ on <ret_state>/<ret_time>/<ret_time_id> names."""
    v = z3.String("v")
    P = lambda p: z3.PrefixOf(z3.StringVal(p), v)  # noqa
    interp = Or(P("<state>"), P("<p>"), v == z3.StringVal("<t>"), v == z3.StringVal("<dt>"))
    gen = Or(v == z3.StringVal("<t>"), v == z3.StringVal("<dt>"), P("<state>"), P("<p>"),
             P("<ret_time_id>"), P("<ret_time>"), P("<ret_state>"))
    return [], [("interpreter-persistent=>generated-persistent", [interp], gen),
                ("probe[D22]/generated-persistent=>interpreter-persistent", [gen], interp)]


def units_steploop():
    return [FunctionUnit(StepLoop("interpreter")), FunctionUnit(StepLoop("generated")),
            FunctionUnit(SingleStepGenerated())]


def units_single_step():
    return [FunctionUnit(SingleStepInterp()), LemmaUnit("lemma:persistence-predicates", persistence_lemma)]
