"""C11 — a failing user function leaves the stepper consistent and resumable."""
import z3
from pyvc.contracts import FunctionUnit
from .steploop import units_single_step, StepLoop, SingleStepGenerated

PROP = "C11"


def units():
    # 'stepping on behaves like a fresh stepper' rests on reset() (first action of every step) emptying the
    # controller: ExecutionController.reset is a function this property depends on
    from .c04 import ResetContract
    from pyvc.contracts import FilteredUnit

    def mine(n):
        # when next_phase is moved to the default successor (before or after the body) is C01's subject: each stepper is
        # self-consistent either way; where reset() stands in the step is C04's: C11 needs the controller emptied before
        # the next step's plan is built, which ResetContract + the bounded stand-in carry
        return not ("next-phase" in n or "next_phase" in n or "reset-is-the-first-action" in n or "plan-is-built-after-reset" in n
                    or "the-body-ran" in n)
    us = units_single_step() + [FunctionUnit(ResetContract()), FunctionUnit(StepLoop("interpreter")), FunctionUnit(StepLoop("generated")),
                                FunctionUnit(SingleStepGenerated())]
    def mine_run(n):
        # of the step loop (run): that a user exception leaves run() with the events so far forwarded; what a completed or
        # failed step reports and when run() stops are C01's subject
        # ... except that a step is reported as failed only for a FailStep: a user function's exception is never swallowed
        return mine(n) and ("/step/" not in n or "failed-step-was-a-FailStep" in n) and "post[return]/" not in n
    us += exec_frame_units()
    us += propagation_units()
    out = []
    for u in us:
        if isinstance(u, FunctionUnit):
            is_run = isinstance(getattr(u, "contract", None), StepLoop)
            out.append(FilteredUnit(u, mine_run if is_run else mine))
        else:
            out.append(u)
    return out


def propagation_units():
    """a failure while a statement's guard or a statement is evaluated is the caller's to see: evaluate_condition / exec_Assign /
    exec_AssignFunctionCall / exec_YieldState never return normally after the evaluator (which runs the user's functions) has
    raised, and the exception that leaves them is that exception.  The evaluator's exception is of an arbitrary class, so a
    handler `except TypeError` may or may not catch it (both are explored).  Reuses C08's models of the interpreter's methods
    (what they read and write is C08's subject and not checked here)."""
    from . import c08

    def make(base, *a):
        class Propagates(base):
            prop = "C11"
            variant_name = "failure-propagates"
            exc_hierarchy = {"EvaluatorFailure": ["Exception"]}
            arbitrary_exception_classes = ("EvaluatorFailure",)
            any_raise_ok = False

            def ghosts(self, ctx):
                super().ghosts(ctx)
                ctx.ghost["evaluator_raised"] = z3.BoolVal(False)

            def m_eval(self, ctx, it, args, kw):
                if ctx.choose(2, "evaluator-raises") == 0:
                    ctx.ghost["evaluator_raised"] = z3.BoolVal(True)
                    ctx.raise_("EvaluatorFailure")
                old = ctx.choose
                # the base model decides for itself whether the evaluation raises: here it does not (decided above)
                ctx.choose = lambda n, what, _o=old: (1 if what == "eval-raises" else _o(n, what))
                try:
                    return super().m_eval(ctx, it, args, kw)
                finally:
                    ctx.choose = old

            calls = property(lambda self: dict(super(Propagates, self).calls, **{"self.eval_mapper": self.m_eval}))

            def ensures(self, st):
                return [("no-normal-return-after-the-evaluator-raised(a-user-function's-failure-is-never-swallowed)",
                         z3.Not(st.g("evaluator_raised")))]

            @property
            def raises(self):
                same = lambda st: [("only-after-the-evaluator-raised", st.g("evaluator_raised"))]   # noqa: E731
                return {"EvaluatorFailure": same}
        return Propagates(*a)
    # exec_Assign: nothing but what an expression evaluation raises leaves it (no KeyError from tidying up loop counters that
    # were never bound): the exception the caller sees is the user function's
    return [FunctionUnit(make(c08.ExecCondition)), FunctionUnit(c08.ExecAssignNoSpuriousException())]


def exec_frame_units():
    """'no per-step temporary is visible afterwards' is shown for the context (run_single_step's clean-up); that is all the
    per-step state there is only if executing a statement keeps none elsewhere: every exec_* method and evaluate_condition
    neither mutates nor rebinds the interpreter's evaluation machinery (frame conditions, pyvc.frame; enumerated from the
    class on every run)"""
    import ast
    from pyvc import extract
    from pyvc.contracts import FrameUnit
    rel = "dagrt/exec_numpy.py"
    tree, _ = extract.parse_module(rel)
    cls = [n for n in tree.body if isinstance(n, ast.ClassDef) and n.name == "NumpyInterpreter"]
    out = []
    for m in (cls[0].body if cls else []):
        if isinstance(m, ast.FunctionDef) and (m.name.startswith("exec_") or m.name == "evaluate_condition"):
            out.append(FrameUnit(rel, "NumpyInterpreter." + m.name, set(),
                                 "the-interpreter's-evaluation-machinery(eval_mapper,-functions,-exec_controller,-code)",
                                 field_roots={"eval_mapper", "functions", "exec_controller", "code"}))
    return out


LEVEL = "proof"
BOUNDED = {"quick": {"timeout_s": 90}, "thorough": {"timeout_s": 900}}
TRUSTED_BASE = [
    "A-EMIT (not re-checked by this check): emitted phase functions keep per-step variables in Python locals and store persistent ones in self.*: that every emitted statement refers to a variable through the name manager's name is what C01's translation validation of the templates shows (contracts/c01emit.py), and the storage class of each name (self.* exactly for persistent names) is proved under C13",
    "template extraction as in C01",
    "C08 (only exec_Assign / exec_AssignFunctionCall write the context, the latter only after the call returned) and C04 (a dependent is never run before its dependency was visited) carry the clauses 'old value or a value the program assigns' and 'unchanged if every write depends on the failed call'",
]
ASSUMPTIONS = [
    "the user exception is neither FailStepException nor TransitionEvent (those are the stepper's own signals), nor StopIteration (PEP 479 turns it into RuntimeError inside any generator: finding D32 of the bounded stand-in)",
    "persistent names = <state>*, <p>*, <t>, <dt> for the interpreter (its documented cleanup); the generated class uses is_state_variable: the difference is finding D22 (probe in lemma persistence-predicates)",
    "resumability: a step starts with reset() (protocol obligation) and reads nothing but next_phase, the context and the code, so its behaviour is a function of (persistent state, phase)",
]
EXPLANATION = ("NumpyInterpreter.run_single_step is executed symbolically with an arbitrary phase body: on every exit, normal or exceptional, "
               "the deletion loop of its `finally` is proved to leave only persistent keys in the context, to leave every persistent entry "
               "exactly as the body left it, and the exception to propagate unchanged; reset -> update_plan(sinks) -> controller is proved to "
               "be the protocol order with next_phase already moved to the default successor. Both `run` implementations are proved to catch "
               "only FailStep and Transition signals, so a user exception reaches the caller after the body events seen so far were forwarded; "
               "the emitted run_single_step catches nothing.")
