"""Native oracle for C05 (runs the real dagrt.codegen.dag_ast.create_ast_from_phase and the generic walker
StructuredCodeGenerator.lower_ast).

Input format (JSON-able, self-contained):

    {"stmts": [S, ...],                          # one phase, in its base storage order
     "orders": [[perm of range(len(stmts))], ...]   # optional: the storage orders to compare (default: derived)
    }
    S     ::= {"id": str, "kind": K, "deps": [id, ...], "guard": G, "loops": [[var, lb, ub], ...]}
    K     ::= "assign" | "nop" | "call" | "yield" | "switch" | "fail" | "flag:<name>"
              ("flag:c1" is an Assign writing the flag variable <cond>c1; "loops" only on "assign";
               a "nop" has neither guard nor loops)
    G     ::= null (True) | false | "c1" (the flag <cond>c1) | ["!", G] | ["<", name, int] (an opaque comparison)
    bound ::= int | variable name

Domain (checked independently, anything else is skipped / {"error": ...}): ids unique, every dependency names a
statement of the phase, the dependency graph is acyclic.

Oracle = the property statement: with T = create_ast_from_phase(code, phase_name) and my own trace function over
T, under EVERY valuation of the guard atoms (flags and opaque comparisons; `not` is interpreted)
  executed-set    exactly the non-Nop statements whose guard holds are executed, each exactly once, and the leaf
                  is that statement (same class, same payload);
  loops           each executed statement sits inside exactly its declared loops (identifier, bounds; outermost first);
  order           if a is a (transitive) dependency of b and both are executed, a is executed before b;
  storage-order   T is identical (structurally, incl. every statement's text) for every storage order of
                  phase.statements and for differently built depends_on sets;
  walker          the emit_* calls made by the real StructuredCodeGenerator.lower_ast(T), interpreted under the
                  valuation, execute the same sequence as the trace of T;
  no-exception    none of this raises.
"""
import collections
import itertools
import json
import random

from pymbolic import var
from pymbolic.primitives import Comparison, LogicalNot, LogicalAnd, LogicalOr

from dagrt import language as lang
from dagrt.codegen import dag_ast as A
from dagrt.codegen.codegen_base import StructuredCodeGenerator

PHASE = "main"


# ---- JSON -> real objects ----------------------------------------------------------------------

def build_guard(g):
    if g is None:
        return True
    if g is False or g is True:
        return g
    if isinstance(g, str):
        return var("<cond>" + g)
    if g[0] == "!":
        return LogicalNot(build_guard(g[1]))
    if g[0] == "<":
        return Comparison(var(g[1]), "<", g[2])
    if g[0] == "==":
        return Comparison(var(g[1]), "==", g[2])
    if g[0] in ("and", "or"):
        return (LogicalAnd if g[0] == "and" else LogicalOr)(tuple(build_guard(x) for x in g[1:]))
    raise ValueError("bad guard %r" % (g,))


def build_bound(b):
    return var(b) if isinstance(b, str) else b


def build_stmt(s, index, deps):
    kind = s["kind"]
    kw = {"id": s["id"], "depends_on": frozenset(deps)}
    if kind == "nop":
        return lang.Nop(**kw)
    kw["condition"] = build_guard(s.get("guard"))
    if kind == "assign":
        return lang.Assign(assignee="v_" + s["id"], assignee_subscript=(), expression=100 + index,
                           loops=[(l[0], build_bound(l[1]), build_bound(l[2])) for l in s.get("loops") or []], **kw)
    if kind.startswith("flag:"):
        return lang.Assign(assignee="<cond>" + kind[5:], assignee_subscript=(),
                           expression=Comparison(var("u"), "<", 100 + index), **kw)
    if kind == "call":
        return lang.AssignFunctionCall(assignees=("w_" + s["id"],), function_id="<func>f",
                                       parameters=(var("u"), 100 + index), **kw)
    if kind == "yield":
        return lang.YieldState(time_id="t%d" % index, time=var("<t>"), component_id="y",
                               expression=var("u"), **kw)
    if kind == "switch":
        return lang.SwitchPhase(next_phase=PHASE, **kw)
    if kind == "fail":
        return lang.FailStep(**kw)
    raise ValueError("bad kind %r" % (kind,))


def build_code(stmts, order, dep_variant):
    """a fresh DAGCode whose single phase stores the statements in `order`; dep_variant permutes the list each
    depends_on frozenset is built from (0 as written, 1 reversed, 2 rotated)"""
    objs = []
    for pos in order:
        s = stmts[pos]
        deps = list(s.get("deps") or [])
        if dep_variant == 1:
            deps.reverse()
        elif dep_variant == 2 and deps:
            deps = deps[1:] + deps[:1]
        objs.append(build_stmt(s, pos, deps))
    phase = lang.ExecutionPhase(PHASE, PHASE, objs)
    return lang.DAGCode({PHASE: phase}, PHASE), {o.id: o for o in objs}


# ---- independent view of the input ---------------------------------------------------------------

def in_domain(stmts):
    ids = [s["id"] for s in stmts]
    if len(set(ids)) != len(ids):
        return "duplicate ids"
    idset = set(ids)
    for s in stmts:
        if not set(s.get("deps") or []) <= idset:
            return "dependency outside the phase"
        if s["kind"] != "assign" and s.get("loops"):
            return "loops on a non-Assign"
        if s["kind"] == "nop" and s.get("guard") is not None:
            return "guard on a Nop"
    # acyclic: repeatedly remove statements without remaining dependencies
    remaining = {s["id"]: set(s.get("deps") or []) for s in stmts}
    while remaining:
        free = [i for i, d in remaining.items() if not d]
        if not free:
            return "cyclic"
        for i in free:
            del remaining[i]
        for d in remaining.values():
            d.difference_update(free)
    return None


def ancestors(stmts):
    """id -> set of ids it transitively depends on"""
    direct = {s["id"]: set(s.get("deps") or []) for s in stmts}
    out = {}

    def go(i):
        if i not in out:
            acc = set()
            for d in direct[i]:
                acc.add(d)
                acc |= go(d)
            out[i] = acc
        return out[i]
    for i in direct:
        go(i)
    return out


def atoms_of_guard(g, acc):
    if g is None or g is True or g is False:
        return
    if isinstance(g, str):
        acc.add(str(build_guard(g)))
    elif g[0] == "!":
        atoms_of_guard(g[1], acc)
    elif g[0] in ("and", "or"):
        for x in g[1:]:
            atoms_of_guard(x, acc)
    else:
        acc.add(str(build_guard(g)))


def ev_json(g, val):
    if g is None or g is True:
        return True
    if g is False:
        return False
    if isinstance(g, (list, tuple)) and g[0] == "!":
        return not ev_json(g[1], val)
    if isinstance(g, (list, tuple)) and g[0] == "and":
        return all(ev_json(x, val) for x in g[1:])
    if isinstance(g, (list, tuple)) and g[0] == "or":
        return any(ev_json(x, val) for x in g[1:])
    return val[str(build_guard(g))]


def valuations(atoms):
    atoms = sorted(atoms)
    for bits in itertools.product((False, True), repeat=len(atoms)):
        yield dict(zip(atoms, bits))


# ---- independent semantics of the returned tree ---------------------------------------------------

class Unexpected(Exception):
    pass


def ev_real(c, val):
    if c is True or c is False:
        return c
    if isinstance(c, LogicalNot):
        return not ev_real(c.child, val)
    if isinstance(c, LogicalAnd):
        return all(ev_real(x, val) for x in c.children)
    if isinstance(c, LogicalOr):
        return any(ev_real(x, val) for x in c.children)
    k = str(c)
    if k in val:
        return val[k]
    raise Unexpected("condition %s is not a guard of the phase" % k)


_PAYLOAD = {}          # id(statement object) -> payload; cleared per check (the objects live that long)


def payload(stmt):
    """class and text of a statement with its guard and loops taken off"""
    r = _PAYLOAD.get(id(stmt))
    if r is None:
        kw = {"condition": True}
        if isinstance(stmt, lang.Assign):
            kw["loops"] = []
        r = _PAYLOAD[id(stmt)] = (stmt, type(stmt).__name__, stmt.id, str(stmt.copy(**kw)))
    return r[1:]


def exec_leaf(stmt, val, loops, out):
    """executing a leaf statement as the backends do: emit_inst_* never looks at a `condition` still attached to
    the statement (so it runs unconditionally once reached), while `loops` still attached to an Assign are
    emitted around it by the Python backend (python.py emit_inst_Assign)"""
    own = tuple((l[0], str(l[1]), str(l[2])) for l in (getattr(stmt, "loops", None) or []))
    out.append((stmt.id, loops + own, payload(stmt)))


def trace_real(n, val, loops, out):
    if isinstance(n, A.StatementWrapper):
        exec_leaf(n.statement, val, loops, out)
    elif isinstance(n, A.NullASTNode):
        pass
    elif isinstance(n, A.Block):
        for c in n.children:
            trace_real(c, val, loops, out)
    elif isinstance(n, (A.IfThenElse, A.IfThen)) and loops:
        # a statement's guard goes AROUND its loops: it is decided once, before any loop bound is evaluated, and a loop counter
        # cannot capture a name in it
        raise Unexpected("guard %s is evaluated inside the loop over %s" % (n.condition, loops[-1][0]))
    elif isinstance(n, A.IfThenElse):
        trace_real(n.then if ev_real(n.condition, val) else n.else_, val, loops, out)
    elif isinstance(n, A.IfThen):
        if ev_real(n.condition, val):
            trace_real(n.then, val, loops, out)
    elif isinstance(n, A.ForLoop):
        trace_real(n.body, val, loops + ((n.loop_var_name, str(n.lbound), str(n.ubound)),), out)
    else:
        raise Unexpected("tree contains a %s node" % type(n).__name__)
    return out


def dump(n):
    """structural serialisation of the real tree (for the storage-order clause)"""
    if isinstance(n, A.StatementWrapper):
        s = n.statement
        return ["stmt", type(s).__name__, s.id, str(s), sorted(s.depends_on)]
    if isinstance(n, A.NullASTNode):
        return ["null"]
    if isinstance(n, A.Block):
        return ["block"] + [dump(c) for c in n.children]
    if isinstance(n, A.IfThenElse):
        return ["ifelse", str(n.condition), dump(n.then), dump(n.else_)]
    if isinstance(n, A.IfThen):
        return ["if", str(n.condition), dump(n.then)]
    if isinstance(n, A.ForLoop):
        return ["for", n.loop_var_name, str(n.lbound), str(n.ubound), dump(n.body)]
    return ["?", type(n).__name__, str(n)]


class Recorder(StructuredCodeGenerator):
    """records what the real generic walker emits"""

    def __init__(self):
        self.log = []

    def __getattr__(self, name):
        if name.startswith("emit_inst_"):
            return lambda inst: self.log.append(("inst", inst))
        raise AttributeError(name)

    def emit_if_begin(self, expr):
        self.log.append(("if", expr))

    def emit_if_end(self):
        self.log.append(("endif",))

    def emit_else_begin(self):
        self.log.append(("else",))

    def emit_for_begin(self, loop_var_name, lbound, ubound):
        self.log.append(("for", loop_var_name, lbound, ubound))

    def emit_for_end(self, loop_var_name):
        self.log.append(("endfor", loop_var_name))

    def emit_return(self):
        self.log.append(("return",))


def run_log(log, val):
    """interpret the emitted structured code under a valuation"""
    out = []
    active = [True]          # is the current point executed
    conds = []               # (outer_active, value) for each open if
    loops = ()
    for ev in log:
        k = ev[0]
        if k == "if":
            v = ev_real(ev[1], val) if active[-1] else False
            conds.append((active[-1], v))
            active.append(active[-1] and v)
        elif k == "else":
            outer, v = conds[-1]
            active[-1] = outer and not v
        elif k == "endif":
            conds.pop()
            active.pop()
        elif k == "for":
            loops = loops + ((ev[1], str(ev[2]), str(ev[3])),)
        elif k == "endfor":
            if not loops or loops[-1][0] != ev[1]:
                raise Unexpected("unbalanced emit_for_end(%s)" % ev[1])
            loops = loops[:-1]
        elif k == "inst":
            if active[-1]:
                exec_leaf(ev[1], val, loops, out)
        elif k == "return":
            if ev is not log[-1]:
                raise Unexpected("emit_return before the end")
    if conds or loops or log[-1][0] != "return":
        raise Unexpected("unbalanced emitted code")
    return out


# ---- the oracle -------------------------------------------------------------------------------------

def default_orders(n):
    ident = list(range(n))
    if n <= 3:
        return [list(p) for p in itertools.permutations(ident)]
    out = [ident, ident[::-1], ident[1:] + ident[:1]]
    for k in range(3):
        p = ident[:]
        random.Random(7919 * n + k).shuffle(p)
        if p not in out:
            out.append(p)
    return out


def check(inp):
    """None if the property holds, else (clause, detail, exception type name or None)"""
    stmts = inp["stmts"]
    orders = inp.get("orders") or default_orders(len(stmts))
    by_id = {s["id"]: s for s in stmts}
    anc = ancestors(stmts)
    atoms = set()
    for s in stmts:
        atoms_of_guard(s.get("guard"), atoms)
    base_dump = None
    _PAYLOAD.clear()
    for oi, order in enumerate(orders):
        for dep_variant in ((0, 1, 2) if oi == 0 else (oi % 3,)):
            code, objs = build_code(stmts, order, dep_variant)
            try:
                tree = A.create_ast_from_phase(code, PHASE)
            except Exception as ex:
                return ("no-exception", "create_ast_from_phase raised %s: %s (storage order %s)"
                        % (type(ex).__name__, ex, order), type(ex).__name__)
            d = dump(tree)
            if base_dump is None:
                base_dump = d
            elif d != base_dump:
                return ("storage-order", "storage order %s / depends_on variant %d gives %s, base order gives %s"
                        % (order, dep_variant, json.dumps(d), json.dumps(base_dump)), None)
            if oi == 0 and dep_variant == 0 and len(stmts) <= 4:
                # the same phase OBJECT after its statements were replaced in place (same ids and edges, guards negated): lowering
                # it again must give what a fresh phase with those statements gives (nothing about the phase may be remembered)
                changed = [dict(s_, guard=(["!", s_["guard"]] if s_.get("guard") not in (None, True, False) else s_.get("guard")))
                           for s_ in stmts]
                if changed != stmts:
                    ph = code.phases[PHASE]
                    for k_, pos in enumerate(order):
                        ph.statements[k_] = build_stmt(changed[pos], pos, list(changed[pos].get("deps") or []))
                    try:
                        again = dump(A.create_ast_from_phase(code, PHASE))
                        fresh = dump(A.create_ast_from_phase(build_code(changed, order, 0)[0], PHASE))
                    except Exception as ex:
                        return ("no-exception", "lowering a phase whose statements were replaced in place raised %s: %s"
                                % (type(ex).__name__, ex), type(ex).__name__)
                    if again != fresh:
                        return ("executed-set", "the phase object was lowered, its statements replaced in place (guards negated) and "
                                "lowered again: %s, a fresh phase with those statements gives %s" % (json.dumps(again), json.dumps(fresh)), None)
                    code, objs = build_code(stmts, order, dep_variant)
                    tree = A.create_ast_from_phase(code, PHASE)
            if oi > 0:
                continue          # identical tree: the semantic clauses need checking once
            if dep_variant > 0:
                continue
            try:
                rec = Recorder()
                rec.lower_ast(tree)
            except Exception as ex:
                return ("walker", "lower_ast raised %s: %s on %s" % (type(ex).__name__, ex, json.dumps(d)),
                        type(ex).__name__)
            for val in valuations(atoms):
                try:
                    tr = trace_real(tree, val, (), [])
                    wl = run_log(rec.log, val)
                except Unexpected as ex:
                    return ("executed-set", "returned tree cannot be executed: %s" % ex, None)
                vs = json.dumps(val, sort_keys=True)
                if wl != tr:
                    return ("walker", "under %s the emitted code executes %s, the tree %s"
                            % (vs, [e[0] for e in wl], [e[0] for e in tr]), None)
                want = [s["id"] for s in stmts if s["kind"] != "nop" and ev_json(s.get("guard"), val)]
                got = [e[0] for e in tr]
                if sorted(got) != sorted(want):
                    return ("executed-set", "under %s expected exactly %s (each once), tree executes %s"
                            % (vs, sorted(want), got), None)
                for sid, loops, pl in tr:
                    s = by_id[sid]
                    if pl != payload(objs[sid]):
                        return ("executed-set", "leaf %s is %r, the statement is %r" % (sid, pl, payload(objs[sid])),
                                None)
                    decl = tuple((l[0], str(build_bound(l[1])), str(build_bound(l[2]))) for l in s.get("loops") or [])
                    if loops != decl:
                        return ("loops", "under %s statement %s runs inside loops %s, declared %s"
                                % (vs, sid, list(loops), list(decl)), None)
                pos = {sid: i for i, sid in enumerate(got)}
                for b in got:
                    for a in anc[b]:
                        if a in pos and pos[a] > pos[b]:
                            return ("order", "under %s %s runs before its (transitive) dependency %s: %s"
                                    % (vs, b, a, got), None)
    return None


# ---- fingerprint ---------------------------------------------------------------------------------------

def fp_d2(inp):
    """D2 reached through the lowering: there is at least one non-Nop statement and every non-Nop statement has
    the constant guard False and no loops, so every child of the main Block simplifies to nothing; the observed
    failure is the IndexError of popleft() on the emptied queue."""
    real = [s for s in inp["stmts"] if s["kind"] != "nop"]
    if not real or not all(s.get("guard") is False and not s.get("loops") for s in real):
        return False
    f = check(inp)
    return f is not None and f[0] == "no-exception" and f[2] == "IndexError"


def fp_null_loop_body(inp):
    """(new in this oracle, not one of D1-D3) an Assign with loops whose guard is the constant False: the guard
    inside the loop nest simplifies to a NullASTNode, the ForLoop around it is kept, and the generic walker
    (lower_node / get_statements_in_ast) rejects the NullASTNode with a ValueError."""
    if not any(s["kind"] == "assign" and s.get("loops") and s.get("guard") is False for s in inp["stmts"]):
        return False
    f = check(inp)
    return f is not None and f[0] == "walker" and f[2] == "ValueError" and "NullASTNode" in f[1]


FINGERPRINTS = {"d2_every_statement_guarded_by_constant_false": fp_d2,
                "looped_statement_guarded_by_constant_false": fp_null_loop_body}


# ---- generators --------------------------------------------------------------------------------------------

ATTRS = [
    ("assign", None, []),
    ("assign", "c1", []),
    ("assign", ["!", "c1"], []),
    ("assign", "c2", []),
    ("nop", None, []),
    ("assign", None, [["i", 0, "n"]]),
    ("assign", "c1", [["i", 0, "n"], ["j", 1, 4]]),
    ("call", "c1", []),
]

NAME_POOLS = [["a", "b", "c", "d"], ["d", "c", "b", "a"], ["b", "d", "a", "c"], ["s10", "s2", "s1", "s9"]]


def exhaustive_inputs(n, attrs):
    pairs = [(i, j) for i in range(n) for j in range(i)]
    count = 0
    for edges in itertools.product((0, 1), repeat=len(pairs)):
        deps = {i: [] for i in range(n)}
        for (i, j), e in zip(pairs, edges):
            if e:
                deps[i].append(j)
        for choice in itertools.product(range(len(attrs)), repeat=n):
            names = NAME_POOLS[count % len(NAME_POOLS)]
            count += 1
            stmts = []
            for i in range(n):
                kind, guard, loops = attrs[choice[i]]
                s = {"id": names[i], "kind": kind, "deps": [names[j] for j in deps[i]]}
                if kind != "nop":
                    s["guard"] = guard
                if loops:
                    s["loops"] = loops
                stmts.append(s)
            yield {"stmts": stmts}


def random_input(rng, max_n, allow_false):
    n = rng.randint(2, max_n)
    names = rng.sample(["a", "b", "c", "d", "e", "f", "g", "h", "s1", "s2", "s10", "s11", "z", "A", "_x"], n)
    flags = ["c1", "c2", "c3"]
    density = rng.choice([0.15, 0.3, 0.5, 0.8])
    stmts = []
    for i in range(n):
        r = rng.random()
        kind = ("nop" if r < 0.18 else "assign" if r < 0.68 else "call" if r < 0.78 else "yield" if r < 0.86
                else "switch" if r < 0.92 else "fail")
        deps = [names[j] for j in range(i) if rng.random() < density]
        rng.shuffle(deps)
        s = {"id": names[i], "kind": kind, "deps": deps}
        if kind != "nop":
            g = rng.random()
            if g < 0.3:
                guard = None
            elif g < 0.62:
                guard = rng.choice(flags)
            elif g < 0.82:
                guard = ["!", rng.choice(flags)]
            elif g < 0.95 or not allow_false:
                guard = ["<", rng.choice(["x", "y"]), rng.choice([0, 1])]
            else:
                guard = False
            s["guard"] = guard
        if kind == "assign" and rng.random() < 0.4:
            s["loops"] = [[v, rng.choice([0, 1, "m"]), rng.choice([5, "n"])]
                          for v in rng.sample(["i", "j", "k"], rng.randint(1, 2))]
        stmts.append(s)
    # realistic flags: one writer per flag, which every statement guarded by that flag depends on
    if rng.random() < 0.5:
        used = set()
        for s in stmts:
            atoms_flag = json.dumps(s.get("guard"))
            for f in flags:
                if '"%s"' % f in atoms_flag:
                    used.add(f)
        for f in sorted(used):
            wid = "w_" + f
            for s in stmts:
                if '"%s"' % f in json.dumps(s.get("guard")):
                    s["deps"] = s["deps"] + [wid]
            stmts.insert(0, {"id": wid, "kind": "flag:" + f, "deps": [], "guard": None})
    # base storage order: not the topological one
    rng.shuffle(stmts)
    return {"stmts": stmts}


def nontrivial(inp):
    st = inp["stmts"]
    return (len(st) >= 2 and any(s.get("deps") for s in st)
            and any(s.get("guard") is not None or s.get("loops") or s["kind"] == "nop" for s in st))


# ---- entry points ------------------------------------------------------------------------------------------

def replay(inp):
    if not isinstance(inp, dict) or "stmts" not in inp:
        return {"error": "input must be {'stmts': [...]}"}
    why = in_domain(inp["stmts"])
    if why:
        return {"error": "outside the domain of C05 (%s)" % why}
    f = check(inp)
    if f is None:
        return {"fails": False, "detail": "lowering keeps the executed set, loops and order; storage order irrelevant"}
    return {"fails": True, "detail": "%s: %s" % (f[0], f[1])}


def bounded(payload):
    budget = payload.get("budget") or {}
    tier = payload.get("tier", "quick")
    seed = payload.get("seed", 0)
    rng = random.Random(seed)
    quick = tier == "quick"
    max_n = budget.get("exhaustive_statements", 3 if quick else 4)
    n_random = budget.get("random_phases", 1500 if quick else 25000)
    rand_max_n = budget.get("random_statements", 8 if quick else 10)
    active = {e.get("fingerprint") for e in payload.get("known", []) if e.get("fingerprint") in FINGERPRINTS}

    evals = 0
    distinct, seen = set(), set()
    classes = {}
    parts = collections.Counter()
    samples = []

    def run(inp, origin):
        nonlocal evals
        key = json.dumps(inp, separators=(",", ":"), sort_keys=True)
        if key in seen:
            parts["duplicates_not_reevaluated"] += 1
            return
        seen.add(key)
        why = in_domain(inp["stmts"])
        if why:
            parts["skipped_outside_domain"] += 1
            return
        evals += 1
        parts["inputs_" + origin] += 1
        if nontrivial(inp):
            distinct.add(key)
        f = check(inp)
        if f is None:
            return
        fps = tuple(sorted(n for n, fn in FINGERPRINTS.items() if fn(inp)))
        parts["failing_inputs_" + origin] += 1
        known = any(n in active for n in fps)
        if known:
            parts["failing_inputs_filtered_as_known"] += 1
        c = classes.setdefault((f[0], fps, known), [0, []])
        c[0] += 1
        c[1].append((len(inp["stmts"]), key, f[1]))
        c[1].sort()
        del c[1][3:]

    for n in range(1, max_n + 1):
        attrs = ATTRS if n <= 2 or (n == 3 and not quick) else ATTRS[:7] if n == 3 else [ATTRS[i] for i in (0, 1, 2, 4, 5)]
        parts["exhaustive_shapes_n%d" % n] = len(attrs)
        for inp in exhaustive_inputs(n, attrs):
            run(inp, "exhaustive_n%d" % n)
    # nested negations (not not c, not not not c, not (x < 0), ...): the guard must hold exactly when its value is true
    negs = [["!", ["!", "c1"]], ["!", ["!", ["!", "c1"]]], ["!", ["<", "x", 0]], ["!", ["!", ["<", "x", 0]]],
            ["!", ["!", ["!", ["!", "c2"]]]]]
    for g in negs:
        for other in (None, "c1", ["!", "c1"], g):
            for dep in ((), ("s0",)):
                for kind2, loops2 in (("assign", None), ("assign", [["i", 0, "n"]]), ("call", None)):
                    st = [{"id": "s0", "kind": "assign", "deps": [], "guard": other},
                          {"id": "s1", "kind": kind2, "deps": list(dep), "guard": g}]
                    if loops2:
                        st[1]["loops"] = loops2
                    run({"stmts": st}, "nested_negations")
                    run({"stmts": [dict(st[1], id="s0", deps=[]), dict(st[0], id="s1", deps=["s0"] if dep else [])]},
                        "nested_negations")
    # compound guards (a or (b and c), (a or b) and c, not (a and b), nested conjunctions / disjunctions): a statement runs
    # exactly when the VALUE of its guard is true, however the lowering prints or regroups the guard
    comp = [["or", "c1", ["and", "c2", "c3"]], ["and", ["or", "c1", "c2"], "c3"], ["!", ["and", "c1", "c2"]],
            ["and", "c1", ["and", "c2", "c3"]], ["or", "c1", ["or", "c2", "c3"]], ["or", ["and", "c1", "c2"], ["!", "c3"]],
            ["and", "c1", ["!", ["or", "c2", ["<", "x", 0]]]], ["!", ["or", "c1", ["and", "c2", "c3"]]]]
    for g in comp:
        for other in (None, "c1", ["!", g], g):
            for dep in ((), ("s0",)):
                for loops2 in (None, [["i", 0, "n"]]):
                    st = [{"id": "s0", "kind": "assign", "deps": [], "guard": other},
                          {"id": "s1", "kind": "assign", "deps": list(dep), "guard": g},
                          {"id": "s2", "kind": "call", "deps": ["s1"], "guard": ["!", g]}]
                    if loops2:
                        st[1]["loops"] = loops2
                    run({"stmts": st}, "compound_guards")
    # different guards whose hashes collide in CPython (hash(-1) == hash(-2)): guards are the same only if they are EQUAL
    for ga, gb in ((["==", "m", -1], ["==", "m", -2]), (["<", "x", -1], ["<", "x", -2]), (["==", "m", -2], ["==", "m", -1])):
        for third in (["!", gb], ga, None):
            st = [{"id": "s0", "kind": "assign", "deps": [], "guard": ga}, {"id": "s1", "kind": "assign", "deps": ["s0"], "guard": gb},
                  {"id": "s2", "kind": "assign", "deps": ["s1"], "guard": third}]
            run({"stmts": st}, "guards_with_colliding_hashes")
    # a guard that mentions a name which is also one of the statement's own loop identifiers: the guard is decided once, before
    # the loops (and before their bounds are evaluated), like every other guard
    for g in (["<", "k", 2], ["!", ["<", "k", 0]], ["<", "i", 1]):
        for loops in ([["k", 0, "n"]], [["i", 0, 3], ["k", "m", "n"]], [["k", 0, 2], ["i", 0, "k"]]):
            for other in (None, "c1"):
                st = [{"id": "s0", "kind": "assign", "deps": [], "guard": other},
                      {"id": "s1", "kind": "assign", "deps": ["s0"], "guard": g, "loops": loops},
                      {"id": "s2", "kind": "assign", "deps": ["s1"], "guard": g}]
                run({"stmts": st}, "guard_names_a_loop_identifier")
    for i in range(n_random):
        inp = random_input(rng, rand_max_n, allow_false=(i % 4 == 3))
        run(inp, "random")
        if len(samples) < 3 and nontrivial(inp) and 4 <= len(inp["stmts"]) <= 6:
            samples.append(inp)
    samples.append({"stmts": [{"id": "b", "kind": "assign", "deps": [], "guard": "c1"},
                              {"id": "d", "kind": "nop", "deps": ["b"]},
                              {"id": "a", "kind": "assign", "deps": ["d"], "guard": ["!", "c1"],
                               "loops": [["i", 0, "n"]]}]})

    failures = []
    for (clause, fps, known), (count, smallest) in sorted(classes.items(), key=lambda kv: (kv[0][2], kv[0][0], kv[0][1])):
        parts["class[%s|%s]" % (clause, ",".join(fps) or "-")] = count
        if known:
            continue
        for _, key, detail in smallest:
            failures.append({"oracle": clause, "input": json.loads(key), "detail": detail[:1500],
                             "matches_fingerprints": list(fps), "inputs_in_this_class": count})
    known_hits = []
    for e in payload.get("known", []):
        try:
            r = replay(e["native"])
        except Exception as ex:
            r = {"error": str(ex)}
        if r.get("fails"):
            known_hits.append("%s: %s" % (e["id"], e["what"]))
    return {"evaluations": evals, "distinct_nontrivial": len(distinct),
            "rule": "exhaustive: phases of 1..%d statements, every dependency DAG on them (edges towards earlier "
                    "statements of a base order), every assignment of <= %d statement shapes (plain / guarded by c1, "
                    "not c1, c2 / Nop / one loop / guarded two-deep loop nest / guarded call; 7 shapes for n=3 in the "
                    "quick tier, 5 shapes for n=4; see parts), ids "
                    "drawn from 4 rotating name pools so that sorted-id order and dependency order disagree; then %d "
                    "seeded random phases of 2..%d statements (7 statement kinds, guards over 3 flags, negations, "
                    "opaque comparisons, a quarter of them may use the constant guard False; optional flag-writer "
                    "statements; loop nests up to depth 2).  Every phase is lowered by the real "
                    "create_ast_from_phase in all (n<=3) or 6 storage orders and 3 ways of building each depends_on "
                    "set, and traced under every valuation of its guard atoms.  non-trivial = >= 2 statements, "
                    ">= 1 dependency edge and >= 1 guard, loop or Nop; distinct = distinct JSON input"
                    % (max_n, len(ATTRS), n_random, rand_max_n),
            "bound": "exhaustive <= %d statements; random <= %d statements (+ <= 3 flag writers), <= 5 guard atoms "
                     "(all 2^k valuations), loop depth <= 2" % (max_n, rand_max_n),
            "samples": samples[:4], "failures": failures[:20], "known_hits": known_hits,
            "parts": dict(sorted(parts.items())), "exhaustive": False}
