"""C01 (and the chain C05 -> generated code) — CodeGenerator.lower_node / lower_ast (dagrt/codegen/codegen_base.py).

The emit_* calls build structured text block by block.  Their meaning is a stack machine over the tree ADT of
contracts/astspec.py: lower_inst(s) appends Leaf(s) to the current block; emit_if_begin(c) opens a block;
emit_else_begin() closes the then-part and opens the else-part; emit_if_end() closes the If and appends
IfThen(c, Block(..)) / IfThenElse(c, Block(..), Block(..)) to the enclosing block; emit_for_begin / emit_for_end
likewise with the loop header (what each emit_* prints for these calls is validated in contracts/c01emit.py).
Contract of lower_node(node), for every state of the machine:
    afterwards the same blocks are open, and the current block `top` satisfies, for every continuation k,
        trace(top', k) == trace(top, trace(node, k))
i.e. the emitted text additionally executes exactly what the structured program `node` executes (same statements,
same guards, same loop brackets, same order), for every valuation of the guards; recursion by this contract on
strictly smaller nodes.
"""
import z3
from z3 import And, Or, Not, Implies, ForAll, If

from pyvc.values import *  # noqa
from pyvc.contracts import FunctionContract, FunctionUnit
from .astspec import *  # noqa
from . import astspec as A

REL = "dagrt/codegen/codegen_base.py"


class LowerNode(FunctionContract):
    prop = "C01"
    relpath = REL
    qualname = "StructuredCodeGenerator.lower_node"
    axioms = tuple(ground_axioms())
    prune_quantified = False
    raises = {"ValueError": lambda st: [("only-for-a-node-of-no-known-class", Node.is_Null(st._env["node"].t))]}

    def __init__(self):
        self.node = z3.Const("node", Node)
        self.top0 = z3.Const("current_block_on_entry", NodeList)

    def params(self, ctx):
        ctx.env["self"] = VObj(TObj("CodeGenerator", {}), {})
        ctx.env["node"] = NODE.wrap(self.node)
        ctx.ghost["top"] = self.top0
        self.frames = []
        for f in A.unfold_size(self.node):
            ctx.assume(f)

    # ---- the machine ---------------------------------------------------------------------------------------------------
    def append_node(self, ctx, n):
        top = ctx.ghost["top"]
        # name the node and the block (terms with if-then-else inside cannot occur in quantifier patterns)
        nc = z3.Const(fresh_name("emitted_node"), Node)
        ctx.assume(nc == n)
        tc = z3.Const(fresh_name("block_before"), NodeList)
        ctx.assume(tc == top)
        top = tc
        one = NodeList.Cons(nc, NodeList.Nil)
        for f in lemma_instances_app(top, one) + unfold_node(nc):
            ctx.assume(f)
        ctx.ghost["top"] = app(top, one)

    def m_inst(self, ctx, it, args, kw):
        s = ctx.deref(args[0])
        self.append_node(ctx, Node.Leaf(s.t))
        return NONE

    def m_if_begin(self, ctx, it, args, kw):
        c = ctx.deref(args[0])
        self.frames.append({"kind": "if", "cond": c.t, "saved": ctx.ghost["top"], "then": None})
        ctx.ghost["top"] = NodeList.Nil
        return NONE

    def m_else_begin(self, ctx, it, args, kw):
        if not self.frames or self.frames[-1]["kind"] != "if" or self.frames[-1]["then"] is not None:
            raise Unsupported("emit_else_begin outside the then-part of an if")
        self.frames[-1]["then"] = ctx.ghost["top"]
        ctx.ghost["top"] = NodeList.Nil
        return NONE

    def m_if_end(self, ctx, it, args, kw):
        if not self.frames or self.frames[-1]["kind"] != "if":
            raise Unsupported("emit_if_end without an open if")
        f = self.frames.pop()
        cur = ctx.ghost["top"]
        if f["then"] is None:
            n = Node.IfThen(f["cond"], Node.Block(cur))
        else:
            n = Node.IfThenElse(f["cond"], Node.Block(f["then"]), Node.Block(cur))
        ctx.ghost["top"] = f["saved"]
        self.append_node(ctx, n)
        return NONE

    def m_for_begin(self, ctx, it, args, kw):
        v, lb, ub = [ctx.deref(a) for a in args]
        self.frames.append({"kind": "for", "h": LoopH.mkh(v.t, lb.t, ub.t), "var": v.t, "saved": ctx.ghost["top"]})
        ctx.ghost["top"] = NodeList.Nil
        return NONE

    def m_for_end(self, ctx, it, args, kw):
        if not self.frames or self.frames[-1]["kind"] != "for":
            raise Unsupported("emit_for_end without an open loop")
        f = self.frames.pop()
        v = ctx.deref(args[0])
        ctx.oblige("the-loop-that-is-closed-is-the-loop-that-was-opened@L%s" % ctx.cur_line, v.t == f["var"])
        cur = ctx.ghost["top"]
        ctx.ghost["top"] = f["saved"]
        self.append_node(ctx, Node.ForLoop(f["h"], Node.Block(cur)))
        return NONE

    def m_rec(self, ctx, it, args, kw):
        """self.lower_node(child) by this contract"""
        ch = ctx.deref(args[0])
        ctx.oblige("recursion-on-a-strictly-smaller-node@L%s" % ctx.cur_line, A.nsize(ch.t) < A.nsize(self.node))
        top = ctx.ghost["top"]
        new = z3.Const(fresh_name("block_after_child"), NodeList)
        ctx.assume(allk(lambda k: trlk(new, k) == trlk(top, trk(ch.t, k))))
        ctx.ghost["top"] = new
        return NONE

    calls = property(lambda self: {
        "self.lower_inst": self.m_inst, "self.emit_if_begin": self.m_if_begin, "self.emit_else_begin": self.m_else_begin,
        "self.emit_if_end": self.m_if_end, "self.emit_for_begin": self.m_for_begin, "self.emit_for_end": self.m_for_end,
        "self.lower_node": self.m_rec})
    names = property(lambda self: dict(NODE_CLASSES, type=VFunc("type", lambda ctx, it, a, k: VObj(TObj("cls", {}), {"__name__": VPy("<name>")}))))

    def getattr_hook(self, ctx, it, obj, name):
        o = ctx.deref(obj)
        if isinstance(o, VPy) and name == "format":
            return VFunc("format", lambda ctx, it, a, k: VPy("<message>"))
        return None

    # ---- Block: for child in node.children ------------------------------------------------------------------------------
    def inv(self, s):
        done = s.loop(0)["$done"].t
        return [("block-so-far-executes-the-children-done",
                 allk(lambda k: trlk(s.g("top"), k) == trlk(self.top0, trlk(done, k))))]

    def facts(self, s):
        rest, done = s.loop(0)["$rest"].t, s.loop(0)["$done"].t
        return unfold_list(rest) + unfold_list(done) + A.size_instances(rest) + A.size_instances(done) + A.unfold_size(self.node)

    loops = property(lambda self: {0: dict(shape="for child in node.children", inv=self.inv, facts=self.facts,
                                           havoc_ghosts=["top"])})

    def ensures(self, st):
        return [("the-current-block-additionally-executes-exactly-what-the-node-executes",
                 allk(lambda k: trlk(st.g("top"), k) == trlk(self.top0, trk(self.node, k)))),
                ("every-block-opened-here-is-closed", z3.BoolVal(not self.frames))]


class LowerAst(FunctionContract):
    """lower_ast(ast): the whole tree, then emit_return (once, last)"""
    prop = "C01"
    relpath = REL
    qualname = "StructuredCodeGenerator.lower_ast"

    def params(self, ctx):
        ctx.env["self"] = VObj(TObj("CodeGenerator", {}), {})
        ctx.env["ast"] = VPy("<ast>")
        ctx.ghost["calls"] = []

    def rec(self, what):
        def f(ctx, it, args, kw):
            ctx.ghost["calls"] = ctx.ghost["calls"] + [(what, tuple(getattr(ctx.deref(a), "py", "?") for a in args))]
            return NONE
        return f

    calls = property(lambda self: {"self.lower_node": self.rec("lower_node"), "self.emit_return": self.rec("emit_return")})

    def ensures(self, st):
        return [("lowers-the-tree-then-returns", z3.BoolVal(st.g("calls") == [("lower_node", ("<ast>",)), ("emit_return", ())]))]


class LowerInst(FunctionContract):
    """lower_inst(inst): dispatches to emit_inst_<class name of the statement> with the statement"""
    prop = "C01"
    relpath = REL
    qualname = "StructuredCodeGenerator.lower_inst"
    raises = {"RuntimeError": lambda st: [("only-when-the-generator-has-no-such-method", st.g("missing"))]}
    exc_hierarchy = {"AttributeError": ["Exception"]}

    def params(self, ctx):
        ctx.env["self"] = VObj(TObj("CodeGenerator", {}), {})
        ctx.env["inst"] = VPy("<inst>")
        ctx.ghost["missing"] = z3.BoolVal(False)
        ctx.ghost["looked"] = None

    def m_getattr(self, ctx, it, args, kw):
        a = [ctx.deref(x) for x in args]
        ctx.ghost["looked"] = getattr(a[1], "py", None)
        miss = z3.Bool("generator_has_no_such_method")
        if ctx.branch(miss, "missing"):
            ctx.ghost["missing"] = miss
            ctx.raise_("AttributeError")
        return VFunc("method", lambda ctx, it, a2, k: VPy(("emitted-by", ctx.ghost["looked"], tuple(getattr(ctx.deref(x), "py", "?") for x in a2))))

    def binop_hook(self, ctx, it, op_, a, b):
        import ast as pyast
        if op_ is pyast.Add and isinstance(a, VPy) and isinstance(b, VPy):
            return VPy(str(a.py) + str(b.py))
        return None

    def getattr_hook(self, ctx, it, obj, name):
        o = ctx.deref(obj)
        if isinstance(o, VPy) and o.py == "type(<inst>)" and name == "__name__":
            return VPy("<ClassName>")
        if isinstance(o, VPy) and name == "format":
            return VFunc("format", lambda ctx, it, a, k: VPy("<message>"))
        return None

    names = property(lambda self: {"getattr": VFunc("getattr", self.m_getattr),
                                   "type": VFunc("type", lambda ctx, it, a, k: VPy("type(%s)" % getattr(ctx.deref(a[0]), "py", "?"))),
                                   "repr": VFunc("repr", lambda ctx, it, a, k: VPy("<repr>"))})

    def ensures(self, st):
        r = st.result
        return [("calls-emit_inst_<class-of-the-statement>-with-the-statement",
                 z3.BoolVal(isinstance(r, VPy) and r.py == ("emitted-by", "emit_inst_<ClassName>", ("<inst>",))))]


def units():
    return [FunctionUnit(LowerNode()), FunctionUnit(LowerAst()), FunctionUnit(LowerInst())]
