"""C19 — printing an expression and parsing it back returns the same expression (bounded, one clause proved).

parse and str are driven by pymbolic's table-based lexer, recursive-descent parser and
stringifier; dagrt contributes one regular expression, one terminal rule and the backtick
post-pass.  No function within reach has a contract that implies the round trip: that part is
the bounded contract check of DESIGN.md section 6/C19, labelled exploration and never counted
as proved.  The backtick clause ("backtick-quoted names denote the variable between the
backticks") is carried by one function of dagrt, parse.remove_backticks, which is under contract.
"""
import ast as pyast
import z3
from z3 import And, Or, Not, Implies, If

from pyvc.values import *  # noqa
from pyvc.contracts import FunctionContract, FunctionUnit

PROP = "C19"


class VNode(V):
    """the node handed to the substitution function: a Variable with a (string) name, or anything else"""
    ty = None

    def __init__(self, is_var, name):
        self.is_var, self.name = is_var, name


class RemoveBackticks(FunctionContract):
    """A-SUBST: pymbolic's SubstitutionMapper takes a non-None result as the finished substitution and
    descends only on None.  So the function must return None for everything but a backticked variable."""
    prop = PROP
    relpath = "dagrt/expression.py"
    qualname = "parse.remove_backticks"
    strings_symbolic = True

    def __init__(self):
        self.is_var = z3.Bool("expr_is_a_Variable")
        self.name = z3.String("expr_name")

    def params(self, ctx):
        a = ctx.engine.fn.args
        if len(a.args) != 1 or a.vararg or a.kwarg or a.kwonlyargs:
            raise Unsupported("remove_backticks takes one positional parameter (SubstitutionMapper calls it with the node)")
        ctx.env[a.args[0].arg] = VNode(self.is_var, self.name)      # whatever the parameter is called
        ctx.ghost["built"] = z3.StringVal("")

    def isinstance_hook(self, ctx, it, obj, names):
        if isinstance(obj, VNode) and names == ["var"]:
            return VBool(obj.is_var)
        return None

    def getattr_hook(self, ctx, it, obj, name):
        o = ctx.deref(obj)
        if isinstance(o, VNode) and name == "name":
            if not ctx.branch(o.is_var, "has-name"):
                ctx.raise_("AttributeError")
            return VStr(o.name)
        return None

    def m_var(self, ctx, it, args, kw):
        s = ctx.deref(args[0])
        ctx.ghost["built"] = s.t
        return VNode(z3.BoolVal(True), s.t)

    names = property(lambda self: {"var": VFunc("var", self.m_var)})

    def ensures(self, st):
        n = self.name
        L = z3.Length(n)
        quoted = And(self.is_var, z3.PrefixOf(z3.StringVal("`"), n), z3.SuffixOf(z3.StringVal("`"), n))
        r = st.result
        is_none = isinstance(r, VNone)
        return [("None-unless-a-backticked-variable(so-the-mapper-keeps-descending)",
                 z3.BoolVal(is_none) == Not(quoted)),
                ("a-backticked-variable-becomes-the-variable-between-the-backticks",
                 Implies(And(quoted, L >= 2), z3.BoolVal(not is_none) if is_none else
                         And(r.is_var, r.name == z3.SubString(n, 1, L - 2))))]


class ParseBody(FunctionContract):
    """parse(expr) is SubstitutionMapper(remove_backticks)(_ExtendedParser()(expr)): the parser's result goes through the
    backtick post-pass exactly once and nothing else is done to it.  The parser and the mapper are uninterpreted (A-SUBST is
    stated for pymbolic.mapper.substitutor.SubstitutionMapper: the local imports, which the extraction drops, are read from
    the real source and must bind exactly that class and pymbolic.var; any other class is outside the assumption)."""
    prop = PROP
    relpath = "dagrt/expression.py"
    qualname = "parse"
    WANT_IMPORTS = {"var": ("pymbolic", "var"), "SubstitutionMapper": ("pymbolic.mapper.substitutor", "SubstitutionMapper")}

    def __init__(self):
        self.E = z3.DeclareSort("Expr")
        self.text = z3.Const("expr_text", z3.StringSort())
        self.P = z3.Function("extended_parser", z3.StringSort(), self.E)
        self.S = z3.Function("substitute_with_remove_backticks", self.E, self.E)

    def load(self):
        ex = super().load()
        from pyvc import extract
        tree, text = extract.parse_module(self.relpath)
        fn = [n for n in tree.body if isinstance(n, pyast.FunctionDef) and n.name == "parse"][-1]
        bound = {}
        for n in pyast.walk(fn):
            if isinstance(n, pyast.ImportFrom):
                for al in n.names:
                    bound[al.asname or al.name] = (n.module, al.name)
            elif isinstance(n, pyast.Import):
                for al in n.names:
                    bound[al.asname or al.name] = (al.name, None)
        for name, src in bound.items():
            if self.WANT_IMPORTS.get(name) != src:
                raise Unsupported("parse binds %s to %s.%s: A-SUBST does not cover it" % (name, src[0], src[1]))
        return ex

    def params(self, ctx):
        ctx.env["expr"] = VStr(self.text)

    def m_parser_cls(self, ctx, it, args, kw):
        if args or kw:
            raise Unsupported("_ExtendedParser(...) with arguments")
        return VFunc("parser", self.m_parser)

    def m_parser(self, ctx, it, args, kw):
        a = ctx.deref(args[0])
        if len(args) != 1 or kw or not isinstance(a, VStr):
            raise Unsupported("parser(%r)" % (args,))
        return VElem(None, self.P(a.t))

    def m_mapper_cls(self, ctx, it, args, kw):
        f = ctx.deref(args[0]) if len(args) == 1 and not kw else None
        if not (isinstance(f, VPy) and f.py == "<remove_backticks>"):
            raise Unsupported("SubstitutionMapper(%r)" % (args,))
        return VFunc("substitutor", self.m_subst)

    def m_subst(self, ctx, it, args, kw):
        a = ctx.deref(args[0])
        if len(args) != 1 or kw or not (isinstance(a, VElem) and z3.is_expr(a.t) and a.t.sort() == self.E):
            raise Unsupported("substitutor(%r)" % (args,))
        return VElem(None, self.S(a.t))

    nested = {"remove_backticks": VPy("<remove_backticks>")}
    names = property(lambda self: {"_ExtendedParser": VFunc("_ExtendedParser", self.m_parser_cls),
                                   "SubstitutionMapper": VFunc("SubstitutionMapper", self.m_mapper_cls)})

    def ensures(self, st):
        r = st._deref(st.result)
        if not (isinstance(r, VElem) and z3.is_expr(r.t) and r.t.sort() == self.E):
            return [("returns-an-expression", z3.BoolVal(False))]
        return [("the-parsed-expression-goes-through-the-backtick-post-pass-exactly-once",
                 r.t == self.S(self.P(self.text)))]


class ParseTerminal(FunctionContract):
    """_ExtendedParser.parse_terminal(pstate): the tagged-identifier rule.  The lexer state is a position into the token list
    (tags TAG[i], texts STR[i], n tokens; A-LEXSTATE: pytools.lex.LexIterator's next_tag / next_str_and_advance / expect /
    is_next as read from its source; tags are interned strings, so `is` on them is equality).

    If the next token is `<`:  the rule consumes exactly  `<` identifier `>` [identifier]  and returns the variable whose name is
    the concatenation of exactly those texts; it raises ParseError when the second token is not an identifier or the third is
    not `>`; nothing else is accepted as the name part (a keyword, a number, an operator after the `>` is left to the caller).
    Otherwise the call is handed to pymbolic's parse_terminal unchanged."""
    prop = PROP
    relpath = "dagrt/expression.py"
    qualname = "_ExtendedParser.parse_terminal"
    strings_symbolic = True
    TAGS = {"_less": 1, "_identifier": 2, "_greater": 3}
    exc_hierarchy = {"ParseError": ["Exception"], "IndexError": ["Exception"]}

    def __init__(self):
        self.n = z3.Int("number_of_tokens")
        self.p0 = z3.Int("position_at_entry")
        self.TAG = z3.Array("TAG", z3.IntSort(), z3.IntSort())
        self.STR = z3.Array("STR", z3.IntSort(), z3.StringSort())

    def params(self, ctx):
        ctx.ghost["pos"] = self.p0
        ctx.ghost["super_called_at"] = z3.IntVal(-1)
        ps = VObj(TObj("LexIterator", {}), {
            "next_tag": VFunc("next_tag", self.m_next_tag), "next_str_and_advance": VFunc("nsa", self.m_nsa),
            "expect": VFunc("expect", self.m_expect), "is_next": VFunc("is_next", self.m_is_next)})
        ctx.env["pstate"] = ps
        ctx.env["self"] = VObj(TObj("Parser", {}), {})

    def requires(self, st):
        return [("the-caller-checked-not-at-end", And(self.p0 >= 0, self.p0 < self.n))]

    def _tag_arg(self, ctx, args):
        a = ctx.deref(args[0])
        if not isinstance(a, VInt):
            raise Unsupported("lexer tag %r" % (a,))
        return a.t

    def m_next_tag(self, ctx, it, args, kw):
        if args or kw:
            raise Unsupported("next_tag with a look-ahead")
        p = ctx.ghost["pos"]
        if not ctx.branch(p < self.n, "next_tag-in-range"):
            ctx.raise_("IndexError")
        return VInt(z3.Select(self.TAG, p))

    def m_nsa(self, ctx, it, args, kw):
        p = ctx.ghost["pos"]
        if not ctx.branch(p < self.n, "next_str-in-range"):
            ctx.raise_("IndexError")
        ctx.ghost["pos"] = p + 1
        return VStr(z3.Select(self.STR, p))

    def m_expect(self, ctx, it, args, kw):
        t = self._tag_arg(ctx, args)
        p = ctx.ghost["pos"]
        if not ctx.branch(And(p < self.n, z3.Select(self.TAG, p) == t), "expect"):
            ctx.raise_("ParseError")
        return NONE

    def m_is_next(self, ctx, it, args, kw):
        if len(args) != 1 or kw:
            raise Unsupported("is_next with a look-ahead")
        t = self._tag_arg(ctx, args)
        p = ctx.ghost["pos"]
        return VBool(And(p < self.n, z3.Select(self.TAG, p) == t))

    def m_super(self, ctx, it, args, kw):
        a = ctx.deref(args[0]) if len(args) == 1 and not kw else None
        if not (isinstance(a, VObj) and a.ty.name == "LexIterator"):
            raise Unsupported("super().parse_terminal(%r)" % (args,))
        ctx.ghost["super_called_at"] = ctx.ghost["pos"]
        return VPy("<pymbolic parse_terminal(pstate)>")

    def m_variable(self, ctx, it, args, kw):
        a = ctx.deref(args[0]) if len(args) == 1 and not kw else None
        if not isinstance(a, VStr):
            raise Unsupported("Variable(%r)" % (args,))
        return VNode(z3.BoolVal(True), a.t)

    def getattr_hook(self, ctx, it, obj, name):
        o = ctx.deref(obj)
        if isinstance(o, VPy) and o.py == "primitives" and name == "Variable":
            return VFunc("Variable", self.m_variable)
        return None

    calls = property(lambda self: {"super().parse_terminal": self.m_super})

    @property
    def names(self):
        # every lexer tag the module imports from pymbolic.parser is a distinct interned string
        from pyvc import extract
        tree, _ = extract.parse_module(self.relpath)
        tags = dict(self.TAGS)
        for n in tree.body:
            if isinstance(n, pyast.ImportFrom) and n.module == "pymbolic.parser":
                for al in n.names:
                    nm = al.asname or al.name
                    if al.name.startswith("_") and al.name not in tags:
                        tags[nm] = 10 + sum(ord(c) * (i + 1) for i, c in enumerate(al.name))
                    elif al.name in self.TAGS:
                        tags[nm] = self.TAGS[al.name]
        return dict({k: VInt(z3.IntVal(v)) for k, v in tags.items()}, primitives=VPy("primitives"))

    def _tagged(self):
        T, p0 = self.TAG, self.p0
        return z3.Select(T, p0) == 1

    def ensures(self, st):
        T, S, p0, n = self.TAG, self.STR, self.p0, self.n
        pos = st.g("pos")
        r = st.result
        tagged = self._tagged()
        has_name = And(p0 + 3 < n, z3.Select(T, p0 + 3) == 2)
        base = z3.Concat(z3.Select(S, p0), z3.Select(S, p0 + 1), z3.Select(S, p0 + 2))
        if isinstance(r, VPy):
            return [("only-a-token-other-than-`<`-goes-to-pymbolic's-rule(with-the-lexer-where-it-was)",
                     And(Not(tagged), st.g("super_called_at") == p0, pos == p0))]
        if not isinstance(r, VNode):
            return [("returns-a-variable", z3.BoolVal(False))]
        return [("a-tagged-identifier-is-`<`-identifier-`>`", And(tagged, p0 + 2 < n, z3.Select(T, p0 + 1) == 2,
                                                                   z3.Select(T, p0 + 2) == 3)),
                ("the-name-part-is-taken-exactly-when-an-identifier-follows(no-keyword,-number-or-operator)",
                 pos == If(has_name, p0 + 4, p0 + 3)),
                ("the-variable's-name-is-the-text-of-exactly-the-consumed-tokens",
                 r.name == If(has_name, z3.Concat(base, z3.Select(S, p0 + 3)), base))]

    raises = property(lambda self: {"ParseError": lambda st: [
        ("ParseError-only-when-`<`-is-not-followed-by-identifier-`>`",
         And(self._tagged(), Not(And(self.p0 + 2 < self.n, z3.Select(self.TAG, self.p0 + 1) == 2,
                                     z3.Select(self.TAG, self.p0 + 2) == 3))))]})


def units():
    from pyvc.contracts import ClassShapeUnit
    return [FunctionUnit(RemoveBackticks()), FunctionUnit(ParseBody()), FunctionUnit(ParseTerminal()),
            ClassShapeUnit("dagrt/expression.py", "_ExtendedParser", {"parse_terminal", "lex_table"}, ["Parser"],
                           "the use of pymbolic's parser as it is, but for the terminal rule and the lexer table,")]


LEVEL = "exploration"
BOUNDED = {"quick": {"timeout_s": 90}, "thorough": {"timeout_s": 900}}
TRUSTED_BASE = ["A-SUBST: pymbolic SubstitutionMapper descends exactly when the substitution function returns None",
                "A-LEXSTATE: pytools.lex.LexIterator: next_tag() = tag at the position (IndexError at the end), next_str_and_advance() = text at the position, then position + 1, expect(t) raises ParseError unless the next tag is t, is_next(t) = not at the end and the next tag is t; lexer tags are interned strings (identity = equality)"]
ASSUMPTIONS = [
    "the round-trip contract parse(str(e)) == e (prints identically, same variables, same value under valuations) is only evaluated on enumerated / random expressions of the real dagrt.expression.parse and pymbolic's printer: bounded, never counted as proved",
    "only the backtick post-pass (parse.remove_backticks) and the body of parse (parser, then the post-pass, once) are under deductive contract; pymbolic's parser and SubstitutionMapper are uninterpreted there",
]
EXPLANATION = ("bounded contract check: exhaustive expressions to depth 2-3 over the property's operator set plus a random tail, "
               "evaluated with exact rational arithmetic; known printer / parser defects are listed by fingerprint. One function "
               "(the backtick substitution function) is proved against its contract with z3 strings.")
