"""C01 — statement-level translation validation of the Python generator's emitters (dagrt/codegen/python.py).

Each emit_inst_* / emit_if_* / emit_for_* / emit_else_begin / emit_return is executed with text tracked concretely:
`self._expr(e)` is the placeholder E_<e>, `self._name_manager[n]` the placeholder N_<n>, repr(x) the placeholder R_<x>;
the emitter records (indentation level, line).  The recorded lines, put into a function body, must parse to the same
Python syntax tree as the reference text of the statement (written below from exec_* of the interpreter: what the
written program does).  Relative to A-EXPR (the expression printer emits an expression with the value of e; names: C13)
and to wrap_line (layout only, C20).  Loop nests / subscripts / assignee tuples are emitted by loops over the
statement's fields: the contract runs every shape with 0, 1 and 2 elements (stated bound: the emitting loops are
uniform in the number of elements).
"""
import ast as pyast
import itertools
import z3
from pyvc.values import *  # noqa
from pyvc.contracts import FunctionContract, FunctionUnit, Unit
from pyvc.engine import Obligation
from pyvc import extract

REL = "dagrt/codegen/python.py"
B = z3.BoolVal


class VEmitter(V):
    ty = None

    def __init__(self):
        self.level = 0
        self.lines = []

    def call(self, ctx, it, args, kw):
        v = ctx.deref(args[0])
        if not (isinstance(v, VPy) and isinstance(v.py, str)):
            raise Unsupported("emitting %r" % (v,))
        self.lines.append((self.level, v.py))
        return NONE


class VInst(V):
    ty = None

    def __init__(self, fields):
        self.fields = fields


# constructors of the generated class's own event / exception types (python.py: _inner_class_code): a keyword argument means the
# same as the positional one, so both spellings are one statement
SIGNATURES = {"StateComputed": ["t", "time_id", "component_id", "state_component"],
              "StepCompleted": ["dt", "t", "current_phase", "next_phase"], "StepFailed": ["t"],
              "TransitionEvent": ["next_phase"], "StepError": ["condition", "message"]}


class _CanonicalCalls(pyast.NodeTransformer):
    def visit_Call(self, node):
        self.generic_visit(node)
        f = node.func
        name = f.attr if isinstance(f, pyast.Attribute) else f.id if isinstance(f, pyast.Name) else None
        sig = SIGNATURES.get(name)
        if sig and node.keywords and all(k.arg in sig for k in node.keywords) and not any(isinstance(a, pyast.Starred) for a in node.args):
            given = {sig[i]: a for i, a in enumerate(node.args) if i < len(sig)}
            if len(node.args) <= len(sig) and not (set(given) & {k.arg for k in node.keywords}):
                given.update({k.arg: k.value for k in node.keywords})
                if all(p in given for p in sig[:len(given)]):
                    node.args = [given[p] for p in sig[:len(given)]]
                    node.keywords = []
        return node


def _dump(tree):
    return pyast.dump(_CanonicalCalls().visit(tree))


def tree_of(lines, prefix=(), suffix=()):
    """parse `prefix + lines + suffix` as the body of a generator function; -> ast dump or an error string"""
    body = list(prefix) + list(lines) + list(suffix)
    src = ["def phase(self):"]
    # an open block at the end (emit_*_begin) gets a `pass`
    for k, (lvl, txt) in enumerate(body):
        if txt == "":
            continue
        src.append("    " * (lvl + 1) + txt)
        nxt = next(((l2, t2) for l2, t2 in body[k + 1:] if t2 != ""), None)
        if txt.rstrip().endswith(":") and (nxt is None or nxt[0] <= lvl):
            src.append("    " * (lvl + 2) + "pass")
    if len(src) == 1:
        src.append("    pass")
    try:
        return _dump(pyast.parse("\n".join(src)))
    except SyntaxError as ex:
        return "SyntaxError: %s in %r" % (ex, src)


class EmitContract(FunctionContract):
    prop = "C01"
    relpath = REL
    concrete_fstrings = True

    def __init__(self, method, config, expected, prefix=(), suffix=(), level0=0, end_level=None):
        self.method = method
        self.qualname = "CodeGenerator." + method
        self.config = config            # dict: shape of the statement / flags
        self.expected = expected        # [(level, text)] reference text
        self.prefix, self.suffix = prefix, suffix
        self.level0 = level0
        self.end_level = end_level if end_level is not None else level0
        self.variant_name = ",".join("%s=%s" % kv for kv in sorted(config.items())) if config else ""

    # ---- values ---------------------------------------------------------------------------------------------------
    def params(self, ctx):
        self.em = VEmitter()
        self.em.level = self.level0
        c = self.config
        ctx.env["self"] = VObj(TObj("CodeGenerator", {}), {
            "_emitter": self.em, "_has_yield_inst": VBool(bool(c.get("has_yield", True))),
            "_name_manager": VNames(), "_emit": VFunc("_emit", self.m_emit), "_expr": VFunc("_expr", self.m_expr),
            "_expr_mapper": VExprMapper()})
        k, j, n = c.get("loops", 0), c.get("subs", 0), c.get("assignees", 0)
        ctx.env["inst"] = VInst({
            "loops": VTuple([VTuple([VPy("ident%d" % i), VPy("start%d" % i), VPy("stop%d" % i)]) for i in range(k)]),
            "assignee_subscript": VTuple([VPy("sub%d" % i) for i in range(j)]),
            "assignee": VPy("assignee"), "expression": VPy("expression"),
            "assignees": VTuple([VPy("asg%d" % i) for i in range(n)]),
            "function_id": VPy("function_id"), "parameters": VPy("parameters"), "kw_parameters": VPy("kw_parameters"),
            "time": VPy("time"), "time_id": VPy("time_id"), "component_id": VPy("component_id"),
            "error_condition": VObj(TObj("cls", {}), {"__name__": VPy("error_condition.__name__")}),
            "error_message": VPy("error_message"), "next_phase": VPy("NEXTPHASE")})
        for a in ("expr", "loop_var_name", "lbound", "ubound"):
            ctx.env[a] = VPy(a)

    def m_emit(self, ctx, it, args, kw):
        v = ctx.deref(args[0])
        if not (isinstance(v, VPy) and isinstance(v.py, str)):
            raise Unsupported("emitting %r" % (v,))
        self.em.lines.append((self.em.level, v.py))
        return NONE

    def m_expr(self, ctx, it, args, kw):
        v = ctx.deref(args[0])
        return VPy("E_%s" % getattr(v, "py", "?"))

    def getattr_hook(self, ctx, it, obj, name):
        o = ctx.deref(obj)
        if isinstance(o, VInst):
            if name in o.fields:
                return o.fields[name]
            raise Unsupported("inst.%s" % name)
        if isinstance(o, VEmitter):
            if name == "indent":
                return VFunc("indent", lambda ctx, it, a, k: (setattr(o, "level", o.level + 1), NONE)[1])
            if name == "dedent":
                return VFunc("dedent", lambda ctx, it, a, k: (setattr(o, "level", o.level - 1), NONE)[1])
            if name == "level":
                return VInt(o.level)
        if isinstance(o, VPy) and isinstance(o.py, str):
            if name == "format":
                def fmt(ctx, it, a, k):
                    kws = {n: ctx.deref(v) for n, v in k.items()}
                    pos = [ctx.deref(v) for v in a]
                    if not all(isinstance(v, VPy) and isinstance(v.py, str) for v in list(kws.values()) + pos):
                        raise Unsupported("format(%r)" % (kws,))
                    return VPy(o.py.format(*[v.py for v in pos], **{n: v.py for n, v in kws.items()}))
                return VFunc("format", fmt)
            if name == "join":
                def join(ctx, it, a, k):
                    xs = ctx.deref(a[0])
                    if not (isinstance(xs, VTuple) and all(isinstance(ctx.deref(x), VPy) for x in xs.items)):
                        raise Unsupported("join(%r)" % (xs,))
                    return VPy(o.py.join(ctx.deref(x).py for x in xs.items))
                return VFunc("join", join)
        if isinstance(o, VExprMapper) and name == "map_generic_call":
            return VFunc(name, lambda ctx, it, a, k: VPy("CALL(%s)" % ", ".join(
                getattr(ctx.deref(x), "py", "?") if not isinstance(ctx.deref(x), VPy) or not str(ctx.deref(x).py).startswith("var:")
                else ctx.deref(x).py[4:] for x in a)))
        return None

    def schema(self, ctx, it, e):
        """(f(x) for x in <tuple>): element-wise over a concrete tuple"""
        gen = e.generators[0]
        src = ctx.deref(it.eval(gen.iter))
        if not (len(e.generators) == 1 and not gen.ifs and isinstance(src, VTuple)):
            raise Unsupported("comprehension %s" % pyast.unparse(e))
        out = []
        saved = dict(ctx.env)
        try:
            for x in src.items:
                it.assign(gen.target, x)
                out.append(ctx.deref(it.eval(e.elt)))
        finally:
            ctx.env = saved
        return VTuple(out)

    @property
    def comprehensions(self):
        from .c16 import _comprehensions_of
        return {pyast.unparse(c): self.schema for c in _comprehensions_of(REL, self.qualname)}

    def binop_hook(self, ctx, it, op_, a, b):
        if isinstance(a, VPy) and isinstance(a.py, str):
            if op_ is pyast.Add and isinstance(b, VPy) and isinstance(b.py, str):
                return VPy(a.py + b.py)
            if op_ is pyast.Mod and isinstance(b, VPy) and isinstance(b.py, str):
                return VPy(a.py % b.py)
            if op_ is pyast.Mod and isinstance(b, VTuple):
                return VPy(a.py % tuple(ctx.deref(x).py for x in b.items))
        return None

    def compare_hook(self, ctx, it, op_, a, b, node):
        if isinstance(op_, (pyast.In, pyast.NotIn)) and isinstance(a, VPy) and isinstance(b, VPy):
            r = B(a.py in b.py)
            return z3.Not(r) if isinstance(op_, pyast.NotIn) else r
        return None

    def m_len(self, ctx, it, args, kw):
        v = ctx.deref(args[0])
        if isinstance(v, VTuple):
            return VInt(len(v.items))
        raise Unsupported("len(%r)" % (v,))

    names = property(lambda self: {
        "repr": VFunc("repr", lambda ctx, it, a, k: VPy("R_%s" % getattr(ctx.deref(a[0]), "py", "?"))),
        "len": VFunc("len", self.m_len),
        "var": VFunc("var", lambda ctx, it, a, k: VPy("var:%s" % getattr(ctx.deref(a[0]), "py", "?")))})

    raises = {}

    def ensures(self, st):
        got = tree_of(self.em.lines, self.prefix, self.suffix)
        want = tree_of(self.expected, self.prefix, self.suffix)
        return [("emitted-text-parses-to-the-reference-statement", B(got == want and not got.startswith("SyntaxError"))),
                ("indentation-is-left-at-the-expected-level", B(self.em.level == self.end_level))]


class VNames(V):
    ty = None

    def getitem(self, it, idx, node):
        return VPy("N_%s" % getattr(it.ctx.deref(idx), "py", "?"))


class VExprMapper(V):
    ty = None


def _truth_tuple(self, it):
    return B(len(self.items) > 0)


if not hasattr(VTuple, "truth"):
    VTuple.truth = _truth_tuple


# ---- reference texts (what exec_* of the interpreter does, as Python) ---------------------------------------------------
def ref_assign(k, j):
    lines = []
    for i in range(k):
        lines.append((i, "for N_ident%d in range(E_start%d, E_stop%d):" % (i, i, i)))
    sub = "[%s]" % ", ".join("E_sub%d" % i for i in range(j)) if j else ""
    lines.append((k, "N_assignee%s = E_expression" % sub))
    for i in range(k):
        lines.append((0, "del N_ident%d" % i))            # loop counters are per-statement temporaries
    return lines


def ref_call(n):
    lhs = (", ".join("N_asg%d" % i for i in range(n)) + " = ") if n else ""
    return [(0, lhs + "CALL(function_id, parameters, kw_parameters)")]


def with_generator_marker(lines, has_yield):
    # a phase function without any yield statement still has to be a generator: an unreachable `yield` follows
    return lines + ([] if has_yield else [(0, "yield")])


def units():
    us = []
    for k, j in itertools.product((0, 1, 2), (0, 1, 2)):
        us.append(FunctionUnit(EmitContract("emit_inst_Assign", {"loops": k, "subs": j}, ref_assign(k, j))))
    for n in (0, 1, 2):
        us.append(FunctionUnit(EmitContract("emit_inst_AssignFunctionCall", {"assignees": n}, ref_call(n))))
    us.append(FunctionUnit(EmitContract(
        "emit_inst_YieldState", {},
        [(0, "yield self.StateComputed(t=E_time, time_id=R_time_id, component_id=R_component_id, state_component=E_expression)")])))
    for hy in (True, False):
        us.append(FunctionUnit(EmitContract("emit_inst_Raise", {"has_yield": hy}, with_generator_marker(
            [(0, "raise self.StepError(R_error_condition.__name__, R_error_message)")], hy))))
        us.append(FunctionUnit(EmitContract("emit_inst_FailStep", {"has_yield": hy}, with_generator_marker(
            [(0, "raise self.FailStepException()")], hy))))
        us.append(FunctionUnit(EmitContract("emit_inst_SwitchPhase", {"has_yield": hy}, with_generator_marker(
            [(0, 'raise self.TransitionEvent("NEXTPHASE")')], hy))))
        us.append(FunctionUnit(EmitContract("emit_return", {"has_yield": hy}, with_generator_marker([(0, "return")], hy))))
    us.append(FunctionUnit(EmitContract("emit_if_begin", {}, [(0, "if E_expr:")], end_level=1)))
    us.append(FunctionUnit(EmitContract("emit_if_end", {}, [], prefix=[(0, "if X:"), (1, "pass")], level0=1, end_level=0)))
    us.append(FunctionUnit(EmitContract("emit_else_begin", {}, [(0, "else:")], prefix=[(0, "if X:"), (1, "pass")], level0=1, end_level=1)))
    us.append(FunctionUnit(EmitContract("emit_for_begin", {}, [(0, "for N_loop_var_name in range(E_lbound, E_ubound):")], end_level=1)))
    us.append(FunctionUnit(EmitContract("emit_for_end", {}, [], prefix=[(0, "for i in X:"), (1, "pass")], level0=1, end_level=0)))
    return us + expr_units()


# ---- the expression printer's own methods (dagrt/codegen/expressions.py: PythonExpressionMapper) ----------------------------
EXPR_REL = "dagrt/codegen/expressions.py"


class VKwargs(V):
    ty = None

    def __init__(self, items):
        self.items = items      # [(name, value tag)]


class VPyDict(V):
    ty = None

    def __init__(self):
        self.d = {}

    def setitem(self, it, idx, v, node):
        k = it.ctx.deref(idx)
        key = k.t.as_long() if isinstance(k, VInt) and z3.is_int_value(z3.simplify(k.t)) else getattr(k, "py", "?")
        self.d[key] = getattr(it.ctx.deref(v), "py", "?")
        return NONE


def expr_tree(text):
    try:
        return pyast.dump(pyast.parse(text, mode="eval"))
    except SyntaxError as ex:
        return "SyntaxError: %s in %r" % (ex, text)


class ExprEmit(FunctionContract):
    """one method of PythonExpressionMapper: the text it returns parses to the reference expression; sub-expressions are
    printed through self.rec (placeholder E_<child>) with the precedence the reference demands"""
    prop = "C01"
    relpath = EXPR_REL
    concrete_fstrings = True
    exc_hierarchy = {"FunctionNotFound": ["Exception"]}

    def __init__(self, method, config, expected):
        self.method = method
        self.qualname = "PythonExpressionMapper." + method
        self.config = config
        self.expected = expected         # reference text, or ("delegates", what)
        self.variant_name = ",".join("%s=%s" % kv for kv in sorted(config.items())) if config else ""

    def params(self, ctx):
        c = self.config
        self.recs = []
        self.delegated = None
        self.codegen_got = None
        npos, nkw = c.get("args", 0), c.get("kwargs", 0)
        ctx.env["self"] = VObj(TObj("Mapper", {}), {
            "_name_manager": VNameMgr(), "_function_registry": VRegistry2(self, bool(c.get("registered", False))),
            "_numpy": VPy("NUMPY"),
            "rec": VFunc("rec", self.m_rec), "map_generic_call": VFunc("map_generic_call", self.m_delegate),
            "parenthesize_if_needed": VFunc("parenthesize_if_needed", self.m_paren)})
        ctx.env["expr"] = VExprNode(c.get("name", "x"))
        if "elements" in c:
            # a one-dimensional numpy array constant of that many entries (iterated entry by entry; .shape is (n,))
            ctx.env["expr"] = VArrayConst([VPy("e%d" % i) for i in range(c["elements"])])
        ctx.env["enclosing_prec"] = VPy("enclosing_prec")
        ctx.env["symbol"] = VObj(TObj("sym", {}), {"name": VPy("symbolname")})
        ctx.env["args"] = VTuple([VPy("a%d" % i) for i in range(npos)])
        ctx.env["kwargs"] = VKwargs([("kw%d" % i, VPy("k%d" % i)) for i in range(nkw)])

    def m_rec(self, ctx, it, args, kw):
        a = [ctx.deref(x) for x in args]
        self.recs.append((getattr(a[0], "py", "?"), tuple(getattr(x, "py", "?") for x in a[1:])))
        return VPy("E_%s" % str(getattr(a[0], "py", "?")).replace(".", "_"))

    def m_delegate(self, ctx, it, args, kw):
        a = [ctx.deref(x) for x in args]
        self.delegated = tuple(getattr(x, "py", "{}" if isinstance(x, VPyDict) and not x.d else "?") for x in a)
        return VPy("<text of map_generic_call>")

    def m_paren(self, ctx, it, args, kw):
        a = [ctx.deref(x) for x in args]
        self.paren = tuple(getattr(x, "py", "?") for x in a[1:])
        return a[0]

    def getattr_hook(self, ctx, it, obj, name):
        o = ctx.deref(obj)
        if isinstance(o, VArrayConst) and name == "shape":
            return VTuple([VInt(len(o.items))])
        if isinstance(o, VExprNode):
            if name == "name":
                return VPy(o.name)
            return VPy("expr.%s" % name)
        if isinstance(o, VKwargs) and name == "items":
            return VFunc("items", lambda ctx, it, a, k: VTuple([VTuple([VPy(n), v]) for n, v in o.items]))
        if isinstance(o, VNameMgr) and name == "name_function":
            return VFunc(name, lambda ctx, it, a, k: VPy("F_FUNC" if str(getattr(ctx.deref(a[0]), "py", "?")).startswith("<func>")
                                                        else "F_%s" % getattr(ctx.deref(a[0]), "py", "?")))
        if isinstance(o, VRegistry2) and name == "get_codegen":
            return VFunc(name, o.get_codegen)
        if isinstance(o, VPy) and isinstance(o.py, str):
            if name == "startswith":
                return VFunc(name, lambda ctx, it, a, k: VBool(o.py.startswith(ctx.deref(a[0]).py)))
            return EmitContract.getattr_hook(self, ctx, it, obj, name)
        return None

    def dict_literal(self, ctx, it, e):
        if e.keys:
            raise Unsupported("dict literal")
        return VPyDict()

    def m_enumerate(self, ctx, it, args, kw):
        v = ctx.deref(args[0])
        if not isinstance(v, VTuple):
            raise Unsupported("enumerate(%r)" % (v,))
        return VTuple([VTuple([VInt(i), x]) for i, x in enumerate(v.items)])

    schema = EmitContract.schema

    def binop_hook(self, ctx, it, op_, a, b):
        if op_ is pyast.Add and isinstance(a, VTuple) and isinstance(b, VTuple):
            return VTuple(list(a.items) + list(b.items))          # list + list of concrete texts
        return EmitContract.binop_hook(self, ctx, it, op_, a, b)

    @property
    def comprehensions(self):
        from .c16 import _comprehensions_of
        return {pyast.unparse(c): self.schema for c in _comprehensions_of(EXPR_REL, self.qualname)}

    def list_binop(self, a, b):
        return None

    names = property(lambda self: {"enumerate": VFunc("enumerate", self.m_enumerate), "PREC_NONE": VPy("PREC_NONE"),
                                   "PREC_LOGICAL_OR": VPy("PREC_LOGICAL_OR"), "PREC_IFTHENELSE": VPy("PREC_IFTHENELSE"),
                                   "FunctionNotFound": VClass("FunctionNotFound")})

    def ensures(self, st):
        r = st.result
        text = getattr(r, "py", None)
        exp = self.expected
        if isinstance(exp, tuple) and exp[0] == "delegates":
            return [("delegates-to-map_generic_call-with-function-parameters-and-keyword-parameters",
                     B(self.delegated == exp[1] and text == "<text of map_generic_call>"))]
        if isinstance(exp, tuple) and exp[0] == "codegen":
            return [("a-registered-function's-own-generator-gets-every-argument-text-by-position-and-by-name",
                     B(text == "<text of the registered generator>" and self.codegen_got == exp[1]))]
        out = [("returned-text-parses-to-the-reference-expression",
                B(isinstance(text, str) and expr_tree(text) == expr_tree(exp) and not expr_tree(text).startswith("SyntaxError")))]
        if self.method == "map_if":
            out.append(("branches-and-condition-are-printed-so-that-a-nested-conditional-gets-parentheses",
                        B(sorted(self.recs) == sorted([("expr.then", ("PREC_LOGICAL_OR",)), ("expr.condition", ("PREC_LOGICAL_OR",)),
                                                       ("expr.else_", ("PREC_LOGICAL_OR",))])
                          and getattr(self, "paren", None) == ("enclosing_prec", "PREC_IFTHENELSE"))))
        return out


class VArrayConst(VTuple):
    """a one-dimensional array constant: iterates over its entries"""


class VExprNode(V):
    ty = None

    def __init__(self, name):
        self.name = name


class VNameMgr(V):
    ty = None

    def getitem(self, it, idx, node):
        return VPy("N_%s" % getattr(it.ctx.deref(idx), "py", "?"))


class VRegistry2(V):
    ty = None

    def __init__(self, contract, registered):
        self.c, self.registered = contract, registered

    def get_codegen(self, ctx, it, args, kw):
        a = [getattr(ctx.deref(x), "py", "?") for x in args]
        if a != ["symbolname", "python"]:
            raise Unsupported("get_codegen(%r)" % (a,))
        if not self.registered:
            ctx.raise_("FunctionNotFound")

        def gen(ctx, it, a2, k2):
            d = ctx.deref(a2[1])
            self.c.codegen_got = dict(d.d) if isinstance(d, VPyDict) else None
            return VPy("<text of the registered generator>")
        return VFunc("codegen", gen)


def _list_add(self, it, op_, other, node):
    return None


class ConstEmit(FunctionContract):
    """PythonExpressionMapper.map_constant: the text is repr() of the PYTHON number the constant denotes (a numpy scalar is
    converted with .item() first: the repr of a numpy scalar, 'np.float64(1.5)', is not a number literal), wrapped as
    float('...') exactly for non-finite floats (inf and nan are not literals either).  One variant per kind of constant."""
    prop = "C01"
    relpath = EXPR_REL
    qualname = "PythonExpressionMapper.map_constant"

    def __init__(self, numpy_scalar, floating, nonfinite):
        self.numpy_scalar, self.floating, self.nonfinite = numpy_scalar, floating, nonfinite
        self.variant_name = "%s,%s,%s" % ("numpy-scalar" if numpy_scalar else "python-number", "float" if floating else "not-a-float",
                                          "non-finite" if nonfinite else "finite")

    class VConst(V):
        ty = None

        def __init__(self, tag, numpy_scalar):
            self.tag, self.numpy_scalar = tag, numpy_scalar

    def params(self, ctx):
        ctx.env["self"] = VObj(TObj("Mapper", {}), {})
        ctx.env["expr"] = self.VConst("the constant", self.numpy_scalar)
        ctx.env["args"] = VTuple([])

    def isinstance_hook(self, ctx, it, obj, names):
        o = ctx.deref(obj)
        if not isinstance(o, self.VConst):
            return None
        table = {"np.generic": o.numpy_scalar, "numpy.generic": o.numpy_scalar,
                 "float": self.floating and not o.numpy_scalar, "np.number": o.numpy_scalar, "numpy.number": o.numpy_scalar,
                 "np.floating": self.floating and o.numpy_scalar}
        if all(n in table for n in names):
            return VBool(B(any(table[n] for n in names)))
        return None

    def getattr_hook(self, ctx, it, obj, name):
        o = ctx.deref(obj)
        if isinstance(o, self.VConst) and name == "item":
            if not o.numpy_scalar:
                ctx.raise_("AttributeError")
            return VFunc("item", lambda ctx, it, a, k: self.VConst("its Python value", False))
        if isinstance(o, VPy) and o.py in ("np", "numpy"):
            if name in ("isinf", "isnan"):
                # asked of a number that is not a float (an int, a complex): answered for the real part; not modelled
                def test(ctx, it, a, k, name=name):
                    v = ctx.deref(a[0])
                    if not isinstance(v, self.VConst):
                        raise Unsupported("np.%s(%r)" % (name, v))
                    if not self.floating:
                        raise Unsupported("np.%s of a constant that is not a float" % name)
                    return VBool(B(self.nonfinite)) if name == "isinf" else VBool(B(False))
                return VFunc(name, test)
            return VClass("np." + name)
        return None

    def m_repr(self, ctx, it, args, kw):
        v = ctx.deref(args[0])
        if not isinstance(v, self.VConst):
            raise Unsupported("repr(%r)" % (v,))
        return VPy("REPR(%s)" % ("numpy scalar" if v.numpy_scalar else "python number"))

    def binop_hook(self, ctx, it, op_, a, b):
        if op_ is pyast.Add and isinstance(a, VPy) and isinstance(b, VPy) and isinstance(a.py, str) and isinstance(b.py, str):
            return VPy(a.py + b.py)
        return None

    names = property(lambda self: {"repr": VFunc("repr", self.m_repr), "np": VPy("np"), "numpy": VPy("numpy")})

    def ensures(self, st):
        text = getattr(st._deref(st.result), "py", None)
        want = "REPR(python number)"
        if self.floating and self.nonfinite:
            want = "float('" + want + "')"
        return [("the-text-is-repr-of-the-Python-number(float('...')-exactly-for-a-non-finite-float)", B(text == want))]


class BuiltinPatterns(Unit):
    """function_registry._make_bfr: the Python text pattern of every built-in.  The generated class embeds the source of
    dagrt/builtins_python.py itself (every `builtin_x` becomes the static method `_builtin_x`), so a pattern
    'self._builtin_<name>({args})' calls the interpreter's own implementation by construction.  An inlined pattern
    ('{numpy}.abs({args})') must parse, with {numpy} -> np and {args} -> the implementation's parameters, to exactly the
    expression the one-line implementation returns.  Any other pattern cannot be related to the implementation here:
    undecided."""
    label = "builtin-patterns:dagrt/function_registry.py:_make_bfr"

    def generate(self):
        reg, _ = extract.parse_module("dagrt/function_registry.py")
        imp, _ = extract.parse_module("dagrt/builtins_python.py")
        impls = {n.name: n for n in imp.body if isinstance(n, pyast.FunctionDef)}
        classes = {n.name: n for n in reg.body if isinstance(n, pyast.ClassDef)}

        def ident_of(cls):
            while cls in classes:
                for st in classes[cls].body:
                    if isinstance(st, pyast.Assign) and any(isinstance(t, pyast.Name) and t.id == "identifier" for t in st.targets) \
                            and isinstance(st.value, pyast.Constant):
                        return st.value.value
                bases = [b.id for b in classes[cls].bases if isinstance(b, pyast.Name)]
                cls = bases[0] if bases else None
            return None
        fn = [n for n in reg.body if isinstance(n, pyast.FunctionDef) and n.name == "_make_bfr"]
        if not fn:
            raise Unsupported("_make_bfr not found")
        pairs = []
        for node in pyast.walk(fn[0]):
            if isinstance(node, pyast.For) and isinstance(node.iter, pyast.List):
                for el in node.iter.elts:
                    if isinstance(el, pyast.Tuple) and len(el.elts) == 2 and isinstance(el.elts[0], pyast.Call) \
                            and isinstance(el.elts[0].func, pyast.Name) and isinstance(el.elts[1], pyast.Constant):
                        pairs.append((el.elts[0].func.id, el.elts[1].value, el.lineno))
                    else:
                        raise Unsupported("_make_bfr: a table entry that is not (Class(), 'pattern')")
        if len(pairs) < 10:
            raise Unsupported("_make_bfr: table of (function, pattern) pairs not found")
        obs = []
        for cls, pat, line in pairs:
            ident = ident_of(cls)
            if not ident or not ident.startswith("<builtin>"):
                raise Unsupported("identifier of %s" % cls)
            name = ident[len("<builtin>"):]
            impl = impls.get("builtin_" + name)
            if impl is None:
                raise Unsupported("no implementation builtin_%s in builtins_python.py" % name)
            if pat == "self._builtin_%s({args})" % name:
                why = "calls the embedded copy of builtins_python.builtin_%s" % name
            else:
                body = [st for st in impl.body if not isinstance(st, (pyast.Import, pyast.ImportFrom))]
                params = ", ".join(a.arg for a in impl.args.args)
                try:
                    got = pyast.dump(pyast.parse(pat.format(numpy="np", args=params), mode="eval").body)
                except Exception as ex:
                    raise Unsupported("pattern of %s does not parse: %s" % (ident, ex))
                if not (len(body) == 1 and isinstance(body[0], pyast.Return) and body[0].value is not None
                        and pyast.dump(body[0].value) == got):
                    raise Unsupported("the pattern %r of %s is neither a call of the embedded implementation nor the expression "
                                      "builtins_python.builtin_%s returns" % (pat, ident, name))
                why = "is the expression builtins_python.builtin_%s returns" % name
            ob = Obligation("%s/%s-generated-text-is-the-interpreter's-implementation" % (self.label, name), [], z3.BoolVal(True), line=line)
            ob.external = {"ok": True, "seconds": 0.0, "backend": "ast comparison", "output": "%r %s" % (pat, why)}
            obs.append(ob)
        return [], obs, {"patterns": len(pairs)}


def expr_units():
    us = [FunctionUnit(ExprEmit("map_variable", {"name": "y"}, "N_y")),
          FunctionUnit(ExprEmit("map_variable", {"name": "<func>f"}, "F__func_f".replace("F__func_f", "F_FUNC"))),
          FunctionUnit(ExprEmit("map_call", {}, ("delegates", ("expr.function", "expr.parameters", "{}")))),
          FunctionUnit(ExprEmit("map_call_with_kwargs", {}, ("delegates", ("expr.function", "expr.parameters", "expr.kw_parameters")))),
          FunctionUnit(ExprEmit("map_if", {}, "E_expr.then if E_expr.condition else E_expr.else_".replace("expr.", "expr_")))]
    for npy, fl, nf in ((False, False, False), (False, True, False), (False, True, True), (True, False, False), (True, True, False),
                        (True, True, True)):
        us.append(FunctionUnit(ConstEmit(npy, fl, nf)))
    us.append(BuiltinPatterns())
    # an array constant is an OBJECT array, as the interpreter's is: entries keep their own types (an int array would truncate a
    # later store of a fraction)
    for n in (1, 2, 3):
        us.append(FunctionUnit(ExprEmit("map_numpy_array", {"elements": n},
                                        "NUMPY.array([%s], dtype='object')" % ", ".join("E_e%d" % i for i in range(n)))))
    for n, m in itertools.product((0, 1, 2), (0, 1, 2)):
        args = ["E_a%d" % i for i in range(n)] + ["kw%d=E_k%d" % (i, i) for i in range(m)]
        us.append(FunctionUnit(ExprEmit("map_generic_call", {"args": n, "kwargs": m, "registered": False},
                                        "F_symbolname(%s)" % ", ".join(args))))
        want = {i: "E_a%d" % i for i in range(n)}
        want.update({"kw%d" % i: "E_k%d" % i for i in range(m)})
        us.append(FunctionUnit(ExprEmit("map_generic_call", {"args": n, "kwargs": m, "registered": True}, ("codegen", want))))
    return us
