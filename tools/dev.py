#!/usr/bin/env python3-vt
"""dev: tools/dev.py <mod> [unit-substring] [--timeout ms] — list undischarged obligations"""
import sys, time, importlib, traceback
sys.path.insert(0, "/verif")
from pyvc import solve
mod = importlib.import_module("contracts." + sys.argv[1].lower())
flt = sys.argv[2] if len(sys.argv) > 2 and not sys.argv[2].startswith("--") else ""
tmo = int(sys.argv[sys.argv.index("--timeout") + 1]) if "--timeout" in sys.argv else 5000
t = time.time()
groups = []
for u in mod.units():
    if flt not in u.label:
        continue
    try:
        ax, obs, info = u.generate()
    except Exception:
        print("GENERATE FAILED", u.label); traceback.print_exc(); continue
    print(u.label, "paths", info.get("paths"), "exits", info.get("exits"), "obligations", len(obs), "%.1fs" % (time.time() - t))
    groups.append((ax, obs))
res = solve.discharge(groups, timeout_ms=tmo, use_cvc5="--cvc5" in sys.argv)
bad = [r for r in res if r.status != "unsat"]
for r in bad:
    print("  %-8s %s  L%s  %.2fs" % (r.status, r.name, r.line, r.seconds))
    if "--model" in sys.argv and r.model:
        print(r.model[:1500])
print("%d obligations, %d discharged, %.1fs" % (len(res), len(res) - len(bad), time.time() - t))
