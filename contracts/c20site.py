"""C20, the Fortran emitter's use of wrap_line: dagrt/codegen/fortran.py: CodeGenerator.get_code.

The Fortran generator collects unwrapped lines in its module emitter and wraps them all at the end.  For every collected
line L = B + R (B the leading blanks, R the rest, which does not start with a blank):

  * R starts with "!" (a comment): L is output exactly once, unchanged, and never reaches wrap_line (a wrapped comment's
    continuation lines would not be comments);
  * otherwise R reaches wrap_line unchanged, with the wrapper's own width (no width argument), and every wrapped line is output
    exactly once, in order, behind a prefix of blanks that is no longer than level * indentation (the room wrap_line_base
    leaves for it: WrapLine proves len(level * indentation) + len(wrapped line) <= width for lines of several tokens);
  * nothing else is output, the lines come in the order of the collected lines, and the result joins them with "\n".

wrap_line is uninterpreted here (its contract is WrapBinding + WrapLine + PadContract).  The str methods used are modelled
from their definitions: s.lstrip(" ") is the R of the unique decomposition s = B + R, n * s has length max(n, 0) * len(s) and
consists of blanks if s does, a // b for a concrete positive b is floor division."""
import ast as pyast
import z3
from z3 import And, Or, Not, Implies, If, Select, Length, PrefixOf, InRe, Star, Re, Concat, StringVal, IntVal, BoolVal

from pyvc.values import *  # noqa
from pyvc.contracts import FunctionContract, FunctionUnit

PROP = "C20"
STRLIST = TList(STR)
BLANKS = Star(Re(StringVal(" ")))

S = z3.StringSort()
BL = z3.Function("leading_blanks", S, S)
RS = z3.Function("after_leading_blanks", S, S)
WN = z3.Function("wrap_line_count", S, z3.IntSort(), S, z3.IntSort())
WA = z3.Function("wrap_line_lines", S, z3.IntSort(), S, STRLIST.asort)


def decomposition(s):
    """s = BL(s) + RS(s), BL(s) blanks, RS(s) not starting with a blank: the facts that define both"""
    return And(s == Concat(BL(s), RS(s)), InRe(BL(s), BLANKS), Not(PrefixOf(StringVal(" "), RS(s))),
               Length(s) == Length(BL(s)) + Length(RS(s)))


class VOut(V):
    """wrapped_lines: every append is checked against the clauses above (ghosts started / k / curN / curW / curRoom)"""
    ty = None

    def fresh_like(self, ctx, base):
        return self


class VJoined(V):
    ty = None

    def __init__(self, sep, what):
        self.sep, self.what = sep, what


def _split_prefix(t):
    """a witness for `item = X + w`: the operands of a two-part concatenation, else X = "" """
    if z3.is_app(t) and t.decl().kind() == z3.Z3_OP_SEQ_CONCAT and t.num_args() == 2:
        return t.arg(0), t.arg(1)
    return StringVal(""), t


def _out_append(ctx, it, obj, args, kw):
    c = it.c
    if len(args) != 1 or kw:
        raise Unsupported("append(%r, %r)" % (args, kw))
    item = ctx.deref(args[0])
    if not isinstance(item, VStr):
        raise Unsupported("appending %r to the wrapped lines" % (item,))
    ex = getattr(ctx, "loop_extra", {}).get(0)
    if not ex or "$i" not in ex:
        raise Unsupported("a line is output outside the loop over the collected lines")
    i = ex["$i"].t
    L = Select(c.code.a, i)
    g = ctx.ghost
    started, k, curN, curW, room = g["started"], g["k"], g["curN"], g["curW"], g["curRoom"]
    X, w = _split_prefix(item.t)
    in_range = And(i >= 0, i < c.code.n)
    is_c = And(in_range, PrefixOf(StringVal("!"), RS(L)), item.t == L, started == i)
    is_w = And(in_range, started == i + 1, g["wrapped"], k >= 0, k < curN, w == Select(curW, k), InRe(X, BLANKS), Length(X) <= room)
    ctx.assume(decomposition(L))
    ctx.oblige(it.oname("an-output-line-is-a-comment-line-unchanged-or-the-next-wrapped-line-behind-blanks-that-fit"),
               Or(is_c, is_w))
    g["started"] = If(is_c, i + 1, started)
    g["k"] = If(is_c, IntVal(1), k + 1)
    g["curN"] = If(is_c, IntVal(1), curN)
    g["wrapped"] = If(is_c, BoolVal(False), g["wrapped"])
    return NONE


VOut.methods = {"append": _out_append}


class FortranGetCodeSite(FunctionContract):
    prop = PROP
    relpath = "dagrt/codegen/fortran.py"
    qualname = "CodeGenerator.get_code"
    strings_symbolic = True

    def __init__(self):
        self.code = VList(STRLIST, z3.Int("n_collected_lines"), z3.Const("collected_lines", STRLIST.asort))
        self.pre_n = z3.Int("n_preamble_lines")
        self.out = None

    def params(self, ctx):
        pre = VList(STRLIST, self.pre_n, z3.Const("preamble_lines", STRLIST.asort))
        em = VObj(TObj("FortranEmitter", {}), {"preamble": pre, "code": self.code})
        ctx.env["self"] = VObj(TObj("CodeGenerator", {}), {"module_emitter": em})
        self.out = None

    def ghosts(self, ctx):
        ctx.ghost["started"] = IntVal(0)        # collected lines whose output has begun
        ctx.ghost["k"] = IntVal(0)              # output lines of the line begun last
        ctx.ghost["curN"] = IntVal(0)           # how many it must give
        ctx.ghost["curW"] = z3.K(z3.IntSort(), StringVal(""))
        ctx.ghost["curRoom"] = IntVal(0)
        ctx.ghost["wrapped"] = BoolVal(False)

    def requires(self, st):
        return [("lengths", And(self.code.n >= 0, self.pre_n >= 0)),
                ("the-module-emitter-has-no-preamble(asserted-by-get_code)", self.pre_n == 0)]

    # ---- modelled operations ---------------------------------------------------------------------------------------
    def m_lstrip(self, o):
        def f(ctx, it, args, kw):
            a = ctx.deref(args[0]) if len(args) == 1 and not kw else None
            if not (isinstance(a, VStr) and z3.is_string_value(z3.simplify(a.t)) and z3.simplify(a.t).as_string() == " "):
                raise Unsupported("lstrip(%r): only lstrip(' ') is modelled" % (args,))
            ctx.assume(decomposition(o.t))
            return VStr(RS(o.t))
        return f

    def m_join(self, sep):
        def f(ctx, it, args, kw):
            a = ctx.deref(args[0]) if len(args) == 1 and not kw else None
            if not isinstance(a, VOut):
                raise Unsupported("join(%r)" % (args,))
            return VJoined(sep.t, a)
        return f

    def getattr_hook(self, ctx, it, obj, name):
        o = ctx.deref(obj)
        if isinstance(o, VStr) and name == "lstrip":
            return VFunc("lstrip", self.m_lstrip(o))
        if isinstance(o, VStr) and name == "join":
            return VFunc("join", self.m_join(o))
        return None

    def binop_hook(self, ctx, it, op, a, b):
        if op is pyast.Mult and isinstance(a, VStr) and isinstance(b, VInt):
            a, b = b, a
        if op is pyast.Mult and isinstance(a, VInt) and isinstance(b, VStr):
            n, s = z3.simplify(a.t), z3.simplify(b.t)
            if z3.is_int_value(n) and z3.is_string_value(s):
                return VStr(StringVal(max(n.as_long(), 0) * s.as_string()))
            r = z3.String(fresh_name("repeated"))
            ctx.assume(Length(r) == If(a.t > 0, a.t, 0) * Length(b.t))
            ctx.assume(Implies(InRe(b.t, BLANKS), InRe(r, BLANKS)))
            return VStr(r)
        if op is pyast.FloorDiv and isinstance(a, VInt) and isinstance(b, VInt):
            d = z3.simplify(b.t)
            if z3.is_int_value(d) and d.as_long() > 0:
                return VInt(a.t / d)            # z3's div is floor division for a positive divisor
            raise Unsupported("floor division by a divisor that is not a positive constant")
        return None

    def list_literal(self, ctx, it, e):
        if e.elts:
            raise Unsupported("list literal")
        if self.out is not None and getattr(ctx, "_out_made", False):
            raise Unsupported("a second list")
        ctx._out_made = True
        self.out = VOut()
        return self.out

    def m_wrap(self, ctx, it, args, kw):
        names = ["line", "level", "width", "indentation"]
        b = {}
        for n, v in zip(names, args):
            b[n] = ctx.deref(v)
        for kk, v in kw.items():
            if kk in b or kk not in names:
                raise Unsupported("wrap_line(%s=...)" % kk)
            b[kk] = ctx.deref(v)
        if "width" in b:
            raise Unsupported("wrap_line is given a width by get_code: the generated file's width is the wrapper's default; "
                              "another choice is not covered")
        if not (isinstance(b.get("line"), VStr) and isinstance(b.get("level"), VInt)
                and isinstance(b.get("indentation", VStr("")), VStr)):
            raise Unsupported("wrap_line(%r)" % (b,))
        if "indentation" not in b:
            raise Unsupported("wrap_line without indentation= (the default is the Python emitter's)")
        ex = getattr(ctx, "loop_extra", {}).get(0)
        if not ex or "$i" not in ex:
            raise Unsupported("wrap_line is called outside the loop over the collected lines")
        i = ex["$i"].t
        L = Select(self.code.a, i)
        g = ctx.ghost
        ctx.assume(decomposition(L))
        ctx.oblige(it.oname("the-line-without-its-leading-blanks-reaches-wrap_line-unchanged"), b["line"].t == RS(L))
        ctx.oblige(it.oname("a-comment-line-is-never-wrapped"), Not(PrefixOf(StringVal("!"), RS(L))))
        ctx.oblige(it.oname("wrap_line-is-called-once-per-collected-line"), And(i >= 0, i < self.code.n, g["started"] == i))
        n = WN(b["line"].t, b["level"].t, b["indentation"].t)
        a = WA(b["line"].t, b["level"].t, b["indentation"].t)
        ctx.assume(n >= 0)
        g["started"] = i + 1
        g["k"] = IntVal(0)
        g["curN"] = n
        g["curW"] = a
        g["curRoom"] = If(b["level"].t > 0, b["level"].t, 0) * Length(b["indentation"].t)
        g["wrapped"] = BoolVal(True)
        return ctx.alloc(VList(STRLIST, n, a))

    names = property(lambda self: {"wrap_line": VFunc("wrap_line", self.m_wrap)})

    # ---- loops -----------------------------------------------------------------------------------------------------
    def inv_outer(self, s):
        i = s.loop(0)["$i"].t
        return [("the-lines-before-this-one-are-output-completely-and-nothing-of-a-later-one",
                 And(s.g("started") == i, s.g("k") == s.g("curN")))]

    def inv_inner(self, s):
        i = s.loop(0)["$i"].t
        j = s.loop(1)["$i"].t
        e = s.entry
        return [("the-wrapped-lines-before-this-one-are-output-in-order",
                 And(s.g("started") == i + 1, s.g("k") == j, s.g("wrapped"))),
                ("one-wrap_line-result-per-line", And(s.g("curN") == e.g("curN"), s.g("curW") == e.g("curW"),
                                                      s.g("curRoom") == e.g("curRoom")))]

    def inner_facts(self, s):
        e = s.entry
        return [s.g("curN") == e.g("curN")]

    loops = property(lambda self: {
        0: dict(shape="for line in self.module_emitter.code", inv=self.inv_outer,
                havoc_ghosts=["started", "k", "curN", "curW", "curRoom", "wrapped"]),
        1: dict(shape=None, inv=self.inv_inner, havoc_ghosts=["started", "k", "curN", "curW", "curRoom", "wrapped"]),
    })

    def ensures(self, st):
        r = st._deref(st.result)
        if not (isinstance(r, VJoined) and r.what is self.out):
            return [("returns-the-output-lines-joined", BoolVal(False))]
        return [("the-output-lines-are-joined-by-newlines", r.sep == StringVal("\n")),
                ("every-collected-line-is-output-completely-in-order-and-nothing-else",
                 And(st.g("started") == self.code.n, st.g("k") == st.g("curN")))]


def units():
    return [FunctionUnit(FortranGetCodeSite())]
