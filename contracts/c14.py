"""C14 — kind unification is a partial join; kind table updates commute.

Functions under contract (read from /repo/dagrt/data.py on every run):
  unify, SymbolKindTable.set
"""
import z3
from z3 import Not, If
from pyvc.values import *  # noqa
from pyvc.contracts import FunctionContract, FunctionUnit, LemmaUnit, LeanUnit, summary_function
from pyvc.engine import Obligation
from . import kinds as kinds_mod
from .kinds import Kind, Outcome, KIND, KIND_CLASSES, Ident, type_of_kind

PROP = "C14"


def _type_builtin(ctx, it, args, kw):
    return VPy("<type>")


class UnifyContract(FunctionContract):
    prop = PROP
    relpath = "dagrt/data.py"
    qualname = "unify"
    any_raise_ok = True          # an exception is the outcome "undefined"
    names = dict(KIND_CLASSES, type=VFunc("type", _type_builtin))

    def __init__(self):
        self.a = z3.Const("kind_a", Kind)
        self.b = z3.Const("kind_b", Kind)

    def params(self, ctx):
        ctx.env["kind_a"] = KIND.wrap(self.a)
        ctx.env["kind_b"] = KIND.wrap(self.b)

    def getattr_hook(self, ctx, it, obj, name):
        if isinstance(ctx.deref(obj), VPy):
            return VPy("<attr>")
        return None

    def ensures(self, st):
        # local sanity: a normal return is a kind value (always true in the ADT);
        # the property-level content is in the lemmas over the summary below.
        return [("returns-a-kind-or-None", z3.BoolVal(True))]


class UnifyUnit(FunctionUnit):
    """unify + the lattice laws over its outcome function U, which is folded
    from the exits of the real function (proved exclusive and exhaustive)."""

    def generate(self):
        axioms, obs, info = super().generate()
        c = self.contract
        eng = self.engine

        def enc(kind, value):
            if kind == "return":
                v = value
                if isinstance(v, VNone):
                    return Outcome.Ok(Kind.NoneK)
                return Outcome.Ok(v.t)
            return Outcome.Undefined

        body, sobs = summary_function(eng, Outcome, enc)
        for ob in sobs:
            ob.name = "%s/%s" % (self.label, ob.name)
        obs.extend(sobs)
        self.U_body = body

        def U(x, y):
            return z3.substitute(body, (c.a, x), (c.b, y))

        self.U = U
        a, b, d = z3.Consts("la lb lc", Kind)
        k1, k2 = z3.Consts("k1 k2", Kind)
        L = []
        ok = Outcome.is_Ok
        okk = Outcome.ok_kind
        L.append(("idempotent", [ok(U(a, a))], U(a, a) == Outcome.Ok(a)))
        L.append(("commutative", [ok(U(a, b))], U(b, a) == U(a, b)))
        # (a.b).c defined  =>  a.(b.c) defined and equal
        L.append(("associative-left-to-right",
                  [ok(U(a, b)), ok(U(okk(U(a, b)), d))],
                  z3.And(ok(U(b, d)), U(a, okk(U(b, d))) == U(okk(U(a, b)), d))))
        L.append(("associative-right-to-left",
                  [ok(U(b, d)), ok(U(a, okk(U(b, d))))],
                  z3.And(ok(U(a, b)), U(okk(U(a, b)), d) == U(a, okk(U(b, d))))))
        # a raised exception that is not the documented "kinds do not combine"
        # signal would also be 'undefined'; record which classes can occur
        info["exit_classes"] = sorted({(v.cls if k == "raise" else "return")
                                       for k, v, _, _ in eng.exits})
        for n, hyps, goal in L:
            obs.append(Obligation("%s/lemma/%s" % (self.label, n), hyps, goal))
        return axioms, obs, info


from .dagspec import VarName, VARNAME

Uf = z3.Function("U", Kind, Kind, Outcome)          # the outcome function of the real unify
is_state_variable = z3.Function("is_state_variable", VarName, z3.BoolSort())
TBL = TDict(VARNAME, KIND)


class SetContract(FunctionContract):
    """SymbolKindTable.set: whole-table postcondition.  `unify` enters through its outcome
    function U (folded from the real source by UnifyUnit, which runs first)."""
    prop = PROP
    relpath = "dagrt/data.py"
    qualname = "SymbolKindTable.set"
    prune_quantified = False

    def __init__(self, unify_unit):
        self.uu = unify_unit
        self.name = z3.Const("name", VarName)
        self.kind = z3.Const("kind", Kind)
        self.changed0 = z3.Bool("changed0")

    def Uf(self, a, b):
        if not hasattr(self.uu, "U"):
            raise Unsupported("unify is outside the modelled subset, so its outcome function is not available to "
                              "SymbolKindTable.set")
        return self.uu.U(a, b)

    def params(self, ctx):
        g = ctx.alloc(TBL.fresh("global_table"))
        ph = ctx.alloc(TBL.fresh("phase_table"))
        ctx.env["$phase_tbl"] = ph
        ctx.env["self"] = ctx.alloc(VObj(TObj("SymbolKindTable", {}), {
            "global_table": g, "_changed": VBool(self.changed0)}))
        ctx.env["phase_name"] = VPy("<phase_name>")
        ctx.env["name"] = VARNAME.wrap(self.name)
        ctx.env["kind"] = KIND.wrap(self.kind)

    def type_of_literal(self, node):
        return TBL

    def m_unify(self, ctx, it, args, kw):
        a, b = ctx.deref(args[0]).t, ctx.deref(args[1]).t
        if not ctx.branch(Outcome.is_Ok(self.Uf(a, b)), "unify-defined"):
            ctx.raise_("ValueError")
        return KIND.wrap(Outcome.ok_kind(self.Uf(a, b)))

    calls = property(lambda self: {
        "self.per_phase_table.setdefault": lambda ctx, it, a, k: ctx.env["$phase_tbl"],
    })
    names = property(lambda self: {
        "unify": VFunc("unify", self.m_unify),
        "is_state_variable": VFunc("is_state_variable", lambda ctx, it, a, k: VBool(is_state_variable(ctx.deref(a[0]).t))),
        "print": VFunc("print", lambda ctx, it, a, k: NONE),
        "repr": VFunc("repr", lambda ctx, it, a, k: VPy("<repr>")),
        "type": VFunc("type", type_of_kind),
    })

    def ensures(self, st):
        m = z3.Const("m", VarName)
        sel = is_state_variable(self.name)
        G0, G1 = st.old.field("self", "global_table"), st.field("self", "global_table")
        P0, P1 = st.old._deref(st.old._env["$phase_tbl"]), st._deref(st._env["$phase_tbl"])
        n, k = self.name, self.kind

        def T(d0, d1, tag):
            old = z3.Select(d0.val, n)
            u = self.Uf(k, old)
            new = z3.Select(d1.val, n)
            return [
                ("%s/other-entries-untouched" % tag,
                 z3.ForAll([m], z3.Implies(m != n, z3.And(z3.Select(d1.dom, m) == z3.Select(d0.dom, m),
                                                          z3.Implies(z3.Select(d0.dom, m),
                                                                     z3.Select(d1.val, m) == z3.Select(d0.val, m)))))),
                ("%s/entry-present-afterwards" % tag, z3.Select(d1.dom, n)),
                ("%s/new-name-gets-the-kind" % tag, z3.Implies(z3.Not(z3.Select(d0.dom, n)), new == k)),
                ("%s/known-name-gets-the-join-when-defined" % tag,
                 z3.Implies(z3.And(z3.Select(d0.dom, n), Outcome.is_Ok(u)), new == Outcome.ok_kind(u))),
                ("%s/known-name-keeps-its-kind-when-the-join-is-undefined" % tag,
                 z3.Implies(z3.And(z3.Select(d0.dom, n), z3.Not(Outcome.is_Ok(u))), new == old)),
                ("%s/change-flag-set-iff-the-table-changed" % tag,
                 st.field("self", "_changed").t ==
                 z3.Or(self.changed0, z3.Not(z3.Select(d0.dom, n)), new != old)),
            ]

        def same(d0, d1):
            return z3.And(d0.dom == d1.dom, d0.val == d1.val)
        out = []
        for name_, f in T(G0, G1, "global"):
            out.append((name_, z3.Implies(sel, f)))
        for name_, f in T(P0, P1, "phase"):
            out.append((name_, z3.Implies(z3.Not(sel), f)))
        out.append(("frame/persistent-names-go-to-the-global-table-only", z3.Implies(sel, same(P0, P1))))
        out.append(("frame/other-names-go-to-the-phase-table-only", z3.Implies(z3.Not(sel), same(G0, G1))))
        return out


class SetUnit(FunctionUnit):
    def generate(self):
        axioms, obs, info = super().generate()
        if not hasattr(self.contract.uu, "U"):
            raise Unsupported("unify is outside the modelled subset, so its outcome function is not available")
        U = self.contract.uu.U
        a, k1, k2 = z3.Consts("old k1 k2", Kind)
        ok, okk = Outcome.is_Ok, Outcome.ok_kind
        # two `set`s on one (known) name commute whenever every join involved is defined ...
        defined = [ok(U(k1, a)), ok(U(k2, okk(U(k1, a)))), ok(U(k2, a)), ok(U(k1, okk(U(k2, a))))]
        obs.append(Obligation("%s/lemma/set-commutes-when-joins-are-defined" % self.label, defined,
                              U(k2, okk(U(k1, a))) == U(k1, okk(U(k2, a)))))
        # ... and if one order is defined so is the other
        obs.append(Obligation("%s/lemma/set-definedness-is-order-independent" % self.label,
                              [ok(U(k1, a)), ok(U(k2, okk(U(k1, a))))],
                              z3.And(ok(U(k2, a)), ok(U(k1, okk(U(k2, a)))))))
        # known finding D5: without the definedness hypothesis the two orders differ (first kind wins)
        F = lambda t, k: z3.If(ok(U(k, t)), okk(U(k, t)), t)   # noqa  what `set` leaves in a known entry
        obs.append(Obligation("%s/probe[D5]/set-commutes-even-when-a-join-is-undefined" % self.label, [],
                              F(F(a, k1), k2) == F(F(a, k2), k1)))
        # join is inflationary and monotone (hypotheses hinfl / hmono of L-CHAOTIC for `set`)
        le = lambda x, y: z3.Or(x == y, U(x, y) == Outcome.Ok(y))   # noqa   x below y
        obs.append(Obligation("%s/lemma/join-is-an-upper-bound" % self.label, [ok(U(k1, a))],
                              z3.And(le(a, okk(U(k1, a))), le(k1, okk(U(k1, a))))))
        return axioms, obs, info


class KindEq(FunctionContract):
    """SymbolKind.__eq__ / __ne__: two kinds are equal exactly if they are of the same class with the same constructor
    arguments (the ADT equality every other contract uses for kinds: 'the table changed', 'the kinds unify'); a kind never
    equals something that is not a kind.  __getinitargs__ of each class is read as: () for Boolean / Integer,
    (is_real_valued,) for Scalar / Array, (identifier,) for UserType (A-INITARGS, the five two-line methods)."""
    prop = "C14"
    relpath = "dagrt/data.py"

    def __init__(self, method, other_is_kind):
        self.qualname = "SymbolKind." + method
        self.method, self.other_is_kind = method, other_is_kind
        self.variant_name = "other-is-a-kind" if other_is_kind else "other-is-not-a-kind"
        self.a, self.b = z3.Const("self_kind", Kind), z3.Const("other_kind", Kind)
        self.Args = z3.Datatype("InitArgs")
        self.Args.declare("mk", ("flag", z3.BoolSort()), ("ident", kinds_mod.Ident))
        self.Args = self.Args.create()
        self.ARGS = TElem("InitArgs", self.Args)

    def initargs(self, k):
        i0 = z3.Const("no_identifier", kinds_mod.Ident)
        return If(Kind.is_Scalar(k), self.Args.mk(Kind.s_real(k), i0), If(Kind.is_Array(k), self.Args.mk(Kind.a_real(k), i0),
               If(Kind.is_UserType(k), self.Args.mk(True, Kind.u_ident(k)), self.Args.mk(True, i0))))

    def params(self, ctx):
        ctx.env["self"] = KIND.wrap(self.a)
        ctx.env["other"] = KIND.wrap(self.b) if self.other_is_kind else VPy("<not a kind>")
        ctx.assume(Not(Kind.is_NoneK(self.a)))
        if self.other_is_kind:
            ctx.assume(Not(Kind.is_NoneK(self.b)))

    def getattr_hook(self, ctx, it, obj, name):
        o = ctx.deref(obj)
        if name == "__getinitargs__":
            if isinstance(o, VElem) and o.ty is KIND:
                return VFunc(name, lambda ctx, it, a, k: self.ARGS.wrap(self.initargs(o.t)))
            # something that is not a kind has no such method
            return VFunc(name, lambda ctx, it, a, k: ctx.raise_("AttributeError"))
        if name == "__eq__" and isinstance(o, VElem) and o.ty is KIND:
            def eq(ctx, it, a, k):
                # self.__eq__(other) from __ne__: by __eq__'s own contract
                x = ctx.deref(a[0])
                return VBool(o.t == x.t) if isinstance(x, VElem) and x.ty is KIND else VBool(False)
            return VFunc(name, eq)
        return None

    def isinstance_hook(self, ctx, it, obj, names):
        o = ctx.deref(obj)
        if isinstance(o, VPy) and o.py == "<not a kind>":
            return VBool(False)
        return None

    def m_type(self, ctx, it, args, kw):
        v = ctx.deref(args[0])
        if isinstance(v, VElem) and v.ty is KIND:
            return VInt(kinds_mod.kind_class(v.t))
        return VInt(-1)                   # the class of something that is not a kind: none of the kind classes

    names = property(lambda self: {"type": VFunc("type", self.m_type), "SymbolKind": VClass("SymbolKind")})

    def ensures(self, st):
        r = st._deref(st.result)
        if not isinstance(r, VBool):
            return [("returns-a-truth-value", z3.BoolVal(False))]
        same = (self.a == self.b) if self.other_is_kind else z3.BoolVal(False)
        want = same if self.method == "__eq__" else Not(same)
        return [("equal-exactly-for-the-same-class-with-the-same-constructor-arguments", r.t == want)]


def table_units():
    uu = UnifyUnit(UnifyContract())
    return [uu, SetUnit(SetContract(uu))] + [FunctionUnit(KindEq(m, k)) for m in ("__eq__", "__ne__") for k in (True, False)]


def units():
    from . import finder
    from . import c09infer
    return table_units() + finder.units() + c09infer.units() + [
        LeanUnit("lemma:L-CHAOTIC", "lemmas/LChaotic.lean", ["chaotic_unique"])]


LEVEL = "proof"
BOUNDED = {"quick": {"programs": 150, "timeout_s": 120},
           "thorough": {"programs": 3000, "timeout_s": 900}}
TRUSTED_BASE = [
    "record equality of SymbolKind is ADT equality: SymbolKind.__eq__ / __ne__ are under contract (KindEq), relative to A-INITARGS: __getinitargs__ is () for Boolean / Integer, (is_real_valued,) for Scalar / Array, (identifier,) for UserType",
]
ASSUMPTIONS = [
    "assert statements execute (python is not run with -O)",
    "exceptions raised by unify (ValueError, AssertionError) are the outcome 'undefined'",
    "isinstance over the closed class family Boolean/Integer/Scalar/Array/UserType read from dagrt/data.py",
]
ASSUMPTIONS += [
    "SymbolKindFinder.__call__ (driver): work lists are abstracted to multisets of (phase, statement) occurrences; the table "
    "to a version counter that SymbolKindTable.set increments exactly when it changes the table (its own proved "
    "postcondition); every inference attempt (kim(...), kim.map_generic_call(...)) may succeed or raise UnableToInferKind "
    "and only reads the table; an item counts as processed successfully iff no attempt made while it was being processed raised",
    "the link from 'the returned table is a common fixed point of all statement steps' (proved for the driver) and 'join is "
    "inflationary, commutative, associative' (proved for unify / set) to 'the table is independent of the presentation "
    "order' is L-CHAOTIC (Lean); monotonicity of one statement's transfer step in the table (kind inference of an expression "
    "is monotone in the kinds of its variables) is assumed, not proved",
    "termination of the driver is not proved",
]
EXPLANATION = ("unify is executed symbolically from the real source over an ADT of kinds with uninterpreted "
               "user-type identifiers; its exits are folded into the outcome function U and the lattice laws are "
               "discharged over U.")


def _parse_kind(txt):
    import re
    txt = txt.strip()
    m = re.match(r"\((Scalar|Array) (true|false)\)", txt)
    if m:
        return [m.group(1), m.group(2) == "true"]
    m = re.match(r"\(UserType (\S+)\)", txt)
    if m:
        return ["UserType", m.group(1).replace("!", "_")]
    if txt == "NoneK":
        return ["None"]
    return [txt]


def concretize(obligation_name, model_text):
    """z3 model of a failed lattice law -> input for the native oracle"""
    import re
    if "/lemma/" not in obligation_name or not model_text:
        return None
    law = obligation_name.split("/lemma/")[1].split("#")[0]
    vals = {}
    for m in re.finditer(r"\(define-fun (l[abc]) \(\) Kind\s+(\([^()]*\)|\w+)\)", model_text):
        vals[m.group(1)] = _parse_kind(m.group(2))
    a = vals.get("la", ["Integer"])
    b = vals.get("lb", a)
    c = vals.get("lc", a)
    return {"kind": "law", "law": "associative" if law.startswith("assoc") else law,
            "a": a, "b": b, "c": c}
