#!/bin/sh
# tools/try_mutant.sh <mutant-dir> <PROP> [more PROPs...]
# confirm the mutant (tests pass, demo PASS clean / FAIL patched) and run our check(s) against it on /repo itself
d="$1"; shift
cd /repo || exit 1
[ -z "$(git status --porcelain)" ] || { echo "repo not clean"; exit 1; }
echo "--- demo on clean tree"; /venv/bin/python "$d/demo.py" 2>&1 | tail -2
git apply "$d/patch.diff" || { echo "PATCH DOES NOT APPLY"; exit 1; }
echo "--- tests with patch"; /venv/bin/python -m pytest -q -p no:cacheprovider 2>&1 | tail -1
echo "--- demo with patch"; /venv/bin/python "$d/demo.py" 2>&1 | tail -3
for p in "$@"; do
  echo "--- ./check $p"; ( cd /verif && ./check $p 2>&1 | grep -v "^KNOWN-FINDING" | cut -c1-260 | tail -6 )
done
git checkout -- . ; git status --porcelain | head -2
