"""Native oracle for C20 (runs the real wrap_line of dagrt.codegen.python / dagrt.codegen.fortran).

Input (JSON): {"lang": "python"|"fortran", "line": str, "level": int, "width": int, "indentation": str,
               "clause": optional -- replay/fingerprints then look at that clause only}

Clauses (from the property statement):
  exception      wrap_line raises on a lexically valid code line
  continuation   a produced line other than the last does not end in the continuation marker, or the
                 marker is not in code context (inside a comment) -- free-form '&' / Python backslash
  string-split   a quoted string of the input is split across produced lines
  tokens         produced lines, markers removed, do not have the token sequence of the input
  fits           a produced line holding more than one (blank-separated, quote-respecting) word is
                 longer than width - level*len(indentation)
  python-ast     the wrapped Python statement does not parse to the ast.dump of the unwrapped one

The lexer below is written from the two languages' rules and is independent of shlex.
"""
import ast
import itertools
import json
import random
import re
import shlex

from dagrt.codegen.python import wrap_line as wrap_python
from dagrt.codegen.fortran import wrap_line as wrap_fortran

MARKER = {"python": "\\", "fortran": "&"}
COMMENT = {"python": "#", "fortran": "!"}
OPERATORS = ["**", "==", "<=", ">=", "!=", "/=", "//", "+=", "-=", "*=", "->", "::", "=>"]


class Unterminated(Exception):
    pass


def lex(line, lang):
    """-> list of (kind, text, start, end); kind in 'str', 'comment', 'word', 'op'.
    Python: backslash escapes inside strings, '#' comments.  Fortran: doubled quote inside a string
    is an escaped quote, '!' comments."""
    toks = []
    i, n = 0, len(line)
    while i < n:
        c = line[i]
        if c in " \t":
            i += 1
        elif c in "'\"":
            j = i + 1
            while True:
                if j >= n:
                    raise Unterminated(line[i:])
                if lang == "python" and line[j] == "\\":
                    j += 2
                    continue
                if line[j] == c:
                    if lang == "fortran" and j + 1 < n and line[j + 1] == c:
                        j += 2
                        continue
                    break
                j += 1
            toks.append(("str", line[i:j + 1], i, j + 1))
            i = j + 1
        elif c == COMMENT[lang]:
            if lang == "fortran" and line[i:i + 2] == "!=":     # not Fortran, but keep the lexers total
                toks.append(("op", "!=", i, i + 2))
                i += 2
                continue
            toks.append(("comment", line[i:].rstrip(), i, n))
            i = n
        elif c.isalnum() or c == "_":
            j = i
            while j < n and (line[j].isalnum() or line[j] == "_"):
                j += 1
            toks.append(("word", line[i:j], i, j))
            i = j
        else:
            for o in OPERATORS:
                if line.startswith(o, i):
                    toks.append(("op", o, i, i + len(o)))
                    i += len(o)
                    break
            else:
                toks.append(("op", c, i, i + 1))
                i += 1
    return toks


def blank_words(line, lang):
    """breakable units: maximal runs without a blank outside strings; a comment runs to the end"""
    toks = lex(line, lang)
    words = []
    cur_end = None
    for kind, text, s, e in toks:
        if cur_end is not None and s == cur_end:
            words[-1] += text
        else:
            words.append(text)
        cur_end = e
    return words


def token_texts(line, lang):
    return [(k, t) for k, t, s, e in lex(line, lang)]


def _viol(clause, detail):
    return {"clause": clause, "detail": detail}


def python_dump(text, header_ok=True):
    """ast.dump of a statement; block headers get a body.  None if not valid Python."""
    for suffix, prefix in (("", ""), ("\n    pass", ""), ("\n    pass", "if 1:\n    pass\n"),
                           ("\n    pass", "try:\n    pass\n")):
        try:
            return ast.dump(ast.parse(prefix + text + suffix))
        except SyntaxError:
            continue
        except (ValueError, MemoryError, RecursionError):
            return None
    return None


_CACHE = {}


def check(inp):
    key = (inp["lang"], inp["line"], inp.get("level", 0), inp.get("width", 80), inp.get("indentation", "    "))
    if key not in _CACHE:
        if len(_CACHE) > 200000:
            _CACHE.clear()
        _CACHE[key] = _check(inp)
    return _CACHE[key]


def _check(inp):
    lang = inp["lang"]
    line = inp["line"]
    level = inp.get("level", 0)
    width = inp.get("width", 80)
    indentation = inp.get("indentation", "    ")
    # domain: one lexically valid line, no leading blank (the emitters strip the indentation first)
    if "\n" in line or line != line.strip():
        return None
    try:
        in_toks = token_texts(line, lang)
        if "\t" in line:
            # a tab is in the domain only inside a quoted string (legal source; the emitters write no other tab)
            spans = [(s_, e_) for k_, t_, s_, e_ in lex(line, lang) if k_ == "str"]
            if not all(any(s_ <= i < e_ for s_, e_ in spans) for i, c in enumerate(line) if c == "\t"):
                return None
    except Unterminated:
        return None
    wrap = wrap_python if lang == "python" else wrap_fortran
    if inp.get("via") == "emitter":
        # through the Python generator's own call site (CodeGenerator._emit): its width and indentation (80, four blanks)
        if lang != "python" or width != 80 or indentation != "    ":
            return None
        wrap = _emit_via_python_generator
    if inp.get("via") == "get_code":
        # through the Fortran generator's own call site (CodeGenerator.get_code): width 80, one blank per level
        if lang != "fortran" or width != 80 or indentation != " ":
            return None
        wrap = _wrap_via_fortran_get_code
    try:
        out = wrap(line, level=level, width=width, indentation=indentation)
    except Exception as ex:
        return [_viol("exception", "wrap_line raised %s: %s" % (type(ex).__name__, ex))]
    viols = []
    marker = MARKER[lang]
    room = width - level * len(indentation)
    if not isinstance(out, list) or not out or not all(isinstance(l, str) for l in out):
        return [_viol("tokens", "result is not a non-empty list of strings: %r" % (out,))]
    bodies = []
    split_seen = False
    for idx, l in enumerate(out):
        last = idx == len(out) - 1
        body = l
        if not last:
            if not l.endswith(marker):
                viols.append(_viol("continuation", "line %d %r does not end in %r" % (idx, l, marker)))
            else:
                body = l[:-1]
        # lex the produced line on its own: a string must not run over its end
        try:
            ltoks = lex(body, lang)
        except Unterminated as ex:
            split_seen = True
            viols.append(_viol("string-split", "line %d %r ends inside the quoted string %s" % (idx, l, ex)))
            bodies.append(None)
            continue
        bodies.append(ltoks)
        if not last and ltoks and ltoks[-1][0] == "comment":
            viols.append(_viol("continuation", "marker of line %d %r is inside a comment" % (idx, l)))
        if lang == "python" and not last and body.rstrip().endswith("\\"):
            viols.append(_viol("continuation", "line %d %r: marker follows a backslash" % (idx, l)))
        if not last and not body.strip():
            viols.append(_viol("continuation", "line %d holds only the marker" % idx))
        try:
            nwords = len(blank_words(body, lang))
        except Unterminated:
            nwords = 0
        if nwords > 1 and len(l) > room:
            viols.append(_viol("fits", "line %d %r has %d words and %d > %d characters"
                               % (idx, l, nwords, len(l), room)))
    if not split_seen:
        out_toks = [(k, t) for lt in bodies for (k, t, s, e) in lt]
        if out_toks != in_toks:
            # first difference
            d = 0
            while d < min(len(out_toks), len(in_toks)) and out_toks[d] == in_toks[d]:
                d += 1
            viols.append(_viol("tokens", "token %d: input %r, wrapped %r  (wrapped lines %r)"
                               % (d, in_toks[d:d + 1], out_toks[d:d + 1], out)))
    else:
        # still compare with the strings glued back, to see a changed string
        pass
    if lang == "python":
        d0 = python_dump(line)
        if d0 is not None:
            d1 = python_dump("\n".join(out))
            if d1 != d0:
                viols.append(_viol("python-ast", "unwrapped parses, wrapped %r %s"
                                   % (out, "does not" if d1 is None else "parses differently")))
    return viols


def replay(inp):
    vs = check(inp)
    if vs is None:
        return {"fails": False, "detail": "outside the domain (not one lexically valid line)"}
    if inp.get("clause"):
        vs = [v for v in vs if v["clause"] == inp["clause"]]
    return {"fails": bool(vs), "detail": "; ".join(v["detail"] for v in vs[:2]) if vs else None}


# {{{ fingerprints

def _adjacent_blank_strings(line, lang):
    """quoted strings with embedded white space (a blank or a tab: shlex's word separators) whose opening quote directly
    follows a non-blank"""
    try:
        toks = lex(line, lang)
    except Unterminated:
        return []
    return [(s, e) for k, t, s, e in toks if k == "str" and (" " in t or "\t" in t) and s > 0 and line[s - 1] != " "]


def _has_escape_or_comment(line, lang):
    try:
        toks = lex(line, lang)
    except Unterminated:
        return True
    for k, t, s, e in toks:
        if k == "comment":
            return True
        if k == "str":
            inner = t[1:-1]
            if (lang == "python" and "\\" in inner) or (lang == "fortran" and t[0] * 2 in inner):
                return True
    # adjacent strings ('a''b' in Python) are lexed by shlex like an escaped quote
    for a, b in zip(toks, toks[1:]):
        if a[0] == "str" and b[0] == "str" and a[3] == b[2]:
            return True
    return False


def _fp_d19(inp):
    """D19: the shlex-based lexer only recognises a quote at the start of a blank-separated word, so
    f(a,'b c') is cut inside the string.  Narrow: (1) clause is tokens / string-split / python-ast, (2) the line has a quoted string with a blank whose opening quote follows a
    non-blank, and no escapes or comments, (3) shlex really returns a word with an unbalanced quote,
    (4) the same line with a blank put in front of each such quote does not fail that clause."""
    clause = inp.get("clause")
    if clause not in ("tokens", "string-split", "python-ast"):
        return False
    lang, line = inp["lang"], inp["line"]
    adj = _adjacent_blank_strings(line, lang)
    if not adj or _has_escape_or_comment(line, lang):
        return False
    try:
        words = shlex.split(line, posix=False)
    except ValueError:
        return False
    if not any(w.count("'") % 2 or w.count('"') % 2 for w in words):
        return False
    if not replay(inp)["fails"]:
        return False
    repaired = line
    for s, e in sorted(adj, reverse=True):
        repaired = repaired[:s] + " " + repaired[s:]
    r = replay(dict(inp, line=repaired, width=inp.get("width", 80) + len(adj)))
    return not r["fails"]


def _fp_escape(inp):
    """an escaped quote inside a string (Python backslash-quote, Fortran doubled quote) or two
    directly adjacent strings: shlex closes the string at the escaped quote; clause tokens /
    string-split / python-ast / exception; the line without the escapes does not fail the clause"""
    clause = inp.get("clause")
    if clause not in ("tokens", "string-split", "python-ast", "exception"):
        return False
    lang, line = inp["lang"], inp["line"]
    try:
        toks = lex(line, lang)
    except Unterminated:
        return False
    if any(k == "comment" for k, t, s, e in toks):
        return False
    if not _has_escape_or_comment(line, lang) or not replay(inp)["fails"]:
        return False
    repaired = line.replace("\\'", "q").replace('\\"', "q") if lang == "python" else \
        line.replace("''", "q").replace('""', "q")
    repaired = repaired.replace("''", "' '").replace('""', '" "').replace("'\"", "' \"").replace("\"'", "\" '")
    if repaired == line:
        return False
    return not replay(dict(inp, line=repaired))["fails"]


def _fp_comment(inp):
    """a trailing comment holding a blank is wrapped like code: the marker lands inside the comment;
    clause continuation / python-ast / exception; the line without its comment does not fail"""
    clause = inp.get("clause")
    if clause not in ("continuation", "python-ast", "exception", "string-split", "tokens"):
        return False
    lang, line = inp["lang"], inp["line"]
    try:
        toks = lex(line, lang)
    except Unterminated:
        return False
    if not toks or toks[-1][0] != "comment" or not replay(inp)["fails"]:
        return False
    stripped = line[:toks[-1][2]].rstrip()
    return not replay(dict(inp, line=stripped))["fails"]


FINGERPRINTS = {
    "D19": _fp_d19,
    "shlex_quote_not_at_word_start": _fp_d19,
    "escaped_quote_in_string": _fp_escape,
    "trailing_comment_wrapped": _fp_comment,
}

# }}}


class _RecordingEmitter:
    def __init__(self, level):
        self.level = level
        self.lines = []

    def __call__(self, text):
        self.lines.append(text)


def _emit_via_python_generator(line, level, width, indentation):
    """the lines the real dagrt.codegen.python.CodeGenerator._emit hands to its emitter for `line` at nesting depth `level`
    (class level + function level)"""
    from dagrt.codegen.python import CodeGenerator
    cg = CodeGenerator.__new__(CodeGenerator)
    cg._class_emitter = _RecordingEmitter(level // 2)
    cg._emitter = _RecordingEmitter(level - level // 2)
    cg._emit(line)
    if cg._class_emitter.lines:
        raise AssertionError("_emit wrote to the class emitter")
    return list(cg._emitter.lines)


class _StubModuleEmitter:
    def __init__(self, code):
        self.code = code
        self.preamble = []


def _wrap_via_fortran_get_code(line, level, width, indentation):
    """the lines dagrt.codegen.fortran.CodeGenerator.get_code produces for one emitted line at nesting depth `level`, with
    the indentation it puts in front of every produced line taken off again"""
    from dagrt.codegen.fortran import CodeGenerator
    cg = CodeGenerator.__new__(CodeGenerator)
    cg.module_emitter = _StubModuleEmitter([level * " " + line])
    out = cg.get_code().split("\n")
    res = []
    for l_ in out:
        if not l_.startswith(level * " "):
            raise AssertionError("get_code dropped the indentation of a produced line: %r" % (l_,))
        res.append(l_[level:])
    return res


# {{{ input generation

PIECES = {
    "python": ["x", "yy", "=", "+", "f(a,", "b)", "'s'", "'b c'", '"d e"', "f(a,'b c')", 'g("p q",1)',
               "zzzzzzzzzzzz", "3.5e-2", "''", "x+'a b'", "d['k v']",
               # '#' inside a string (at and not at the start of a word): no comment starts there
               "'#s'", 'd["#k"]'],
    "fortran": ["x", "yy", "=", "+", "f(a,", "b)", "'s'", "'b c'", '"d e"', "f(a,'b c')", 'g("p q",1)',
                "zzzzzzzzzzzz", "3.5d-2", "''", "x//'a b'", "write(*,*)",
                "'#s'", "log('#r',1)"],
}
EXH_WIDTHS = [5, 12, 20]
EXH_LEVELS = [0, 1]

PY_NAMES = ["x", "localy", "self.global_state_y", "self.t", "self.dt", "self._functions.f", "n", "local_long_name_1"]
PY_STRS = ["'s'", "'b c'", '"d e"', "'a  b  c'", "''", "'final'", '"it is a longer message with blanks"', "'x'"]
PY_STRS_ESC = ["'it\\'s a'", "'a \" \\''", '"q\\" r"', "'a''b c'"]
F_NAMES = ["x", "lploc_y", "dagrt_state%state_y", "dagrt_state%dagrt_t", "dagrt_ierr", "n", "lploc_long_name_1"]
F_STRS = ["'s'", "'b c'", '"d e"', "'a  b  c'", "''", "'failed to allocate dagrt_state%dagrt_refcnt_p_last_rhs_y'",
          "'x'"]
F_STRS_ESC = ["'it''s a'", "'a '' b'", "''''", "'a''b c'"]


def py_expr(rng, depth, esc):
    r = rng.random()
    if depth <= 0 or r < 0.3:
        c = rng.random()
        if c < 0.45:
            return rng.choice(PY_NAMES)
        if c < 0.6:
            return rng.choice(["1", "2.5", "1e-12", "0"])
        if esc and c < 0.7:
            return rng.choice(PY_STRS_ESC)
        return rng.choice(PY_STRS)
    if r < 0.55:
        op = rng.choice([" + ", "+", " * ", "*", " - ", "**", " < ", " and ", " or ", " % ", "%", " == "])
        return py_expr(rng, depth - 1, esc) + op + py_expr(rng, depth - 1, esc)
    if r < 0.8:
        sep = rng.choice([", ", ",", " , "])
        args = [py_expr(rng, depth - 1, esc) for i in range(rng.randint(0, 3))]
        if rng.random() < 0.3:
            args.append(rng.choice(["t", "y", "time_id"]) + "=" + py_expr(rng, depth - 1, esc))
        return rng.choice(["f", "self._functions.rhs", "self.StateComputed", "range", "self._numpy.array"]) \
            + "(" + sep.join(args) + ")"
    if r < 0.9:
        return "(" + py_expr(rng, depth - 1, esc) + ")"
    return rng.choice(PY_NAMES) + "[" + py_expr(rng, depth - 1, esc) + "]"


def py_line(rng, esc=False, comment=False):
    r = rng.random()
    e = py_expr(rng, rng.randint(1, 3), esc)
    if r < 0.4:
        s = rng.choice(PY_NAMES) + rng.choice([" = ", "=", " += "]) + e
    elif r < 0.5:
        s = "yield " + e
    elif r < 0.6:
        s = "raise self.StepError(" + rng.choice(PY_STRS) + rng.choice([", ", ","]) + rng.choice(PY_STRS) + ")"
    elif r < 0.7:
        s = "if " + e + ":"
    elif r < 0.8:
        s = "for " + rng.choice(["i", "locali"]) + " in range(" + py_expr(rng, 1, esc) + ", " + py_expr(rng, 1, esc) + "):"
    elif r < 0.85:
        s = rng.choice(["return", "yield", "else:", "del localx", "pass"])
    else:
        s = e
    if comment:
        s += "  # " + rng.choice(["note", "exit label", "a longer comment with blanks", "it's here"])
    return s


def f_expr(rng, depth, esc):
    r = rng.random()
    if depth <= 0 or r < 0.3:
        c = rng.random()
        if c < 0.5:
            return rng.choice(F_NAMES)
        if c < 0.65:
            return rng.choice(["1", "2.5d0", "1d-12", "0"])
        if esc and c < 0.75:
            return rng.choice(F_STRS_ESC)
        return rng.choice(F_STRS)
    if r < 0.6:
        op = rng.choice([" + ", "+", " * ", "*", " - ", "**", " < ", " .and. ", ".or.", "//", " // ", " == "])
        return f_expr(rng, depth - 1, esc) + op + f_expr(rng, depth - 1, esc)
    if r < 0.85:
        sep = rng.choice([", ", ",", " , "])
        args = [f_expr(rng, depth - 1, esc) for i in range(rng.randint(0, 3))]
        if rng.random() < 0.3:
            args.append("stat=dagrt_ierr")
        return rng.choice(["f", "drtf_rhs", "allocated", "size", "matmul"]) + "(" + sep.join(args) + ")"
    return "(" + f_expr(rng, depth - 1, esc) + ")"


def f_line(rng, esc=False, comment=False):
    r = rng.random()
    e = f_expr(rng, rng.randint(1, 3), esc)
    if r < 0.4:
        s = rng.choice(F_NAMES) + rng.choice([" = ", "=", " => "]) + e
    elif r < 0.55:
        s = "call " + rng.choice(["drtf_f", "dagrt_phase_func_main"]) + "(" + e + rng.choice([", ", ","]) + f_expr(rng, 1, esc) + ")"
    elif r < 0.7:
        s = rng.choice(["write(*,*) ", "write(dagrt_stderr,*) "]) + rng.choice(F_STRS) + rng.choice([" , ", ", ", ","]) + e
    elif r < 0.8:
        s = "if (" + e + ") then"
    elif r < 0.9:
        s = "allocate(" + rng.choice(F_NAMES) + "(" + f_expr(rng, 1, esc) + "), stat=dagrt_ierr)"
    else:
        s = rng.choice(["goto 999", "end if", "stop", "integer dagrt_ierr", "real (kind=8), optional :: dagrt_dt"])
    if comment:
        s += " ! " + rng.choice(["note", "exit label", "a longer comment with blanks", "it's here"])
    return s


def isolate_quotes(line, lang):
    """put a blank in front of every opening quote that follows a non-blank, so that a line with an
    escaped quote or a comment exercises that feature alone (not together with finding D19)"""
    try:
        toks = lex(line, lang)
    except Unterminated:
        return line
    for k, t, s_, e in sorted(toks, key=lambda x: -x[2]):
        if k == "str" and s_ > 0 and line[s_ - 1] != " ":
            line = line[:s_] + " " + line[s_:]
    return line


def real_lines():
    """unwrapped lines the real generators pass to wrap_line for a small method (captured by a
    temporary wrapper around the module attribute, restored afterwards)"""
    got = {"python": [], "fortran": []}
    try:
        from dagrt import language as lang
        from pymbolic import var
        import dagrt.codegen.python as P
        import dagrt.codegen.fortran as F
        with lang.CodeBuilder("main") as cb:
            cb("w", var("<t>") * 2 + var("<dt>") * var("<p>a_rather_long_persistent_name") ** 2)
            cb("<p>a_rather_long_persistent_name", var("w") + 1 + var("<p>a_rather_long_persistent_name"))
            with cb.if_(var("w"), "<", 3):
                cb.raise_(RuntimeError, "a message with several blanks in it")
            with cb.if_(var("w"), ">", 30):
                # apostrophes inside the message (doubled inside a Fortran character literal) and runs of blanks
                cb.raise_(RuntimeError, "the step's size fell   below the user's   minimum")
            cb("<t>", var("<t>") + var("<dt>"))
        code = lang.DAGCode.from_phases_list(
            [lang.ExecutionPhase(name="main", next_phase="main", statements=cb.statements)], "main")
        for mod, key in ((P, "python"), (F, "fortran")):
            orig = mod.wrap_line

            def spy(line, *a, _orig=orig, _key=key, **kw):
                got[_key].append(line)
                return _orig(line, *a, **kw)
            mod.wrap_line = spy
            try:
                if key == "python":
                    P.CodeGenerator("Method")(code)
                else:
                    F.CodeGenerator("m", user_type_map={}, emit_instrumentation=True,
                                    timing_function="second")(code)
            finally:
                mod.wrap_line = orig
    except Exception:
        pass
    return got

# }}}


def nontrivial(inp, nlines):
    return nlines >= 2 or bool(re.search(r"'[^']* [^']*'|\"[^\"]* [^\"]*\"", inp["line"]))


def bounded(payload):
    budget = payload.get("budget") or {}
    seed = payload.get("seed", 0)
    tier = payload.get("tier", "quick")
    rng = random.Random(seed)
    n_random = budget.get("random_lines", 6000 if tier == "quick" else 80000)
    max_pieces = budget.get("max_pieces", 3)
    max_fail = budget.get("max_failures", 20)

    active = {}
    for e in payload.get("known", []):
        fp = e.get("fingerprint")
        if fp in FINGERPRINTS:
            active[fp] = FINGERPRINTS[fp]

    evals = 0
    skipped = 0
    distinct = set()
    failures = []
    seen_fail = set()
    classes = {}
    suppressed = {}
    would_match = {}
    looked = {}
    wrapped_multi = 0
    ast_checked = 0
    samples = []
    parts = {}

    def run(inp):
        nonlocal evals, skipped, wrapped_multi, ast_checked
        vs = check(inp)
        if vs is None:
            skipped += 1
            return
        evals += 1
        try:
            wrap = wrap_python if inp["lang"] == "python" else wrap_fortran
            nlines = len(wrap(inp["line"], level=inp["level"], width=inp["width"], indentation=inp["indentation"]))
        except Exception:
            nlines = 0
        if nlines >= 2:
            wrapped_multi += 1
        if inp["lang"] == "python" and python_dump(inp["line"]) is not None:
            ast_checked += 1
        if nontrivial(inp, nlines):
            distinct.add(json.dumps(inp, sort_keys=True))
        for clause in sorted(set(v["clause"] for v in vs)):
            cname = "%s:%s" % (inp["lang"], clause)
            classes[cname] = classes.get(cname, 0) + 1
            finp = dict(inp, clause=clause)
            hit = [n for n, fp in sorted(active.items()) if fp(finp)]
            if hit:
                suppressed[hit[0]] = suppressed.get(hit[0], 0) + 1
                continue
            looked[cname] = looked.get(cname, 0) + 1
            if looked[cname] > 60 and looked[cname] % 50:
                continue          # classify a sample of the failing inputs of a class only (cost)
            matches = sorted(set(n for n, fp in FINGERPRINTS.items() if fp(finp)))
            bucket = (cname, tuple(matches))
            if sum(1 for f in failures if (f["oracle"], tuple(f["matching_fingerprints"])) == bucket) >= 3:
                continue
            key = json.dumps(finp, sort_keys=True)
            if key in seen_fail:
                continue
            seen_fail.add(key)
            for n in matches:
                would_match[n] = would_match.get(n, 0) + 1
            failures.append({"oracle": cname, "input": finp, "detail": replay(finp).get("detail"),
                             "matching_fingerprints": matches})

    # ---- exhaustive: all sequences of <= max_pieces pieces, blank-separated ----
    n_exh = 0
    for lang in ("python", "fortran"):
        for k in range(1, max_pieces + 1):
            for seq in itertools.product(PIECES[lang], repeat=k):
                line = " ".join(seq)
                for width in EXH_WIDTHS:
                    for level in EXH_LEVELS:
                        run({"lang": lang, "line": line, "level": level, "width": width, "indentation": "    "})
                        n_exh += 1
    parts["exhaustive_inputs"] = n_exh
    samples.append({"lang": "python", "line": "x = f(a,'b c')", "level": 1, "width": 12, "indentation": "    "})

    # ---- lines the real generators emit ----
    rl = real_lines()
    parts["real_generator_lines"] = {k: len(v) for k, v in rl.items()}
    for lang in ("python", "fortran"):
        for line in sorted(set(rl[lang])):
            line = line.strip()
            for width in (20, 40, 80):
                for level in (0, 2):
                    run({"lang": lang, "line": line, "level": level, "width": width,
                         "indentation": "    " if lang == "python" else " "})

    # ---- indentation strings other than the emitters' own (wrap_line takes the string as an argument) ----
    n_ind = 0
    for lang in ("python", "fortran"):
        long_lines = ["x = f(aaaa, bbbb, cccc, dddd, eeee, ffff, gggg, hhhh, iiii, jjjj, kkkk, llll, mmmm, nnnn)",
                      "y = a1 + b2 * c3 - d4 + e5 * f6 - g7 + h8 * i9 - j10 + k11 * l12 - m13 + n14 * o15 - p16 + q17"]
        for line in sorted(set(rl[lang])) + long_lines:
            line = line.strip()
            for indentation in ("", "        ", "            "):
                for level, width in ((1, 40), (3, 80), (2, 60)):
                    run({"lang": lang, "line": line, "level": level, "width": width, "indentation": indentation})
                    n_ind += 1
    parts["indentation_family_inputs"] = n_ind

    # ---- a literal tab inside a quoted string (legal source; the string is one token) ----
    n_tab = 0
    for lang, q in (("python", "'"), ("python", '"'), ("fortran", "'")):
        for line in ("x = %sa\tb%s + cccc + dddd + eeee + ffff + gggg + hhhh" % (q, q),
                     "x = f(%sa\tb%s, cccc, dddd, eeee, ffff, gggg, hhhh)" % (q, q),
                     "call g(aaaa, bbbb, %sc\td e%s, ffff, gggg, hhhh, iiii)" % (q, q) if lang == "fortran"
                     else "g(aaaa, bbbb, %sc\td e%s, ffff, gggg, hhhh, iiii)" % (q, q)):
            for width in (16, 24, 40):
                for level in (0, 1):
                    run({"lang": lang, "line": line, "level": level, "width": width, "indentation": "    "})
                    n_tab += 1
    parts["tab_in_string_inputs"] = n_tab

    # ---- through the Python generator's own call site ----
    n_em = 0
    em_lines = ["raise self.TimeStepUnderflow('dt underflow.  Giving up.')",
                "raise self.StepError('time step underflow in adaptive stepper:  dt fell below dt_min.   Giving up after 10 rejected steps.')",
                "x = f(aaaa, bbbb, cccc, dddd, eeee, ffff, gggg, hhhh, iiii, jjjj, kkkk, llll, mmmm, nnnn)",
                "msg = 'a\tb' + other", "y = 'two  blanks' + \"three   blanks\""]
    for line in em_lines + [l_.strip() for l_ in sorted(set(rl["python"]))]:
        for level in (0, 2, 3, 6):
            run({"lang": "python", "line": line, "level": level, "width": 80, "indentation": "    ", "via": "emitter"})
            n_em += 1
    parts["through_the_python_emitter_call_site"] = n_em

    # ---- through the Fortran generator's own call site (get_code) ----
    n_gc = 0
    gc_lines = ["write(dagrt_stderr,*) \"can't allocate memory for the state vector of the slow component\", dagrt_ierr",
                "write(*,*) 'the \"fast\" component failed to converge within the allowed number of iterations', lploc_k",
                "call f(aaaa, bbbb, cccc, dddd, eeee, ffff, gggg, hhhh, iiii, jjjj, kkkk, llll, mmmm, nnnn, oooo, pppp)",
                "write(dagrt_stderr,*) 'two  blanks and a rather long message that makes this line wrap around', lploc_x",
                "x = a1 + b2 * c3 - d4 + e5 * f6 - g7 + h8 * i9 - j10 + k11 * l12 - m13 + n14 * o15 - p16 + q17 + r18"]
    for line in gc_lines[:2]:
        for width in (30, 50, 80):
            run({"lang": "fortran", "line": line, "level": 1, "width": width, "indentation": " "})
    for line in gc_lines + [l_.strip() for l_ in sorted(set(rl["fortran"])) if not l_.strip().startswith("!")][:60]:
        for level in (0, 3, 8):
            run({"lang": "fortran", "line": line, "level": level, "width": 80, "indentation": " ", "via": "get_code"})
            n_gc += 1
    parts["through_the_fortran_get_code_call_site"] = n_gc

    # ---- seeded random statements from small grammars ----
    for i in range(n_random):
        lang = "python" if i % 2 == 0 else "fortran"
        esc = rng.random() < 0.08
        comment = rng.random() < 0.05
        if esc and comment:
            comment = False
        line = py_line(rng, esc, comment) if lang == "python" else f_line(rng, esc, comment)
        if esc or comment:
            line = isolate_quotes(line, lang)
        width = rng.choice([1, 6, 10, 14, 20, 30, 40, 60, 80, 80])
        level = rng.choice([0, 0, 1, 2, 3, 6])
        indentation = rng.choice(["    ", "    ", " ", "  "])
        inp = {"lang": lang, "line": line, "level": level, "width": width, "indentation": indentation}
        if i < 3:
            samples.append(inp)
        run(inp)
    parts["random_lines"] = n_random

    known_hits = []
    for e in payload.get("known", []):
        if e.get("native") is None:
            continue
        if replay(e["native"]).get("fails"):
            known_hits.append("%s: %s" % (e.get("id"), e.get("what")))

    parts.update({"skipped_outside_domain": skipped, "inputs_wrapped_to_2+_lines": wrapped_multi,
                  "python_inputs_with_ast_clause": ast_checked, "violations_by_class": classes,
                  "suppressed_by_known_fingerprint": suppressed,
                  "reported_failures_matching_a_fingerprint": would_match})
    failures.sort(key=lambda f: (bool(f["matching_fingerprints"]), f["oracle"], len(f["input"]["line"])))
    return {"evaluations": evals, "distinct_nontrivial": len(distinct),
            "rule": "real wrap_line of both targets.  Exhaustive: every blank-joined sequence of <= %d pieces out of "
                    "16 per language (names, operators, numbers, quoted strings with blanks, quotes adjacent to other "
                    "characters, a 12-character token) x widths %s x levels %s; then the lines the real generators "
                    "pass to wrap_line for a small method x 3 widths x 2 levels; then seeded random Python / Fortran "
                    "statements from small grammars (8%% with escaped quotes, 5%% with a trailing comment) x random "
                    "width in 1..80, level 0..6, indentation of 1, 2 or 4 blanks.  Non-trivial = wrapped to >= 2 lines "
                    "or holds a quoted string with a blank; distinct = distinct (lang, line, level, width, indentation)"
                    % (max_pieces, EXH_WIDTHS, EXH_LEVELS),
            "bound": "exhaustive part: <= %d pieces; random part: expression depth <= 3, one line; tabs only inside quoted strings (one family)"
                     % max_pieces,
            "samples": samples[:4], "failures": failures[:max_fail], "known_hits": known_hits,
            "parts": parts, "exhaustive": False}
