"""Native oracle for C13 (runs the real name managers of dagrt.codegen).

Input (JSON):
  {"target": "python" | "fortran",
   "ops": [["var", name] | ["global", name] | ["func", name] | ["clear"]        (python: var/func/clear)
           | ["refcnt", name] | ["fresh", prefix] | ["fcall", function_id, variant]],   (fortran only)
   "clause": optional clause name -- replay/fingerprints then look at that clause only}
  {"target": "map", "prefix": str, "start": {key: ident}, "ops": [["key", k, prefix|null] | ["nokey", name]]}

Clauses (the property statement, one by one):
  legal           identifier legal in the target language
  length63        Fortran: identifier longer than 63 characters (otherwise legal)
  distinct-exact  two different keys live in one scope got the same string
  distinct-case   Fortran: two different keys got strings that differ only in letter case
  reserved        identifier equals one the generator uses for itself
  stable          a later lookup of the same key (same scope) gave another identifier
  storage         persistent name not in instance/state storage, or per-step name not local
"""
import ast
import itertools
import json
import keyword
import random
import re

from dagrt.codegen.utils import KeyToUniqueNameMap
from dagrt.codegen.python import PythonNameManager
from dagrt.codegen.fortran import FortranNameManager

FORTRAN_IDENT = re.compile(r"^[A-Za-z][A-Za-z0-9_]*$")
FORTRAN_MAXLEN = 63
# Fortran has no reserved words; these statement keywords of the emitted module are not identifiers
FORTRAN_STATEMENT_WORDS = frozenset("""module end type integer real kind parameter contains subroutine implicit
none pointer optional character if then else write read stop call goto continue do function use only
logical complex double precision dimension allocatable intent in out inout save target result""".split())


# {{{ specification predicates (from the language documentation, not from dagrt.utils)

def must_be_persistent(name):
    return name in ("<t>", "<dt>") or name.startswith("<p>") or name.startswith("<state>")


def storage_unspecified(name):
    # <ret_...> names: "used to store computed state" on some targets (finding D22 is about them)
    return name.startswith("<ret_")


def in_domain_var(name):
    # documented precondition: no user-defined identifier starts with dagrt_
    return isinstance(name, str) and not name.startswith("dagrt_")

# }}}


# {{{ identifiers the generators reserve for themselves (collected mechanically)

_RESERVED = {}


def _trivial_dag():
    from dagrt import language as lang
    from pymbolic import var
    with lang.CodeBuilder("main") as cb:
        cb("<t>", var("<t>") + var("<dt>"))
    return lang.DAGCode.from_phases_list(
        [lang.ExecutionPhase(name="main", next_phase="main", statements=cb.statements)], "main")


def reserved_python():
    """(bare names, attributes of self) used by the emitted class for a method that
    maps no user name at all; from the AST of the really generated module"""
    if "python" in _RESERVED:
        return _RESERVED["python"]
    from dagrt.codegen.python import CodeGenerator
    src = CodeGenerator("Method")(_trivial_dag())
    tree = ast.parse(src)
    bare, attrs = set(), set()
    for node in ast.walk(tree):
        if isinstance(node, ast.Name):
            bare.add(node.id)
        elif isinstance(node, ast.arg):
            bare.add(node.arg)
        elif isinstance(node, ast.Attribute) and isinstance(node.value, ast.Name) and node.value.id == "self":
            attrs.add(node.attr)
        elif isinstance(node, (ast.FunctionDef, ast.ClassDef)):
            attrs.add(node.name)        # class-level definitions are attributes of self as well
            bare.add(node.name)
        elif isinstance(node, (ast.Import, ast.ImportFrom)):
            for a in node.names:
                bare.add((a.asname or a.name).split(".")[0])
    _RESERVED["python"] = (frozenset(bare), frozenset(attrs))
    return _RESERVED["python"]


def reserved_fortran():
    """(fixed names, prefix families) -- lower case.  Fixed names: every identifier token of a
    really generated module for a method that maps no user name, plus every dagrt_* word in the
    generator's source; a source word ending in '_' is a prefix family the generator completes."""
    if "fortran" in _RESERVED:
        return _RESERVED["fortran"]
    import dagrt.codegen.fortran as f
    cg = f.CodeGenerator("dagrtmod", user_type_map={}, emit_instrumentation=True, timing_function="second")
    src = cg(_trivial_dag())
    mapped = set(cg.name_manager.name_generator.existing_names) - {"dagrt_t", "dagrt_dt"}
    fixed = set()
    for line in src.split("\n"):
        line = line.split("!")[0]
        line = re.sub(r"'[^']*'", " ", line)
        for tok in re.findall(r"[A-Za-z_][A-Za-z0-9_]*", line):
            if tok not in mapped and tok.lower() not in FORTRAN_STATEMENT_WORDS:
                fixed.add(tok.lower())
    families = set()
    with open(f.__file__) as srcf:
        for w in re.findall(r"dagrt_[A-Za-z0-9_]*", srcf.read()):
            if w.endswith("_"):
                if w != "dagrt_":
                    families.add(w.lower())
            else:
                fixed.add(w.lower())
    _RESERVED["fortran"] = (frozenset(fixed), frozenset(families))
    return _RESERVED["fortran"]

# }}}


def _legal_python(ident):
    parts = ident.split(".")
    return all(p.isidentifier() and not keyword.iskeyword(p) for p in parts)


def _viol(clause, detail, **meta):
    d = {"clause": clause, "detail": detail}
    d.update(meta)
    return d


# {{{ python

def check_python(ops):
    mgr = PythonNameManager()
    bare_res, attr_res = reserved_python()
    viols = []
    scope = 0
    live = {}          # (kind, scope-or-None, key) -> ident
    for op in ops:
        if op[0] == "clear":
            mgr.clear_locals()
            scope += 1
            continue
        kind, key = op[0], op[1]
        if kind == "func":
            ident = mgr.name_function(key)
            slot = ("func", None, key)
        elif kind == "var":
            if not in_domain_var(key):
                continue
            ident = mgr[key]
            slot = ("var", None if ident.startswith("self.") else scope, key)
        else:
            raise ValueError("unknown python op %r" % (op,))
        if not isinstance(ident, str):
            viols.append(_viol("legal", "%r -> non-string %r" % (key, ident), key=key, ident=repr(ident)))
            continue
        # stable
        if slot in live and live[slot] != ident:
            viols.append(_viol("stable", "%s %r was %r, now %r" % (kind, key, live[slot], ident),
                               key=key, ident=ident))
        # a per-step name looked up before clear_locals() and again after is a new variable: new slot
        if kind == "var" and ("var", None, key) in live and slot != ("var", None, key):
            viols.append(_viol("stable", "%r was global %r, now %r" % (key, live[("var", None, key)], ident),
                               key=key, ident=ident))
        new = slot not in live
        live[slot] = ident
        if not new:
            continue
        # legal
        if not _legal_python(ident):
            viols.append(_viol("legal", "%s %r -> %r is not a legal Python (dotted) identifier" % (kind, key, ident),
                               key=key, ident=ident, kind=kind))
        # storage
        if kind == "var" and not storage_unspecified(key):
            if must_be_persistent(key):
                if not (ident.startswith("self.") and not ident.startswith("self._functions.")):
                    viols.append(_viol("storage", "persistent %r -> %r is not instance storage" % (key, ident),
                                       key=key, ident=ident))
            elif "." in ident:
                viols.append(_viol("storage", "per-step %r -> %r is not a local" % (key, ident),
                                   key=key, ident=ident))
        if kind == "func" and not ident.startswith("self._functions."):
            viols.append(_viol("storage", "function %r -> %r is not in the function container" % (key, ident),
                               key=key, ident=ident))
        # reserved
        parts = ident.split(".")
        if len(parts) == 1:
            if ident in bare_res:
                viols.append(_viol("reserved", "%r -> %r is a name the emitted class uses" % (key, ident),
                                   key=key, ident=ident))
        elif parts[0] == "self" and len(parts) == 2:
            designated = (key == "<t>" and ident == "self.t") or (key == "<dt>" and ident == "self.dt")
            if (parts[1] in attr_res or parts[1].startswith("phase_")) and not designated:
                viols.append(_viol("reserved", "%r -> %r is an attribute the emitted class uses" % (key, ident),
                                   key=key, ident=ident))
        elif parts[:2] == ["self", "_functions"] and len(parts) == 3:
            if parts[2] in dir(object):
                viols.append(_viol("reserved", "%r -> %r shadows an object attribute" % (key, ident),
                                   key=key, ident=ident))
        else:
            viols.append(_viol("legal", "%r -> %r has an unexpected shape" % (key, ident), key=key, ident=ident))
        # distinct (everything visible in the current phase function)
        for oslot, oident in live.items():
            if oslot == slot:
                continue
            if oslot[0] == "var" and oslot[1] is not None and oslot[1] != scope:
                continue       # local of an earlier phase function
            if oident == ident:
                viols.append(_viol("distinct-exact", "%r and %r both -> %r" % (oslot[2], key, ident),
                                   key=key, other=oslot[2], ident=ident))
    return viols

# }}}


# {{{ fortran

def check_fortran(ops):
    mgr = FortranNameManager()
    fixed, families = reserved_fortran()
    viols = []
    live = {}            # (pool, kind, key) -> bare identifier; pool "L" subroutine scope, "G" components
    for op in ops:
        kind, key = op[0], op[1]
        if kind in ("var", "global", "refcnt") and not in_domain_var(key):
            continue
        user = True
        if kind == "var":
            ident = mgr[key]
        elif kind == "global":
            if not (must_be_persistent(key) or storage_unspecified(key)):
                continue          # the generator only calls name_global on persistent names
            ident = "dagrt_state%" + mgr.name_global(key)
            kind = "var"
        elif kind == "func":
            if key.startswith("dagrt_"):
                continue
            ident = mgr.name_function(key)
        elif kind == "refcnt":
            ident = mgr.name_refcount(key)
            user = False
        elif kind == "fcall":
            # how the Fortran generator really names a called function (fortran.py, emit_inst_
            # AssignFunctionCall): make_unique_fortran_name(function_id), cached per (id, arg kinds)
            if key.startswith("dagrt_"):
                continue
            variant = op[2] if len(op) > 2 else 0
            if ("fcall", "%s#%s" % (key, variant)) in live:
                continue
            ident = mgr.make_unique_fortran_name(key)
            key = "%s#%s" % (key, variant)
        elif kind == "fresh":
            # generator-internal temporary; every call makes a new name: key it by call number
            ident = mgr.make_unique_fortran_name(key)
            user = False
            key = "%s#%d" % (key, sum(1 for s in live if s[0] == "fresh"))
        else:
            raise ValueError("unknown fortran op %r" % (op,))
        if ident.startswith("dagrt_state%"):
            pool, bare = "G", ident[len("dagrt_state%"):]
        else:
            pool, bare = "L", ident
        slot = (kind, key)
        full = (pool, bare)
        if slot in live and live[slot] != full:
            viols.append(_viol("stable", "%s %r was %r, now %r" % (kind, key, live[slot], full), key=key, ident=bare))
        new = slot not in live
        live[slot] = full
        if not new:
            continue
        # legal / length
        if not FORTRAN_IDENT.match(bare):
            viols.append(_viol("legal", "%s %r -> %r is not a Fortran name" % (kind, key, bare),
                               key=key, ident=bare, kind=kind))
        elif len(bare) > FORTRAN_MAXLEN:
            viols.append(_viol("length63", "%s %r -> %r has %d > 63 characters" % (kind, key, bare, len(bare)),
                               key=key, ident=bare, kind=kind))
        # storage
        if kind == "var" and not storage_unspecified(key):
            if must_be_persistent(key) and pool != "G":
                viols.append(_viol("storage", "persistent %r -> %r is not in dagrt_state" % (key, ident),
                                   key=key, ident=ident))
            if not must_be_persistent(key) and pool != "L":
                viols.append(_viol("storage", "per-step %r -> %r is not a local" % (key, ident),
                                   key=key, ident=ident))
        # reserved (user keys only; <t>, <dt> are designated)
        if user and key not in ("<t>", "<dt>"):
            low = bare.lower()
            if low in fixed or any(low.startswith(fam) for fam in families):
                viols.append(_viol("reserved", "%s %r -> %r is a name the Fortran generator uses itself"
                                   % (kind, key, bare), key=key, ident=bare, kind=kind))
        # distinct
        for oslot, (opool, obare) in live.items():
            if oslot == slot:
                continue
            # components are also dummy arguments of 'initialize', next to nothing user-mapped;
            # locals/functions/temporaries share the subroutine scope
            if opool != pool:
                continue
            if obare == bare:
                viols.append(_viol("distinct-exact", "%r and %r both -> %r" % (oslot[1], key, bare),
                                   key=key, other=oslot[1], ident=bare, kinds=[oslot[0], kind]))
            elif obare.lower() == bare.lower():
                viols.append(_viol("distinct-case", "%r -> %r and %r -> %r are one Fortran name"
                                   % (oslot[1], obare, key, bare),
                                   key=key, other=oslot[1], ident=bare, other_ident=obare, kinds=[oslot[0], kind]))
    return viols

# }}}


# {{{ KeyToUniqueNameMap directly

def check_map(inp):
    prefix = inp.get("prefix", "")
    start = inp.get("start") or {}
    try:
        m = KeyToUniqueNameMap(start=start, forced_prefix=prefix)
    except ValueError:
        return []           # start values conflict: not a valid initial map
    viols = []
    live = dict(("k:" + k, v) for k, v in start.items())
    n = 0
    for op in inp["ops"]:
        if op[0] == "key":
            ident = m.get_or_make_name_for_key(op[1], prefix=op[2])
            slot = "k:" + op[1]
        else:
            ident = m.get_mapped_identifier_without_key(op[1])
            n += 1
            slot = "n:%d" % n
        if slot in live and live[slot] != ident:
            viols.append(_viol("stable", "%r was %r, now %r" % (slot, live[slot], ident), key=slot, ident=ident))
        new = slot not in live
        live[slot] = ident
        if not new:
            continue
        if not ident.startswith(prefix):
            viols.append(_viol("legal", "%r -> %r lacks the forced prefix %r" % (slot, ident, prefix),
                               key=slot, ident=ident))
        tail = ident[len(prefix):]
        if not re.match(r"^[A-Za-z0-9_]*$", tail) or not (prefix + tail):
            viols.append(_viol("legal", "%r -> %r: tail is not [A-Za-z0-9_]*" % (slot, ident), key=slot, ident=ident))
        for oslot, oident in live.items():
            if oslot != slot and oident == ident:
                viols.append(_viol("distinct-exact", "%r and %r both -> %r" % (oslot, slot, ident),
                                   key=slot, other=oslot, ident=ident))
    if sorted(m) != sorted(k[2:] for k in live if k.startswith("k:")):
        viols.append(_viol("stable", "iteration over the map does not list exactly the keys", key="", ident=""))
    return viols

# }}}


def check_python_generator(counter):
    """the Python GENERATOR's own lookups: an IR name used as a loop counter and inside the loop body must come out as one
    identifier, in the storage its class asks for (the manager decides the class; a call site must not decide it again)"""
    import re
    from dagrt.codegen import PythonCodeGenerator
    from dagrt.language import CodeBuilder, DAGCode, ExecutionPhase
    with CodeBuilder(name="main") as cb:
        cb("<p>acc", "0")
        cb("<p>acc", "<p>acc + %s + 1" % counter, loops=[(counter, 0, 4)])
        cb.yield_state("<p>acc", "result", 0, "final")
    code = DAGCode.from_phases_list([ExecutionPhase(name="main", next_phase="main", statements=cb.statements)], "main")
    source = PythonCodeGenerator(class_name="Method")(code)
    loops = re.findall(r"for (\S+) in range\([^\n]*\):\n\s*([^\n]+)", source)
    if len(loops) != 1:
        return None
    hdr, body = loops[0]
    m = re.search(r"\+\s*([\w.]+)\s*\+\s*1\s*$", body)
    if m is None:
        return None
    vs = []
    if hdr != m.group(1):
        vs.append(_viol("stable", "IR name %r is %r in the loop header but %r in the loop body of the generated code"
                        % (counter, hdr, m.group(1))))
    if must_be_persistent(counter) and not hdr.startswith("self."):
        vs.append(_viol("storage", "persistent name %r is bound as the local %r by the generated loop header" % (counter, hdr)))
    if not must_be_persistent(counter) and not storage_unspecified(counter) and hdr.startswith("self."):
        vs.append(_viol("storage", "per-step name %r is kept in instance storage (%r) by the generated loop header" % (counter, hdr)))
    return vs


def check(inp):
    t = inp.get("target")
    if t == "python-generator":
        return check_python_generator(inp["counter"]) or []
    if t == "python":
        return check_python(inp["ops"])
    if t == "fortran":
        return check_fortran(inp["ops"])
    if t == "map":
        return check_map(inp)
    raise ValueError("unknown target %r" % (t,))


def replay(inp):
    try:
        vs = check(inp)
    except Exception as ex:            # the name mapping has no documented exception
        if inp.get("clause") in (None, "exception"):
            return {"fails": True, "detail": "exception %s: %s" % (type(ex).__name__, ex)}
        return {"fails": False, "detail": None}
    if inp.get("clause"):
        vs = [v for v in vs if v["clause"] == inp["clause"]]
    return {"fails": bool(vs), "detail": "; ".join(v["detail"] for v in vs[:3]) if vs else None}


# {{{ fingerprints of known findings (narrow: clause + mechanism, confirmed on the real code)

def _fp_viols(inp, clause, target):
    if inp.get("target") != target or inp.get("clause") != clause:
        return []
    try:
        return [v for v in check(inp) if v["clause"] == clause]
    except Exception:
        return []


def _fp_d15(inp):
    """Fortran, clause distinct-case only: two *user* names mapped through the shared generator to
    strings that differ as Python strings but not as Fortran names (a/A -> lploc_a/lploc_A)."""
    vs = _fp_viols(inp, "distinct-case", "fortran")
    return bool(vs) and all(
        set(v["kinds"]) <= {"var", "func", "fcall"} and v["ident"] != v["other_ident"]
        and v["ident"].lower() == v["other_ident"].lower() for v in vs)


def _fp_d16(inp):
    """Fortran, clause length63 only: identifier is otherwise legal and its excess length comes
    from the name itself (prefix lploc_/dagrt_refcnt_ and a uniquifying suffix add <= 17)."""
    vs = _fp_viols(inp, "length63", "fortran")
    return bool(vs) and all(
        FORTRAN_IDENT.match(v["ident"]) and len(v["ident"]) <= len(v["key"].split("#")[0]) + 17 for v in vs)


def _fp_untagged_function(inp):
    """Python, clause legal only: a *function* id without a <tag> prefix whose sanitised form starts
    with a digit or is a Python keyword (self._functions.1f / self._functions.class)."""
    if inp.get("clause") != "legal" or inp.get("target") != "python":
        return False
    try:
        vs = [v for v in check(inp) if v["clause"] == "legal"]
    except Exception:
        return False

    def ok(v):
        if v.get("kind") != "func" or v["key"].startswith("<"):
            return False
        tail = v["ident"].split(".")[-1]
        return tail[:1].isdigit() or keyword.iskeyword(tail)
    return bool(vs) and all(ok(v) for v in vs)


def _fp_fortran_name_function(inp):
    """Fortran, clauses legal / reserved only, and every violation is on a result of
    FortranNameManager.name_function, which adds no prefix ('1f' -> '1f', '.dagrt_state' ->
    'dagrt_state') and which the Fortran CodeGenerator never calls."""
    if inp.get("clause") not in ("legal", "reserved") or inp.get("target") != "fortran":
        return False
    try:
        vs = [v for v in check(inp) if v["clause"] == inp["clause"]]
    except Exception:
        return False
    return bool(vs) and all(v.get("kind") == "func" for v in vs)


FINGERPRINTS = {
    "D15": _fp_d15,
    "fortran_case_insensitive": _fp_d15,
    "D16": _fp_d16,
    "fortran_longer_than_63": _fp_d16,
    "python_untagged_function_id_illegal": _fp_untagged_function,
    "fortran_name_function_unprefixed": _fp_fortran_name_function,
}

# }}}


# {{{ input generation

SHORT_ALPHABET = ["a", "A", "_", ".", "0", " ", "é"]

LONG57 = "v" * 57         # lploc_ + 57 = 63: the longest legal Fortran local
LONG58 = "v" * 58
LONG70 = "x" * 70

BASE_NAMES = [
    "a", "A", "b", "a.b", "a_b", "a b", "a-b", "A_B", "a__b", "_a", "a_", ".a", "x", "X", "x_0", "x_1", "x_00",
    "x_0_0", "local_x", "localx", "local", "lploc_x", "lploc_a", "global_state_y", "global_p_k", "state_y",
    "p_k", "func_f", "t", "dt", "y", "Y", "k", "f", "c", "0", "1x", "", "_", "__", "é", "aé", "ü",
    "class", "def", "self", "if", "None", "evt", "n_steps", "numpy", "drtf_x", "refcnt_x", "temp", "dagrt_var",
    "var", "DAGRT_T", ".dagrt_state", "dagrt_state", LONG57, LONG58, LONG57[:-1] + ".", LONG57[:-1] + "_", LONG70,
    LONG70[:-1] + "y", "<", "<>", "<x>", "x<y>", "<state>", "<p>",
]
VAR_TAGS = ["", "", "", "<state>", "<p>", "<cond>", "<ret_state>", "<ret_time>", "<ret_time_id>"]
FUNC_TAGS = ["<func>", "<func>", "<builtin>", ""]
# prefixes the Fortran generator itself passes to make_unique_fortran_name
GENERATOR_PREFIXES = ["timer_start", "res1", "res2", "hoisted", "i", "n"]


def short_names():
    out = [""]
    for n in (1, 2):
        out.extend("".join(t) for t in itertools.product(SHORT_ALPHABET, repeat=n))
    return out


def random_ops(rng, target):
    n = rng.randint(2, 12)
    pool = rng.sample(BASE_NAMES, rng.randint(2, 5))
    ops = []
    for i in range(n):
        r = rng.random()
        base = rng.choice(pool)
        if r < 0.55:
            if rng.random() < 0.06:
                name = rng.choice(["<t>", "<dt>"])
            else:
                name = rng.choice(VAR_TAGS) + base
            ops.append(["var", name])
        elif r < 0.75:
            ops.append(["func", rng.choice(FUNC_TAGS) + base])
        elif target == "python":
            if r < 0.85:
                ops.append(["clear"])
            else:
                ops.append(["var", rng.choice(["<state>", "<p>"]) + base])
        else:
            if r < 0.83:
                ops.append(["refcnt", rng.choice(VAR_TAGS) + base])
            elif r < 0.87:
                ops.append(["fresh", rng.choice(GENERATOR_PREFIXES)])
            elif r < 0.93:
                ops.append(["fcall", rng.choice(FUNC_TAGS) + base, rng.randint(0, 1)])
            else:
                ops.append(["global", rng.choice(["<state>", "<p>", "<ret_state>"]) + base])
    # repeats: look some names up again, later
    for i in range(rng.randint(0, 3)):
        cand = [o for o in ops if o[0] in ("var", "func", "refcnt", "global", "fcall")]
        if cand:
            ops.insert(rng.randint(0, len(ops)), list(rng.choice(cand)))
    return ops


def random_map_input(rng):
    prefix = rng.choice(["", "", "local", "self.global_", "p_", "x"])
    start = {}
    for i in range(rng.randint(0, 2)):
        k = rng.choice(["<t>", "<dt>", "a", "x"])
        start[k] = rng.choice(["self.t", "dagrt_t", "x", "x_0", "a", prefix + "a", prefix + "x_0", prefix + "a_b"])
    if len(set(start.values())) != len(start):
        start = dict(list(start.items())[:1])
    ops = []
    pool = rng.sample(BASE_NAMES, rng.randint(2, 5))
    for i in range(rng.randint(2, 10)):
        if rng.random() < 0.8:
            ops.append(["key", rng.choice(pool), rng.choice([None, None, "lploc_", "x_", "."])])
        else:
            ops.append(["nokey", rng.choice(["x", "a_b", "x_0", "drtf_x", rng.choice(pool)])])
    # get_or_make_name_for_key ignores the prefix on a hit; keep one prefix per key so that
    # "same key" means the same request
    seen = {}
    for o in ops:
        if o[0] == "key":
            o[2] = seen.setdefault(o[1], o[2])
    return {"target": "map", "prefix": prefix, "start": start, "ops": ops}


def nontrivial(inp):
    """at least two different keys whose sanitised forms coincide up to case (so that uniquifying or
    the target's comparison matters), or a name of an adversarial class (long / digit first / keyword /
    empty after sanitising / looks generated)"""
    from dagrt.codegen.utils import make_identifier_from_name as san
    keys = sorted(set((o[0] in ("func",), o[1]) for o in inp["ops"] if len(o) > 1 and isinstance(o[1], str)))
    if len(keys) < 1:
        return False
    sans = [san(re.sub(r"^<[a-z_]*>", "", k[1])).lower() for k in keys]
    if len(set(sans)) < len(sans):
        return True
    for k, s in zip(keys, sans):
        if len(k[1]) > 50 or s[:1].isdigit() or keyword.iskeyword(s) or s == "dagrt_var" or \
                re.match(r"^(local|lploc_|global_|state_|p_|func_|drtf_|dagrt_)|_\d+$", s):
            return True
    return False


def minimise(inp, clause):
    """greedy removal of ops while the clause still fails (keeps failing inputs readable)"""
    ops = list(inp["ops"])
    i = len(ops) - 1
    while i >= 0:
        trial = dict(inp, ops=ops[:i] + ops[i + 1:], clause=clause)
        try:
            f = replay(trial)["fails"]
        except Exception:
            f = False
        if f:
            ops = ops[:i] + ops[i + 1:]
        i -= 1
    return dict(inp, ops=ops, clause=clause)

# }}}


def bounded(payload):
    budget = payload.get("budget") or {}
    seed = payload.get("seed", 0)
    tier = payload.get("tier", "quick")
    rng = random.Random(seed)
    n_random = budget.get("random_sequences", 4000 if tier == "quick" else 60000)
    n_map = budget.get("random_map_inputs", 1500 if tier == "quick" else 20000)
    max_fail = budget.get("max_failures", 20)

    active = {}
    for e in payload.get("known", []):
        fp = e.get("fingerprint")
        if fp in FINGERPRINTS:
            active[fp] = FINGERPRINTS[fp]

    evals = 0
    distinct = set()
    failures = []
    fail_keys = set()
    classes = {}
    suppressed = {}
    would_match = {}
    samples = []
    parts = {"exhaustive_pairs": 0, "random_sequences": 0, "map_inputs": 0, "exceptions": 0}

    def run(inp):
        nonlocal evals
        evals += 1
        if nontrivial(inp):
            distinct.add(json.dumps(inp, sort_keys=True))
        try:
            vs = check(inp)
        except Exception as ex:
            parts["exceptions"] += 1
            vs = [_viol("exception", "%s: %s" % (type(ex).__name__, ex))]
        for clause in sorted(set(v["clause"] for v in vs)):
            cname = "%s:%s" % (inp["target"], clause)
            classes[cname] = classes.get(cname, 0) + 1
            finp = dict(inp, clause=clause)
            hit = [n for n, fp in sorted(active.items()) if fp(finp)]
            if hit:
                suppressed[hit[0]] = suppressed.get(hit[0], 0) + 1
                continue
            # keep few, small, distinct failing inputs per class
            if sum(1 for f in failures if f["oracle"] == cname) >= 4:
                continue
            small = minimise(inp, clause) if clause != "exception" else finp
            key = json.dumps(small, sort_keys=True)
            if key in fail_keys:
                continue
            fail_keys.add(key)
            matches = sorted(set(n for n, fp in FINGERPRINTS.items() if fp(small)))
            for n in matches:
                would_match[n] = would_match.get(n, 0) + 1
            r = replay(small)
            failures.append({"oracle": cname, "input": small, "detail": r.get("detail"),
                             "matching_fingerprints": matches})

    # ---- exhaustive: all ordered pairs of short names, per kind and target; plus a re-lookup ----
    shorts = short_names()
    for target in ("python", "fortran"):
        for tag, kind in (("", "var"), ("<state>", "var"), ("<p>", "var"), ("<func>", "func"), ("", "func")):
            if tag == "" and kind == "func" and tier == "quick":
                names = shorts[:8]         # untagged function ids: singles and 1-character pairs only
            else:
                names = shorts
            for n1, n2 in itertools.product(names, names):
                ops = [[kind, tag + n1], [kind, tag + n2], [kind, tag + n1]]
                if target == "fortran" and kind == "func":
                    ops = [["fcall", tag + n1, 0], ["fcall", tag + n2, 0], ["fcall", tag + n1, 1]] + ops
                run({"target": target, "ops": ops})
                parts["exhaustive_pairs"] += 1
    samples.append({"target": "fortran", "ops": [["var", "a"], ["var", "A"], ["var", "a"]]})

    # ---- every adversarial base name alone and against its own variants, cross-kind ----
    for target in ("python", "fortran"):
        for b in BASE_NAMES:
            ops = [["var", b], ["var", "<state>" + b], ["var", "<p>" + b], ["func", "<func>" + b], ["func", b],
                   ["var", "<cond>" + b], ["var", "<ret_state>" + b], ["var", b], ["var", "<state>" + b]]
            if target == "fortran":
                ops += [["refcnt", b], ["refcnt", "<state>" + b], ["fcall", "<func>" + b, 0], ["fcall", "<func>" + b, 1],
                        ["fcall", b, 0], ["fresh", "hoisted"], ["fresh", "hoisted"]]
            else:
                ops += [["clear"], ["var", b], ["var", "<state>" + b]]
            run({"target": target, "ops": ops})

    # ---- a variable whose name looks like the key / identifier of another variable's reference count ----
    import itertools as _it
    for b in ["y", "a", "refcnt_y", "<state>y", "k_0"]:
        base = [["var", b], ["refcnt", b]]
        for look in ("refcnt_" + b, "dagrt_refcnt_" + b, "lploc_" + b, "lploc_refcnt_" + b, "refcnt_" + b.replace("<state>", "")):
            four = base + [["var", look], ["refcnt", look]]
            for perm in _it.permutations(four):
                run({"target": "fortran", "ops": [list(x) for x in perm]})

    # ---- a function whose name is the identifier of a variable in the same scope (functions and locals share one name space) ----
    for b in ["x", "y", "k_0"]:
        for fn in ("lploc_" + b, "<func>lploc_" + b, "LPLOC_" + b):
            for perm in _it.permutations([["var", b], ["func", fn], ["fcall", fn, 0]]):
                run({"target": "fortran", "ops": [list(x) for x in perm]})

    # ---- random tail ----
    for i in range(n_random):
        target = "python" if i % 2 == 0 else "fortran"
        inp = {"target": target, "ops": random_ops(rng, target)}
        if i < 2:
            samples.append(inp)
        run(inp)
        parts["random_sequences"] += 1
    for i in range(n_map):
        inp = random_map_input(rng)
        if i == 0:
            samples.append(inp)
        run(inp)
        parts["map_inputs"] += 1

    # the Python generator's own call sites (loop header vs. loop body) for persistent and per-step counters
    parts["generator_call_site_names"] = 0
    for counter in ("<p>idx", "<state>i", "k", "i_1", "<p>K", "local_k", "idx"):
        inp = {"target": "python-generator", "counter": counter}
        try:
            vs = check_python_generator(counter)
        except Exception:
            continue                   # the builder / generator refuses the program: nothing to observe
        if vs is None:
            continue
        evals += 1
        parts["generator_call_site_names"] += 1
        for clause in sorted(set(v["clause"] for v in vs)):
            cname = "python-generator:%s" % clause
            classes[cname] = classes.get(cname, 0) + 1
            failures.append({"oracle": cname, "input": dict(inp, clause=clause),
                             "detail": "; ".join(v["detail"] for v in vs if v["clause"] == clause), "matching_fingerprints": []})

    known_hits = []
    for e in payload.get("known", []):
        if e.get("native") is None:
            continue
        r = replay(e["native"])
        if r.get("fails"):
            known_hits.append("%s: %s" % (e.get("id"), e.get("what")))

    parts["violations_by_class"] = classes
    parts["suppressed_by_known_fingerprint"] = suppressed
    parts["reported_failures_matching_a_fingerprint"] = would_match
    parts["reserved_python"] = [len(reserved_python()[0]), len(reserved_python()[1])]
    parts["reserved_fortran"] = [len(reserved_fortran()[0]), len(reserved_fortran()[1])]
    failures.sort(key=lambda f: (bool(f["matching_fingerprints"]), f["oracle"], len(json.dumps(f["input"]))))
    return {"evaluations": evals, "distinct_nontrivial": len(distinct),
            "rule": "lookup sequences on fresh real PythonNameManager / FortranNameManager / KeyToUniqueNameMap. "
                    "Exhaustive: all ordered pairs of names of length <= 2 over {a,A,_,.,0,blank,e-acute} (57 names), "
                    "as untagged / <state> / <p> variables and <func> / untagged functions, looked up n1,n2,n1; then "
                    "each of %d adversarial base names in all tag variants; then seeded random sequences of 2-15 "
                    "operations (var, func, clear_locals | refcnt, fresh, fcall, global) over 2-5 base names with repeats. "
                    "Non-trivial = two different keys share their sanitised form up to case, or a name is long / "
                    "digit-first / keyword / empty after sanitising / looks generated; distinct = distinct JSON"
                    % len(BASE_NAMES),
            "bound": "names: length <= 2 exhaustively over 7 characters, plus %d listed names up to 70 characters; "
                     "sequences <= 15 operations; names starting with dagrt_ excluded (documented precondition)"
                     % len(BASE_NAMES),
            "samples": samples[:4], "failures": failures[:max_fail], "known_hits": known_hits,
            "parts": parts, "exhaustive": False}
