"""./check <ID> --tier quick|thorough [--replay FILE]

Exit codes: 0 held (possibly with KNOWN-FINDING lines), 1 violation,
2 undecided, 3 engine / assumption failure.  Only exit 1 prints VIOLATION.
"""
import argparse
import hashlib
import importlib
import json
import os
import re
import subprocess
import sys
import time
import traceback

VERIF = os.path.dirname(os.path.dirname(os.path.abspath(__file__)))
sys.path.insert(0, VERIF)

import z3  # noqa: E402
from pyvc import solve  # noqa: E402
from pyvc.values import Unsupported  # noqa: E402
from pyvc.extract import ExtractionError, REPO  # noqa: E402
from pyvc.contracts import FunctionUnit  # noqa: E402

NATIVE_PY = os.environ.get("DAGRT_NATIVE_PY", "/venv/bin/python")


def load_known(prop):
    path = os.path.join(VERIF, "known_findings.json")
    if not os.path.exists(path):
        return []
    with open(path) as f:
        data = json.load(f)
    return [e for e in data.get("findings", []) if e.get("property") == prop]


def native(prop, mode, payload, timeout):
    """run the native harness (real dagrt under /venv's python); returns dict"""
    cmd = [NATIVE_PY, os.path.join(VERIF, "replay", "run.py"), prop, mode]
    env = dict(os.environ)
    env["PYTHONPATH"] = REPO + os.pathsep + VERIF
    env.setdefault("PYTHONHASHSEED", "0")
    try:
        p = subprocess.run(cmd, input=json.dumps(payload), capture_output=True, text=True,
                           timeout=timeout, env=env, cwd=VERIF)
    except subprocess.TimeoutExpired:
        return {"error": "native harness timeout after %ss" % timeout}
    if p.returncode != 0:
        return {"error": "native harness exit %d: %s" % (p.returncode, p.stderr[-2000:])}
    try:
        return json.loads(p.stdout.strip().splitlines()[-1])
    except Exception as e:
        return {"error": "native harness output unparsable: %s / %s" % (e, p.stdout[-500:])}


def norm_name(name):
    return re.sub(r"#\d+$", "", re.sub(r"@L\d+", "", name))


def load_baseline(prop):
    path = os.path.join(VERIF, "baseline", prop + ".json")
    if not os.path.exists(path):
        return {}
    with open(path) as f:
        return json.load(f)


def sanitize(name):
    s = re.sub(r"[^A-Za-z0-9_.-]+", "_", name)
    if len(s) <= 150:
        return s
    import hashlib
    return s[:140] + "_" + hashlib.sha1(name.encode()).hexdigest()[:8]


def main(argv=None):
    ap = argparse.ArgumentParser()
    ap.add_argument("prop")
    ap.add_argument("--tier", default=os.environ.get("VERIF_TIER", "quick"))
    ap.add_argument("--replay")
    ap.add_argument("--verbose", "-v", action="store_true")
    ap.add_argument("--update-baseline", action="store_true",
                    help="record the obligations discharged on the current (unchanged) tree")
    args = ap.parse_args(argv)
    prop = args.prop
    tier = args.tier if args.tier in ("quick", "thorough") else "quick"
    seed = int(os.environ.get("VERIF_SEED", "0") or 0)
    t0 = time.time()
    mod = importlib.import_module("contracts." + prop.lower())

    if args.replay:
        return do_replay(prop, mod, args.replay)

    known = load_known(prop)
    timeout_ms = 8000 if tier == "quick" else 60000
    status = 0
    notes = []
    groups = []
    unit_infos = []
    undecided = []
    engine_errors = []
    unit_sha = {}
    baseline = load_baseline(prop)

    # ---- 1. generate obligations from the real source ---------------------
    units = mod.units()
    for u in units:
        try:
            ax, obs, info = u.generate()
        except (Unsupported, ExtractionError) as ex:
            undecided.append("%s: outside the modelled subset / shape mismatch: %s" % (u.label, ex))
            unit_infos.append({"unit": u.label, "undecided": str(ex)})
            continue
        except Exception as ex:
            # A crash inside a contract's call model on a function whose source differs from the baseline means the
            # model does not fit the changed code (e.g. another arity): undecided.  On unchanged source it is a bug
            # of this machinery (exit 3).
            sha_now = ""
            try:
                sha_now = (u.extracted.describe() if getattr(u, "extracted", None) else {}).get("sha256", "")
            except Exception:
                pass
            b = baseline.get(u.label)
            if b and sha_now and b.get("sha") != sha_now:
                undecided.append("%s: the contract's model does not fit the changed source (%s: %s)"
                                 % (u.label, type(ex).__name__, ex))
                unit_infos.append({"unit": u.label, "undecided": "%s: %s" % (type(ex).__name__, ex)})
                continue
            engine_errors.append("%s: %s" % (u.label, traceback.format_exc()[-1500:]))
            unit_infos.append({"unit": u.label, "engine_error": str(ex)})
            continue
        info = dict(info)
        unit_sha[u.label] = (info.get("function") or {}).get("sha256", "")
        info["unit"] = u.label
        info["obligations"] = len(obs)
        minimum = getattr(getattr(u, "contract", None), "expected_min_obligations", 1)
        if len(obs) < max(1, minimum):
            engine_errors.append("%s: only %d obligations generated (expected >= %d)"
                                 % (u.label, len(obs), minimum))
        # vacuity: the hypotheses of the exits must not all be contradictory
        if isinstance(u, FunctionUnit) and u.engine is not None:
            verdicts = []
            for kind, value, line, pc in u.engine.exits[:4]:
                verdicts.append(solve.check_sat(ax, pc, 600))
            info["exit_hypotheses"] = {v: verdicts.count(v) for v in set(verdicts)}
            if verdicts and all(v == "unsat" for v in verdicts):
                engine_errors.append("%s: every exit has contradictory hypotheses (vacuous)" % u.label)
        unit_infos.append(info)
        groups.append((ax, obs))

    # ---- 2. discharge -----------------------------------------------------
    results = solve.discharge(groups, timeout_ms=timeout_ms, use_cvc5=True) if groups else []
    expected_fail = {}
    for e in known:
        if e.get("obligation"):
            expected_fail[e["obligation"]] = e
    probes = [r for r in results if "/probe[" in r.name]
    proper = [r for r in results if "/probe[" not in r.name]
    failed = [r for r in proper if r.status == "sat"]
    unknown = [r for r in proper if r.status not in ("sat", "unsat")]
    disagree = [r for r in proper if r.status == "disagree"]
    discharged = [r for r in proper if r.status == "unsat"]
    for r in disagree:
        engine_errors.append("solver disagreement on %s" % r.name)
    unknown = [r for r in unknown if r.status != "disagree"]

    if args.update_baseline:
        out = {}
        for r in discharged:
            label = _unit_of(r.name, unit_sha)
            ent = out.setdefault(label, {"sha": unit_sha.get(label, ""), "names": set()})
            ent["names"].add(norm_name(r.name))
        for ent in out.values():
            ent["names"] = sorted(ent["names"])
        os.makedirs(os.path.join(VERIF, "baseline"), exist_ok=True)
        with open(os.path.join(VERIF, "baseline", prop + ".json"), "w") as f:
            json.dump(out, f, indent=0, sort_keys=True)
        print("baseline written: %d units" % len(out))

    # an obligation that was discharged on the unchanged tree (baseline), belongs to a function whose
    # source has changed since, and is still not discharged after a longer retry, is a failed obligation
    regressed = []
    still_unknown = []
    retry_ix = []
    flaky_retry = []
    for r in unknown:
        label = _unit_of(r.name, unit_sha)
        b = baseline.get(label)
        if b and b.get("sha") != unit_sha.get(label) and norm_name(r.name) in set(b.get("names", [])):
            retry_ix.append(r)
        elif b and b.get("sha") == unit_sha.get(label) and norm_name(r.name) in set(b.get("names", [])):
            # discharged at baseline, source unchanged, now `unknown`: solver time (machine load), not semantics.
            # Retried once at the longer budget; still unknown => undecided (never a violation)
            flaky_retry.append(r)
        else:
            still_unknown.append(r)
    if flaky_retry:
        names = {r.name for r in flaky_retry}
        regroups = [(ax, [o for o in obs if o.name in names]) for ax, obs in groups]
        again = solve.discharge(regroups, timeout_ms=timeout_ms * 4, use_cvc5=True)
        for r in again:
            if r.status == "unsat":
                discharged.append(r)
            elif r.status == "sat":
                failed.append(r)
            else:
                still_unknown.append(r)
        proper = [x for x in proper if x.name not in names] + again
        notes.append("%d obligations were retried at the longer budget on unchanged source (solver time)" % len(flaky_retry))
    # the retry is expensive (4x budget, three seeds, two solvers): at most RETRY_PER_UNIT obligations of a unit are
    # retried first; if one of them is confirmed as failed the unit is refuted and the rest are not retried (they stay
    # `unknown`, listed in the evidence); if all of them discharge, the rest are retried too
    RETRY_PER_UNIT = 6
    pending = list(retry_ix)
    not_retried = []
    while pending:
        per_unit, batch, later = {}, [], []
        for r in pending:
            label = _unit_of(r.name, unit_sha)
            if per_unit.get(label, 0) < RETRY_PER_UNIT:
                per_unit[label] = per_unit.get(label, 0) + 1
                batch.append(r)
            else:
                later.append(r)
        names = {r.name for r in batch}
        regroups = [(ax, [o for o in obs if o.name in names]) for ax, obs in groups]
        again = solve.discharge(regroups, timeout_ms=timeout_ms * 4, use_cvc5=True)
        refuted_units = set()
        for r in again:
            if r.status == "unsat":
                discharged.append(r)
            elif r.status == "sat":
                failed.append(r)
                refuted_units.add(_unit_of(r.name, unit_sha))
            else:
                r.status = "unknown-after-retry"
                regressed.append(r)
                refuted_units.add(_unit_of(r.name, unit_sha))
        proper = [x for x in proper if x.name not in names] + again
        pending = []
        for r in later:
            if _unit_of(r.name, unit_sha) in refuted_units:
                not_retried.append(r)
            else:
                pending.append(r)
    if not_retried:
        notes.append("%d further obligations of already refuted units stayed unknown and were not retried" % len(not_retried))
    unknown = still_unknown
    failed = failed + regressed

    # ---- 3. bounded native stand-in / monitors (always; labelled bounded) --
    bounded = None
    if hasattr(mod, "BOUNDED") and os.path.exists(os.path.join(VERIF, "replay", "oracles", prop.lower() + ".py")):
        budget = mod.BOUNDED.get(tier, mod.BOUNDED.get("quick"))
        payload = {"tier": tier, "seed": seed, "budget": budget,
                   "known": [e for e in known if e.get("native")]}
        bounded = native(prop, "bounded", payload, timeout=budget.get("timeout_s", 300) + 60)
        if "error" in bounded:
            engine_errors.append("bounded stand-in: " + bounded["error"])

    # ---- 4. verdict --------------------------------------------------------
    violations = []
    OUT = os.environ.get("VERIF_OUT") or VERIF     # where evidence/ and replays/ go (self-tests use a scratch directory)
    os.makedirs(os.path.join(OUT, "replays", prop), exist_ok=True)
    native_failures = (bounded or {}).get("failures", []) if bounded else []
    known_lines = []
    for kf in (bounded or {}).get("known_hits", []) if bounded else []:
        known_lines.append(kf)
    for r in failed:
        rp = os.path.join("replays", prop, sanitize(r.name) + ".json")
        doc = {"property": prop, "obligation": r.name, "solver": r.backend,
               "status": r.status, "model": r.model, "line": r.line,
               "repo_head": _git_head()}
        # try to turn the model into a real failing input
        conc = None
        if hasattr(mod, "concretize"):
            try:
                conc = mod.concretize(r.name, r.model)
            except Exception as ex:
                doc["concretize_error"] = str(ex)
        replayed = None
        if conc is not None:
            replayed = native(prop, "replay", {"input": conc}, timeout=120)
            doc["input"] = conc
            doc["native"] = replayed
        if not (replayed and replayed.get("fails")):
            # fall back to any failing input the bounded search found
            if native_failures:
                doc["input"] = native_failures[0]["input"]
                doc["native"] = {"fails": True, "detail": native_failures[0].get("detail"),
                                 "source": "bounded search"}
                replayed = doc["native"]
        with open(os.path.join(OUT, rp), "w") as f:
            json.dump(doc, f, indent=1, default=str)
        suffix = "" if (replayed and replayed.get("fails")) else " no-failing-input-found"
        violations.append("VIOLATION property=%s replay=%s%s" % (prop, rp, suffix))
    if not failed:
        for i, nf in enumerate(native_failures[:5]):
            rp = os.path.join("replays", prop, "bounded_%d.json" % i)
            with open(os.path.join(OUT, rp), "w") as f:
                json.dump({"property": prop, "obligation": "bounded:" + nf.get("oracle", "oracle"),
                           "input": nf["input"], "native": {"fails": True, "detail": nf.get("detail")},
                           "repo_head": _git_head()}, f, indent=1, default=str)
            violations.append("VIOLATION property=%s replay=%s" % (prop, rp))

    for line in known_lines:
        print("KNOWN-FINDING: property=%s %s" % (prop, line))
    for v in violations:
        print(v)
    if violations:
        status = 1
    elif engine_errors:
        status = 3
    elif unknown or undecided:
        status = 2

    for m in undecided:
        print("UNDECIDED: " + m)
    for r in unknown:
        print("UNDECIDED: %s (%s)" % (r.name, r.status))
    for m in engine_errors:
        print("ENGINE-ERROR: " + m)

    # ---- 5. evidence -------------------------------------------------------
    wall = time.time() - t0
    level = getattr(mod, "LEVEL", "proof")
    samples = [r.as_dict() for r in proper[:3]] + [r.as_dict() for r in proper[-2:]]
    cov = {
        "obligations": len(proper),
        "discharged": len(discharged),
        "refuted": len(failed),
        "undecided": len(unknown) + len(undecided),
        "checker_cmd": "./check %s --tier %s   (python3-vt pyvc/runner.py; z3 %s API, 3 seeds; /usr/bin/cvc5 --strings-exp on z3's unknowns)"
                       % (prop, tier, z3.get_version_string()),
        "trusted_base": list(getattr(mod, "TRUSTED_BASE", [])) + [
            "pyvc engine (ast -> z3 symbolic executor, /verif/pyvc), its encoding of Python semantics (DESIGN.md section 3)",
            "z3 %s, cvc5 1.0.3, CPython ast module" % z3.get_version_string()],
        "functions_under_contract": [i.get("function") for i in unit_infos if i.get("function")],
        "units": unit_infos,
        "per_obligation": [r.as_dict() for r in proper],
        "solver_seconds": round(sum(r.seconds for r in results), 3),
        "backends": _count([r.backend for r in discharged]),
        "samples": samples or ["(no obligations)"],
        "explanation": getattr(mod, "EXPLANATION", ""),
        "known_finding_probes": [r.as_dict() for r in probes],
    }
    if bounded and "error" not in bounded:
        cov["bounded"] = {k: bounded.get(k) for k in
                          ("evaluations", "distinct_nontrivial", "rule", "bound", "samples", "exhaustive", "parts")
                          if k in bounded}
        cov["bounded"]["label"] = "bounded stand-in: never counted in `discharged`"
        cov["evaluations"] = bounded.get("evaluations", 0)
        cov["distinct_nontrivial"] = bounded.get("distinct_nontrivial", 0)
        cov["rule"] = bounded.get("rule", "")
    ev = {
        "property_id": prop, "tier": tier, "seed": seed, "level": level, "coverage": cov,
        "assumptions": list(getattr(mod, "ASSUMPTIONS", [])) + _scan_assumed_models(units),
        "wall_s": round(wall, 2), "violations": len(violations),
        "exit_status": status,
        "known_findings": known_lines,
        "repo_head": _git_head(),
    }
    os.makedirs(os.path.join(OUT, "evidence"), exist_ok=True)
    with open(os.path.join(OUT, "evidence", prop + ".json"), "w") as f:
        json.dump(ev, f, indent=1, default=str)
    print("%s tier=%s: %d obligations, %d discharged, %d refuted, %d undecided; %s; %.1fs; exit %d"
          % (prop, tier, len(proper), len(discharged), len(failed), len(unknown) + len(undecided),
             ("bounded evaluations=%s" % bounded.get("evaluations")) if bounded and "error" not in bounded else "no bounded part",
             wall, status))
    return status


def _unit_of(name, unit_sha):
    best = ""
    for label in unit_sha:
        if name.startswith(label + "/") and len(label) > len(best):
            best = label
    return best


def _count(xs):
    out = {}
    for x in xs:
        out[x] = out.get(x, 0) + 1
    return out


def _scan_assumed_models(units):
    """mechanical scan (run before every report): every call model / hook of the contracts used in this run whose body
    contains `ctx.assume(` introduces facts about a callee or a library that are assumed, not proved here (where the
    callee is itself under contract in this or another check, the model transcribes that contract: its docstring says so)"""
    import inspect
    out, seen = [], set()
    for u in units:
        c = getattr(u, "contract", None)
        if c is None:
            continue
        for cls in type(c).__mro__:
            if cls.__module__ in ("builtins", "pyvc.contracts"):
                continue
            for name, fn in vars(cls).items():
                f = fn.fget if isinstance(fn, property) else fn
                if not callable(f) or (cls.__name__, name) in seen:
                    continue
                try:
                    src = inspect.getsource(f)
                except (OSError, TypeError):
                    continue
                if "ctx.assume(" not in src and ".assume(" not in src:
                    continue
                if name in ("params", "ghosts", "setup", "requires"):
                    continue            # input validity / preconditions: listed by the contract itself
                seen.add((cls.__name__, name))
                doc = (inspect.getdoc(f) or "model of a callee / library operation (no docstring)").strip().splitlines()[0]
                out.append("assumed in %s.%s.%s: %s" % (cls.__module__.replace("contracts.", ""), cls.__name__, name, doc[:200]))
    # module-level helpers of the contract modules in use (e.g. c17.unify_step, astspec list operations)
    import sys as _sys
    mods = set()
    for u in units:
        c = getattr(u, "contract", None)
        if c is not None:
            for cls in type(c).__mro__:
                if cls.__module__.startswith("contracts."):
                    mods.add(cls.__module__)
    for mname in sorted(mods):
        m = _sys.modules.get(mname)
        for name, f in sorted(vars(m).items()) if m else []:
            if not inspect.isfunction(f) or f.__module__ != mname:
                continue
            try:
                src = inspect.getsource(f)
            except (OSError, TypeError):
                continue
            if "ctx.assume(" in src:
                doc = (inspect.getdoc(f) or "helper that adds facts (no docstring)").strip().splitlines()[0]
                out.append("assumed in %s.%s: %s" % (mname.replace("contracts.", ""), name, doc[:200]))
    return ["[scan] " + x for x in sorted(set(out))]


def _git_head():
    try:
        return subprocess.run(["git", "-C", REPO, "rev-parse", "--short", "HEAD"],
                              capture_output=True, text=True).stdout.strip()
    except Exception:
        return "?"


def do_replay(prop, mod, path):
    with open(path if os.path.isabs(path) else os.path.join(VERIF, path)) as f:
        doc = json.load(f)
    if "input" in doc:
        r = native(prop, "replay", {"input": doc["input"]}, timeout=300)
        print(json.dumps(r))
        if r.get("fails"):
            print("VIOLATION property=%s replay=%s" % (prop, path))
            return 1
        return 0 if "error" not in r else 3
    # no concrete input: re-solve the recorded obligation on the current tree
    name = doc.get("obligation")
    groups = []
    for u in mod.units():
        try:
            ax, obs, info = u.generate()
        except (Unsupported, ExtractionError) as ex:
            print("UNDECIDED: %s" % ex)
            return 2
        groups.append((ax, [o for o in obs if o.name == name]))
    res = solve.discharge(groups, timeout_ms=60000)
    for r in res:
        print(r.name, r.status)
        if r.status == "sat":
            print("VIOLATION property=%s replay=%s no-failing-input-found" % (prop, path))
            return 1
    return 0


if __name__ == "__main__":
    sys.exit(main())
