"""C06 — control-flow simplification never changes which statements run, or their order.

Functions under contract (read from /repo/dagrt/codegen/dag_ast.py on every run):
  ASTIdentityMapper.map_*, ASTPreSimplifyMapper.map_IfThen,
  ASTSimplifyMapper.map_IfThenElse, ASTSimplifyMapper.map_Block (+ nested flat_Block),
  ASTPostSimplifyMapper.__call__/map_IfThenElse/map_Block/map_StatementWrapper, simplify_ast
Contract of every map_* and of `rec` (induction hypothesis): for every valuation sigma of the
condition atoms, tr(result, sigma) == tr(expr, sigma), and no exception.
"""
import z3
from z3 import And, Or, Not, Implies, ForAll, If

from pyvc.values import *  # noqa
from pyvc.contracts import FunctionContract, FunctionUnit, LemmaUnit, call_by_contract
from pyvc.engine import Obligation
from .astspec import *  # noqa
from . import astspec as A

PROP = "C06"
REL = "dagrt/codegen/dag_ast.py"


def m_rec(ctx, it, args, kw):
    """self.rec(x): dispatch (A-ID) to a map_* method, all of which satisfy the trace contract;
    on a condition / bound expression pymbolic's IdentityMapper returns an equal expression"""
    x = ctx.deref(args[0])
    if isinstance(x, VElem) and x.ty is NODE:
        r = z3.Const(fresh_name("rec"), Node)
        ctx.assume(same_trace(r, x.t))
        return NODE.wrap(r)
    if isinstance(x, VElem) and x.ty in (COND, BEXPR):
        return x
    raise Unsupported("self.rec(%r)" % (x,))


def m_type(ctx, it, args, kw):
    """type(expr): the class of the node; calling it builds a node of the same class"""
    x = ctx.deref(args[0])
    t = x.t

    def construct(ctx, it, a, k):
        for name, test in [("IfThenElse", Node.is_IfThenElse), ("IfThen", Node.is_IfThen),
                           ("ForLoop", Node.is_ForLoop), ("Block", Node.is_Block),
                           ("NullASTNode", Node.is_Null), ("StatementWrapper", Node.is_Leaf)]:
            if ctx.branch(test(t), "type-is-" + name):
                return NODE_CLASSES[name].construct(ctx, it, a, k)
        raise Unsupported("unknown node class")
    return VClass("type(expr)", construct)


class MapContract(FunctionContract):
    """shared shape: map_X(self, expr) with is_X(expr) => tr(result) == tr(expr), no exception"""
    prop = PROP
    relpath = REL
    node_test = None
    axioms = tuple(ground_axioms())
    prune_quantified = False

    def __init__(self, qualname, node_test):
        self.qualname = qualname
        self.node_test = node_test
        self.expr = z3.Const("expr", Node)

    def params(self, ctx):
        ctx.env["self"] = VObj(TObj("Mapper", {}), {})
        ctx.env["expr"] = NODE.wrap(self.expr)

    def requires(self, st):
        return [("dispatched-on-node-class", self.node_test(self.expr))]

    names = dict(NODE_CLASSES, type=VFunc("type", m_type))

    def m_rec_t(self, ctx, it, args, kw):
        """self.rec(x) with the termination obligation of the recursion: x is strictly smaller than expr"""
        x = ctx.deref(args[0])
        if isinstance(x, VElem) and x.ty is NODE:
            for f in A.unfold_size(self.expr):
                ctx.assume(f)
            ctx.oblige("recursion-on-a-strictly-smaller-node@L%s" % ctx.cur_line, A.nsize(x.t) < A.nsize(self.expr))
        return m_rec(ctx, it, args, kw)

    calls = property(lambda self: {"self.rec": self.m_rec_t})

    def type_of_literal(self, node):
        return NODELIST

    def ensures(self, st):
        return [("same-leaf-trace-under-every-valuation", same_trace(st.result.t, self.expr))]

    # `[self.rec(child) for child in expr.children]` / deque(self.rec(child) for ...): map schema
    def map_schema(self, ctx, it, e):
        src = ctx.deref(it.eval(e.generators[0].iter))
        if not isinstance(src, VNodeList):
            raise Unsupported("map over %r" % (src,))
        # termination of the recursion: every element of the list is smaller than expr (its size is at most lsize)
        for f in A.unfold_size(self.expr):
            ctx.assume(f)
        ctx.oblige("recursion-on-strictly-smaller-nodes@L%s" % e.lineno, A.lsize(src.t) < A.nsize(self.expr))
        r = z3.Const(fresh_name("mapped"), NodeList)
        # L-MAP (lemma unit below): if tr(f x) == tr(x) for all x then trl(map f l) == trl(l), len equal
        ctx.assume(allk(lambda k: trlk(r, k) == trlk(src.t, k)))
        ctx.assume(llen(r) == llen(src.t))
        ctx.assume((r == NodeList.Nil) == (src.t == NodeList.Nil))
        return ctx.alloc(VNodeList(r))

    comprehensions = property(lambda self: {
        "[self.rec(child) for child in expr.children]": self.map_schema,
        "(self.rec(child) for child in expr.children)": self.map_schema,
    })


# ---- ASTSimplifyMapper.map_IfThenElse --------------------------------------------------------
class SimplifyITE(MapContract):
    def __init__(self):
        super().__init__("ASTSimplifyMapper.map_IfThenElse", Node.is_IfThenElse)

    def inv(self, s):
        return [("same-trace", allk(lambda k: If(ev(s.condition.t), trk(s.then.t, k), trk(s.else_.t, k))
                                    == trk(self.expr, k)))]

    loops = property(lambda self: {0: dict(shape="while isinstance(condition, LogicalNot)", inv=self.inv,
                                           variant=lambda s: cdepth(s.condition.t))})


# ---- ASTSimplifyMapper.map_Block ---------------------------------------------------------------
class FlatBlock(FunctionContract):
    """nested flat_Block(*nodes): a Block whose trace is the concatenation of the nodes' traces"""
    prop = PROP
    relpath = REL
    qualname = "ASTSimplifyMapper.map_Block.flat_Block"
    axioms = tuple(ground_axioms())
    prune_quantified = False
    names = dict(NODE_CLASSES)

    def __init__(self):
        self.nodes = z3.Const("nodes", NodeList)

    def params(self, ctx):
        ctx.env["nodes"] = VNodeList(self.nodes)

    def type_of_literal(self, node):
        return NODELIST

    def inv(self, s):
        return [("result++rest==nodes",
                 allk(lambda k: trlk(s.result.t, trlk(s.loop(0)["$rest"].t, k)) == trlk(self.nodes, k)))]

    loops = property(lambda self: {0: dict(shape="for node in nodes", inv=self.inv)})

    def ensures(self, st):
        return [("trace-is-concatenation", allk(lambda k: trk(st.result.t, k) == trlk(self.nodes, k)))]


class SimplifyBlock(MapContract):
    def __init__(self):
        super().__init__("ASTSimplifyMapper.map_Block", Node.is_Block)

    def m_flat(self, ctx, it, args, kw):
        nodes = A._collect_nodes(ctx, args)
        r = z3.Const(fresh_name("flat"), Node)
        ctx.assume(allk(lambda k: trk(r, k) == trlk(nodes, k)))
        return NODE.wrap(r)

    nested = property(lambda self: {"flat_Block": self.m_flat})

    def trace_inv(self, s):
        return ("done++current++queue==expr",
                allk(lambda k: trlk(s.children.t, trk(s.current_child.t, trlk(s.children_queue.t, k)))
                     == trk(self.expr, k)))

    def inv_a(self, s):
        return [("children-empty", s.children.t == NodeList.Nil), self.trace_inv(s)]

    def inv_b(self, s):
        return [self.trace_inv(s)]

    loops = property(lambda self: {
        # termination: the total size of the nodes still queued decreases (an inner Block is replaced by its
        # children, which weigh one less)
        0: dict(shape="while isinstance(current_child, NullASTNode)", inv=self.inv_a,
                variant=lambda s: A.lsize(s.children_queue.t)),
        1: dict(shape="while children_queue", inv=self.inv_b,
                variant=lambda s: A.lsize(s.children_queue.t)),
    })


# ---- ASTPostSimplifyMapper ---------------------------------------------------------------------
class PostBlock(MapContract):
    def __init__(self):
        super().__init__("ASTPostSimplifyMapper.map_Block", Node.is_Block)

    def inv(self, s):
        return [("new_children++rest==expr",
                 allk(lambda k: trlk(s.new_children.t, trlk(s.loop(0)["$rest"].t, k)) == trk(self.expr, k)))]

    loops = property(lambda self: {0: dict(shape="for child in expr.children", inv=self.inv)})


class PostCall(MapContract):
    """ASTPostSimplifyMapper.__call__(ast): same trace, and the result is never a bare Null"""

    def __init__(self):
        super().__init__("ASTPostSimplifyMapper.__call__", lambda n: z3.BoolVal(True))

    calls = {"self.rec": m_rec}      # the entry point dispatches on the node itself (no recursion here)

    def params(self, ctx):
        ctx.env["self"] = VObj(TObj("Mapper", {}), {})
        ctx.env["ast"] = NODE.wrap(self.expr)

    def ensures(self, st):
        return [("same-leaf-trace-under-every-valuation", same_trace(st.result.t, self.expr)),
                ("top-level-is-never-Null", Not(Node.is_Null(st.result.t)))]


# ---- simplify_ast ------------------------------------------------------------------------------
class SimplifyAst(FunctionContract):
    prop = PROP
    relpath = REL
    qualname = "simplify_ast"
    axioms = tuple(ground_axioms())
    prune_quantified = False

    def __init__(self):
        self.ast = z3.Const("ast", Node)

    def params(self, ctx):
        ctx.env["ast"] = NODE.wrap(self.ast)

    @staticmethod
    def _mk(name):
        return VClass(name, lambda ctx, it, a, k: VObj(TObj(name, {}), {}))

    def m_apply(self, ctx, it, args, kw):
        """apply_pass(ast, pass_) = pass_(ast): Mapper.__call__ is rec (A-ID) for the first two
        passes, ASTPostSimplifyMapper.__call__ (own contract) for the third"""
        x = ctx.deref(args[0])
        pass_ = ctx.deref(args[1])
        r = z3.Const(fresh_name("pass"), Node)
        ctx.assume(same_trace(r, x.t))
        if pass_.ty.name == "ASTPostSimplifyMapper":
            ctx.assume(Not(Node.is_Null(r)))
        return NODE.wrap(r)

    def m_reduce(self, ctx, it, args, kw):
        f, seq, init = args
        seq = ctx.deref(seq)
        if not isinstance(seq, VTuple) or not isinstance(f, VFunc):
            raise Unsupported("reduce over %r" % (seq,))
        acc = init
        for x in seq.items:
            acc = f.fn(ctx, it, [acc, x], {})
        return acc

    nested = property(lambda self: {"apply_pass": self.m_apply})
    names = property(lambda self: {
        "ASTPreSimplifyMapper": self._mk("ASTPreSimplifyMapper"),
        "ASTSimplifyMapper": self._mk("ASTSimplifyMapper"),
        "ASTPostSimplifyMapper": self._mk("ASTPostSimplifyMapper"),
        "reduce": VFunc("reduce", self.m_reduce)})

    def ensures(self, st):
        return [("same-leaf-trace-under-every-valuation", same_trace(st.result.t, self.ast)),
                ("top-level-is-never-Null", Not(Node.is_Null(st.result.t)))]


def lemma_map():
    """L-MAP: (forall x k. trk(f x, k) == trk(x, k))  =>  forall k. trlk(map f l, k) == trlk(l, k);
    induction on l with explicit hypothesis (step proved here, structural induction rule trusted)."""
    f = z3.Function("f", Node, Node)
    mp = z3.Function("mp", NodeList, NodeList)
    x = z3.Const("x", Node)
    h = z3.Const("h", Node)
    t = z3.Const("t", NodeList)
    k = z3.Const("k", Trace)
    ax = definitional_axioms()
    N = NodeList
    hyps = [ForAll([x, k], trk(f(x), k) == trk(x, k)),
            mp(N.Nil) == N.Nil,
            mp(N.Cons(h, t)) == N.Cons(f(h), mp(t))]
    return ax, [
        ("L-MAP/base", hyps, And(trlk(mp(N.Nil), K) == trlk(N.Nil, K), llen(mp(N.Nil)) == 0)),
        ("L-MAP/step", hyps + [ForAll([k], trlk(mp(t), k) == trlk(t, k)), llen(mp(t)) == llen(t)],
         And(trlk(mp(N.Cons(h, t)), K) == trlk(N.Cons(h, t), K),
             llen(mp(N.Cons(h, t))) == llen(N.Cons(h, t)))),
    ]


def lemma_app():
    """L-APP: trlk(app(xs, ys), k) == trlk(xs, trlk(ys, k)), llen additive, app(xs, Nil) == xs,
    associativity; induction on xs."""
    h = z3.Const("h", Node)
    t, ys, zs = z3.Consts("t ys zs", NodeList)
    k = z3.Const("k", Trace)
    ax = definitional_axioms()
    N = NodeList
    return ax, [
        ("L-APP/base", [], And(trlk(app(N.Nil, ys), K) == trlk(N.Nil, trlk(ys, K)),
                               llen(app(N.Nil, ys)) == llen(N.Nil) + llen(ys),
                               app(N.Nil, N.Nil) == N.Nil,
                               app(app(N.Nil, ys), zs) == app(N.Nil, app(ys, zs)))),
        ("L-APP/step", [ForAll([k], trlk(app(t, ys), k) == trlk(t, trlk(ys, k))),
                        llen(app(t, ys)) == llen(t) + llen(ys),
                        app(t, N.Nil) == t, app(app(t, ys), zs) == app(t, app(ys, zs))],
         And(trlk(app(N.Cons(h, t), ys), K) == trlk(N.Cons(h, t), trlk(ys, K)),
             llen(app(N.Cons(h, t), ys)) == llen(N.Cons(h, t)) + llen(ys),
             app(N.Cons(h, t), N.Nil) == N.Cons(h, t),
             app(app(N.Cons(h, t), ys), zs) == app(N.Cons(h, t), app(ys, zs)))),
    ]


def units():
    I = "ASTIdentityMapper."
    us = [
        FunctionUnit(MapContract(I + "map_IfThenElse", Node.is_IfThenElse)),
        FunctionUnit(MapContract(I + "map_IfThen", Node.is_IfThen)),
        FunctionUnit(MapContract(I + "map_ForLoop", Node.is_ForLoop)),
        FunctionUnit(MapContract(I + "map_Block", Node.is_Block)),
        FunctionUnit(MapContract(I + "map_NullASTNode", Node.is_Null)),
        FunctionUnit(MapContract(I + "map_StatementWrapper", Node.is_Leaf)),
        FunctionUnit(MapContract("ASTPreSimplifyMapper.map_IfThen", Node.is_IfThen)),
        FunctionUnit(SimplifyITE()),
        FunctionUnit(FlatBlock()),
        FunctionUnit(SimplifyBlock()),
        FunctionUnit(MapContract("ASTPostSimplifyMapper.map_IfThenElse", Node.is_IfThenElse)),
        FunctionUnit(PostBlock()),
        FunctionUnit(MapContract("ASTPostSimplifyMapper.map_ForLoop", Node.is_ForLoop)),
        FunctionUnit(MapContract("ASTPostSimplifyMapper.map_StatementWrapper", Node.is_Leaf)),
        FunctionUnit(PostCall()),
        FunctionUnit(SimplifyAst()),
        LemmaUnit("lemma:L-MAP", lemma_map),
        LemmaUnit("lemma:L-APP", lemma_app),
    ]
    # A-ID (conditions and bounds come back as equal expressions; dispatch by node class) is stated for mappers that override
    # only the tree-node methods under contract: a further method (say, one that rewrites guard expressions) is outside it
    from pyvc.contracts import ClassShapeUnit
    D = "dagrt/codegen/dag_ast.py"
    us += [ClassShapeUnit(D, "ASTIdentityMapper", {"map_IfThenElse", "map_IfThen", "map_ForLoop", "map_Block", "map_NullASTNode",
                                                  "map_StatementWrapper"}, ["IdentityMapper"], "A-ID"),
           ClassShapeUnit(D, "ASTPreSimplifyMapper", {"map_IfThen"}, ["ASTIdentityMapper"], "A-ID"),
           ClassShapeUnit(D, "ASTSimplifyMapper", {"map_IfThenElse", "map_Block"}, ["ASTIdentityMapper"], "A-ID"),
           ClassShapeUnit(D, "ASTPostSimplifyMapper", {"__call__", "map_IfThenElse", "map_Block", "map_ForLoop",
                                                      "map_StatementWrapper"}, ["ASTIdentityMapper"], "A-ID")]
    return us


LEVEL = "proof"
BOUNDED = {"quick": {"timeout_s": 60}, "thorough": {"timeout_s": 600}}
TRUSTED_BASE = [
    "A-ID: pymbolic IdentityMapper.rec dispatches to the method named by the node class's mapper_method; on condition / bound expressions it returns an equal expression",
    "structural induction on trees: `self.rec` enters every map_* through the shared trace contract (induction hypothesis); the rule itself is trusted, every map_* body is verified",
    "L-MAP and L-APP are proved by z3 with an explicit induction hypothesis (lemma units); the list induction rule is trusted",
    "functools.reduce(f, (p1,p2,p3), x) == f(f(f(x,p1),p2),p3); collections.deque popleft/extendleft/append semantics as modelled (extendleft reverses)",
]
ASSUMPTIONS = [
    "conditions are the constants True/False, LogicalNot(c), or any other expression (an opaque atom with an arbitrary truth value sigma); structural equality of conditions",
    "trace semantics for a fixed valuation sigma of the atoms (flags are single-assignment: C10 clause d); ForLoop = opaque brackets around the body trace",
    "node classes are exactly the six classes of dag_ast.py; type(expr)(...) builds a node of expr's own class",
    "termination ('terminates without an error on every input'): variants are proved for the not-stripping loop of map_IfThenElse (depth of the condition) and for both "
    "loops of map_Block (total size of the queued nodes: an inner Block is replaced by its children, which weigh one less); every recursive call self.rec(x) in the "
    "map_* methods carries the obligation that x is strictly smaller than the node being mapped (size measure nsize / lsize, defined by structural recursion); "
    "for loops over node lists are finite by construction",
]
EXPLANATION = ("All map_* methods of the three simplification passes (and of ASTIdentityMapper, which they inherit from) plus simplify_ast "
               "are executed symbolically from dag_ast.py over a recursive ADT of trees. The executed-leaf trace is encoded in "
               "continuation-passing style (no sequence theory); every method is proved to return a tree with the same trace under every "
               "valuation and to raise no exception (deque.popleft on an empty queue, missing attribute, index errors included).")
