"""Spec vocabulary for dagrt.codegen.dag_ast trees (C05, C06).

Trees are a recursive ADT; the executed-leaf trace `tr` (for a fixed, arbitrary
valuation sigma of the condition atoms) is an uninterpreted function with its
defining equations as pattern-guarded axioms (definitional unfolding only, no
induction).  Traces are z3 sequences of events.  Lemmas about list functions
(L-APP, length) enter as ground instances where a term is created.
"""
import ast as pyast
import z3
from z3 import And, Or, Not, Implies, ForAll, If

from pyvc.values import *  # noqa

Atom = z3.DeclareSort("Atom")          # a non-constant, non-negation condition expression
from .dagspec import Stmt as LeafS     # the statement wrapped by a leaf
LVar = z3.DeclareSort("LVar")          # loop variable name
BExpr = z3.DeclareSort("BExpr")        # a loop bound expression
LoopH = z3.Datatype("LoopH")           # loop header (variable, bounds)
LoopH.declare("mkh", ("lvar", LVar), ("lb", BExpr), ("ub", BExpr))
LoopH = LoopH.create()

Cond = z3.Datatype("Cond")
Cond.declare("CTrue")
Cond.declare("CFalse")
Cond.declare("CAtom", ("atom", Atom))
Cond.declare("CNot", ("child", Cond))
Cond = Cond.create()

Node = z3.Datatype("Node")
NodeList = z3.Datatype("NodeList")
Node.declare("Null")
Node.declare("Leaf", ("statement", LeafS))
Node.declare("IfThen", ("it_cond", Cond), ("it_then", Node))
Node.declare("IfThenElse", ("ite_cond", Cond), ("ite_then", Node), ("ite_else", Node))
Node.declare("ForLoop", ("header", LoopH), ("body", Node))
Node.declare("Block", ("children", NodeList))
NodeList.declare("Nil")
NodeList.declare("Cons", ("head", Node), ("tail", NodeList))
Node, NodeList = z3.CreateDatatypes(Node, NodeList)

Event = z3.Datatype("Event")
Event.declare("Exec", ("stmt", LeafS))
Event.declare("Open", ("oh", LoopH))
Event.declare("Close", ("ch", LoopH))
Event = Event.create()
Trace = z3.Datatype("Trace")
Trace.declare("TNil")
Trace.declare("TCons", ("thead", Event), ("ttail", Trace))
Trace = Trace.create()

sigma = z3.Function("sigma", Atom, z3.BoolSort())
ev = z3.Function("ev", Cond, z3.BoolSort())
# continuation-passing trace semantics: trk(n, k) = events executed by n, followed by k
trk = z3.Function("trk", Node, Trace, Trace)
trlk = z3.Function("trlk", NodeList, Trace, Trace)
llen = z3.Function("llen", NodeList, z3.IntSort())
app = z3.Function("app", NodeList, NodeList, NodeList)      # xs + ys
rev = z3.Function("rev", NodeList, NodeList)
cdepth = z3.Function("cdepth", Cond, z3.IntSort())
nsize = z3.Function("nsize", Node, z3.IntSort())
lsize = z3.Function("lsize", NodeList, z3.IntSort())

K = z3.Const("K", Trace)          # the arbitrary continuation goals are stated for
_k = z3.Const("k", Trace)


def allk(body_fn, pat_fn=None):
    """forall k. body(k)"""
    body = body_fn(_k)
    if pat_fn is not None:
        return ForAll([_k], body, patterns=[pat_fn(_k)])
    return ForAll([_k], body)


def loop_trace(h, body_k, k):
    """a loop is an opaque bracket pair around its body's trace; a loop whose body executes
    nothing contributes nothing (so removing an empty loop does not change the trace)"""
    c = Trace.TCons(Event.Close(h), k)
    return If(body_k(c) == c, k, Trace.TCons(Event.Open(h), body_k(c)))


def same_trace(a, b):
    """forall k. trk(a,k) == trk(b,k)"""
    return ForAll([_k], trk(a, _k) == trk(b, _k))


def definitional_axioms():
    """defining equations of the trace semantics (pattern-guarded, no induction)"""
    c = z3.Const("c", Cond)
    a, b, n = z3.Consts("a b n", Node)
    l, l2 = z3.Consts("l l2", NodeList)
    s = z3.Const("s", LeafS)
    h = z3.Const("h", LoopH)
    at = z3.Const("at", Atom)
    k = _k
    N, L, T, E = Node, NodeList, Trace, Event
    ax = []

    def fa(vs, body, pat):
        return ForAll(vs, body, patterns=[pat])
    ax.append(ev(Cond.CTrue) == True)   # noqa: E712
    ax.append(ev(Cond.CFalse) == False)  # noqa: E712
    ax.append(fa([at], ev(Cond.CAtom(at)) == sigma(at), ev(Cond.CAtom(at))))
    ax.append(fa([c], ev(Cond.CNot(c)) == Not(ev(c)), ev(Cond.CNot(c))))
    ax.append(fa([c], cdepth(Cond.CNot(c)) == 1 + cdepth(c), cdepth(Cond.CNot(c))))
    ax.append(fa([c], cdepth(c) >= 0, cdepth(c)))
    ax.append(fa([k], trk(N.Null, k) == k, trk(N.Null, k)))
    ax.append(fa([s, k], trk(N.Leaf(s), k) == T.TCons(E.Exec(s), k), trk(N.Leaf(s), k)))
    ax.append(fa([c, a, k], trk(N.IfThen(c, a), k) == If(ev(c), trk(a, k), k), trk(N.IfThen(c, a), k)))
    ax.append(fa([c, a, b, k], trk(N.IfThenElse(c, a, b), k) == If(ev(c), trk(a, k), trk(b, k)),
                 trk(N.IfThenElse(c, a, b), k)))
    ax.append(fa([h, a, k], trk(N.ForLoop(h, a), k) == loop_trace(h, lambda c: trk(a, c), k),
                 trk(N.ForLoop(h, a), k)))
    ax.append(fa([l, k], trk(N.Block(l), k) == trlk(l, k), trk(N.Block(l), k)))
    ax.append(fa([k], trlk(L.Nil, k) == k, trlk(L.Nil, k)))
    ax.append(fa([n, l, k], trlk(L.Cons(n, l), k) == trk(n, trlk(l, k)), trlk(L.Cons(n, l), k)))
    ax.append(llen(L.Nil) == 0)
    ax.append(fa([n, l], llen(L.Cons(n, l)) == 1 + llen(l), llen(L.Cons(n, l))))
    ax.append(fa([l], llen(l) >= 0, llen(l)))
    ax.append(fa([l], app(L.Nil, l) == l, app(L.Nil, l)))
    ax.append(fa([n, l, l2], app(L.Cons(n, l), l2) == L.Cons(n, app(l, l2)), app(L.Cons(n, l), l2)))
    return ax


def lemma_instances_app(xs, ys):
    """instances of proved list lemmas (lemma unit L-APP) for the term app(xs, ys)"""
    t = app(xs, ys)
    return ([ForAll([_k], trlk(t, _k) == trlk(xs, trlk(ys, _k)), patterns=[trlk(t, _k)]),   # L-APP
             llen(t) == llen(xs) + llen(ys),               # L-LEN
             Implies(ys == NodeList.Nil, t == xs),          # L-APP-NIL
             Implies(xs == NodeList.Nil, t == ys),
             lsize(t) == lsize(xs) + lsize(ys)]
            + lemma_instances_len(xs) + lemma_instances_len(ys) + lemma_instances_len(t))


def size_instances(t):
    """ground unfolding of the size measure at a node-list term"""
    return [lsize(t) >= 0,
            Implies(NodeList.is_Cons(t), lsize(t) == nsize(NodeList.head(t)) + lsize(NodeList.tail(t))),
            Implies(NodeList.is_Cons(t), nsize(NodeList.head(t)) >= 1),
            Implies(And(NodeList.is_Cons(t), Node.is_Block(NodeList.head(t))),
                    nsize(NodeList.head(t)) == 1 + lsize(Node.children(NodeList.head(t))))]


def unfold_size(t):
    """the size measure of a node, one level (recursive definition over the finite tree)"""
    return [nsize(t) >= 1,
            Implies(Node.is_IfThenElse(t), And(nsize(t) == 1 + nsize(Node.ite_then(t)) + nsize(Node.ite_else(t)),
                                               nsize(Node.ite_then(t)) >= 1, nsize(Node.ite_else(t)) >= 1)),
            Implies(Node.is_IfThen(t), And(nsize(t) == 1 + nsize(Node.it_then(t)), nsize(Node.it_then(t)) >= 1)),
            Implies(Node.is_ForLoop(t), And(nsize(t) == 1 + nsize(Node.body(t)), nsize(Node.body(t)) >= 1)),
            Implies(Node.is_Block(t), And(nsize(t) == 1 + lsize(Node.children(t)), lsize(Node.children(t)) >= 0))]


def unfold_node(t):
    """the defining equation of trk at a node *variable* whose constructor is known from a test"""
    N, T, E = Node, Trace, Event
    k = _k

    def q(guard, rhs):
        return ForAll([k], Implies(guard, trk(t, k) == rhs), patterns=[trk(t, k)])
    return [
        q(N.is_Null(t), k),
        q(N.is_Leaf(t), T.TCons(E.Exec(N.statement(t)), k)),
        q(N.is_IfThen(t), If(ev(N.it_cond(t)), trk(N.it_then(t), k), k)),
        q(N.is_IfThenElse(t), If(ev(N.ite_cond(t)), trk(N.ite_then(t), k), trk(N.ite_else(t), k))),
        q(N.is_ForLoop(t), loop_trace(N.header(t), lambda c: trk(N.body(t), c), k)),
        q(N.is_Block(t), trlk(N.children(t), k)),
    ]


def unfold_list(t):
    k = _k
    return [ForAll([k], Implies(NodeList.is_Cons(t), trlk(t, k) == trk(NodeList.head(t), trlk(NodeList.tail(t), k))),
                   patterns=[trlk(t, k)]),
            ForAll([k], Implies(NodeList.is_Nil(t), trlk(t, k) == k), patterns=[trlk(t, k)])]


def unfold_cond(c):
    return [Implies(Cond.is_CNot(c), And(ev(c) == Not(ev(Cond.child(c))), cdepth(c) == 1 + cdepth(Cond.child(c)))),
            cdepth(c) >= 0,
            Implies(Cond.is_CNot(c), cdepth(Cond.child(c)) >= 0)]


def ground_axioms():
    return definitional_axioms()


def define(t):
    """kept for call sites: constructor terms are covered by the pattern-guarded definitional axioms"""
    return []


def lemma_instances_len(t):
    return [llen(t) >= 0,
            (llen(t) == 0) == (t == NodeList.Nil),
            Implies(llen(t) == 1, t == NodeList.Cons(NodeList.head(t), NodeList.Nil))]


# ---------------------------------------------------------------------------
# engine values
# ---------------------------------------------------------------------------

LVAR = TElem("LVar", LVar)
BEXPR = TElem("BExpr", BExpr)
ATOM = TElem("Atom", Atom)
LEAFS = TElem("LeafS", LeafS)
LOOPH = TElem("LoopH", LoopH)

COND = TElem(
    "Cond", Cond,
    fields={"child": (Cond.child, None, lambda c: Cond.is_CNot(c))},
    classes={"LogicalNot": Cond.is_CNot},
)
COND.fields["child"] = (Cond.child, COND, lambda c: Cond.is_CNot(c))
# structural equality of pymbolic expressions / python constants
COND.eq = lambda a, b: a == b


def _cond_const_eq(t, const):
    # `condition is True` / `condition is False`
    if isinstance(const, VBool) and z3.is_true(const.t):
        return t == Cond.CTrue
    if isinstance(const, VBool) and z3.is_false(const.t):
        return t == Cond.CFalse
    return None


COND.const_eq = _cond_const_eq
COND.on_inspect = unfold_cond


def _cond_identity(ctx, it, a, b):
    return None


class TNodeList(Ty):
    sort = NodeList

    def wrap(self, term):
        return VNodeList(term)

    def empty(self):
        return VNodeList(NodeList.Nil)


class VNodeList(V):
    """tuple / list / deque of AST nodes as an ADT list"""

    def __init__(self, t):
        self.t = t
        self.ty = NODELIST

    def __repr__(self):
        return "VNodeList(%s)" % self.t

    def truth(self, it):
        return self.t != NodeList.Nil

    def length(self, it):
        for f in lemma_instances_len(self.t):
            it.ctx.assume(f)
        return VInt(llen(self.t))

    def getitem(self, it, idx, node):
        if isinstance(idx, VInt) and z3.is_int_value(idx.t) and idx.t.as_long() == 0:
            if not it.ctx.branch(NodeList.is_Cons(self.t), "index0"):
                it.ctx.raise_("IndexError")
            return NODE.wrap(NodeList.head(self.t))
        raise Unsupported("node list index")

    def fresh_like(self, ctx, base):
        return VNodeList(z3.Const(fresh_name(base), NodeList))

    def for_loop(self, it, s, k, spec, ex):
        """for x in <node list>: ghost $done (prefix processed) and $rest (suffix left)"""
        ctx = it.ctx
        whole = self.t
        ex["$whole"] = VNodeList(whole)
        ex["$done"] = VNodeList(NodeList.Nil)
        ex["$rest"] = VNodeList(whole)

        def guard_fn():
            rest, done = ex["$rest"].t, ex["$done"].t
            ctx.assume(app(done, rest) == whole)
            for f in lemma_instances_app(done, rest):
                ctx.assume(f)
            return NodeList.is_Cons(rest)

        def prologue():
            for f in unfold_list(ex["$rest"].t) + size_instances(ex["$rest"].t) + size_instances(ex["$done"].t) \
                    + [lsize(NodeList.tail(ex["$rest"].t)) >= 0, lsize(whole) >= 0]:
                ctx.assume(f)
            it.assign(s.target, NODE.wrap(NodeList.head(ex["$rest"].t)))

        def epilogue():
            rest, done = ex["$rest"].t, ex["$done"].t
            one = NodeList.Cons(NodeList.head(rest), NodeList.Nil)
            nd = app(done, one)
            for f in lemma_instances_app(done, one) + define(one):
                ctx.assume(f)
            # app(app(done,[h]), tail) == app(done, Cons(h, tail))   (associativity instance)
            ctx.assume(app(nd, NodeList.tail(rest)) == app(done, rest))
            ex["$done"] = VNodeList(nd)
            ex["$rest"] = VNodeList(NodeList.tail(rest))

        it.run_cut_loop(s, k, spec, guard_fn, prologue, epilogue, lambda: None)


NODELIST = TNodeList()


def _nl_popleft(ctx, it, obj, args, kw):
    o = ctx.deref(obj)
    if not ctx.branch(NodeList.is_Cons(o.t), "popleft"):
        ctx.raise_("IndexError")
    ctx.store(obj, VNodeList(NodeList.tail(o.t)))
    for f in size_instances(o.t) + unfold_list(o.t) + unfold_list(NodeList.tail(o.t)):
        ctx.assume(f)
    return NODE.wrap(NodeList.head(o.t))


def _nl_append(ctx, it, obj, args, kw):
    o = ctx.deref(obj)
    x = ctx.deref(args[0]).t
    one = NodeList.Cons(x, NodeList.Nil)
    for f in lemma_instances_app(o.t, one) + define(one):
        ctx.assume(f)
    ctx.store(obj, VNodeList(app(o.t, one)))
    return NONE


def _nl_extend(ctx, it, obj, args, kw):
    o = ctx.deref(obj)
    other = ctx.deref(args[0])
    for f in lemma_instances_app(o.t, other.t):
        ctx.assume(f)
    ctx.store(obj, VNodeList(app(o.t, other.t)))
    return NONE


def _nl_extendleft(ctx, it, obj, args, kw):
    """deque.extendleft(xs) pushes the elements of xs one by one on the left: the result is
    rev(xs) ++ queue"""
    o = ctx.deref(obj)
    other = ctx.deref(args[0])
    r = _rev_term(other.t)
    for f in lemma_instances_app(r, o.t):
        ctx.assume(f)
    ctx.store(obj, VNodeList(app(r, o.t)))
    return NONE


def _rev_term(t):
    # rev(rev(x)) == x  (involution, ground rewrite)
    if z3.is_app(t) and t.decl().eq(rev):
        return t.arg(0)
    return rev(t)


VNodeList.methods = {"popleft": _nl_popleft, "append": _nl_append, "extend": _nl_extend,
                     "extendleft": _nl_extendleft}


def b_reversed(ctx, it, args, kw):
    v = ctx.deref(args[0])
    if isinstance(v, VNodeList):
        return VNodeList(_rev_term(v.t))
    raise Unsupported("reversed(%r)" % (v,))


def b_deque(ctx, it, args, kw):
    v = ctx.deref(args[0])
    if isinstance(v, VNodeList):
        return ctx.alloc(VNodeList(v.t))
    raise Unsupported("deque(%r)" % (v,))


NODE = TElem(
    "Node", Node,
    fields={
        "statement": (Node.statement, LEAFS, lambda n: Node.is_Leaf(n)),
        "body": (Node.body, None, lambda n: Node.is_ForLoop(n)),
    },
    classes={
        "NullASTNode": Node.is_Null, "StatementWrapper": Node.is_Leaf, "IfThen": Node.is_IfThen,
        "IfThenElse": Node.is_IfThenElse, "ForLoop": Node.is_ForLoop, "Block": Node.is_Block,
    },
)


NODE.on_inspect = unfold_node


def _node_field(name, variants, wrap):
    """attribute shared by several constructors (condition, then)"""
    def get(ctx, t):
        conds = [test(t) for test, _ in variants]
        if not ctx.branch(Or(*conds) if len(conds) > 1 else conds[0], "hasattr:" + name):
            ctx.raise_("AttributeError")
        for f in unfold_node(t):
            ctx.assume(f)
        term = variants[-1][1](t)
        for test, acc in reversed(variants[:-1]):
            term = If(test(t), acc(t), term)
        return wrap(term)
    return get


NODE.fields["condition"] = _node_field("condition", [(Node.is_IfThen, Node.it_cond),
                                                     (Node.is_IfThenElse, Node.ite_cond)], COND.wrap)
NODE.fields["then"] = _node_field("then", [(Node.is_IfThen, Node.it_then),
                                           (Node.is_IfThenElse, Node.ite_then)], lambda t: NODE.wrap(t))
NODE.fields["else_"] = _node_field("else_", [(Node.is_IfThenElse, Node.ite_else)], lambda t: NODE.wrap(t))
NODE.fields["body"] = _node_field("body", [(Node.is_ForLoop, Node.body)], lambda t: NODE.wrap(t))
NODE.fields["children"] = _node_field("children", [(Node.is_Block, Node.children)], lambda t: VNodeList(t))
NODE.fields["loop_var_name"] = _node_field("loop_var_name", [(Node.is_ForLoop, lambda n: LoopH.lvar(Node.header(n)))], LVAR.wrap)
NODE.fields["lbound"] = _node_field("lbound", [(Node.is_ForLoop, lambda n: LoopH.lb(Node.header(n)))], BEXPR.wrap)
NODE.fields["ubound"] = _node_field("ubound", [(Node.is_ForLoop, lambda n: LoopH.ub(Node.header(n)))], BEXPR.wrap)


def _collect_nodes(ctx, args):
    """positional args (with *star) of a node constructor -> NodeList term"""
    parts = []
    for a in args:
        a2 = ctx.deref(a.value) if isinstance(a, VStar) else ctx.deref(a)
        if isinstance(a, VStar):
            parts.append(("list", a2.t))
        else:
            parts.append(("one", a2.t))
    # build right to left
    out = NodeList.Nil
    for kind, t in reversed(parts):
        if kind == "one":
            out = NodeList.Cons(t, out)
        else:
            if out.eq(NodeList.Nil):
                out = t
            else:
                for f in lemma_instances_app(t, out):
                    ctx.assume(f)
                out = app(t, out)
    for f in define(out):
        ctx.assume(f)
    return out


def _mk(ctx, ty, term):
    for f in define(term):
        ctx.assume(f)
    return ty.wrap(term)


def _c_Block(ctx, it, args, kw):
    return _mk(ctx, NODE, Node.Block(_collect_nodes(ctx, args)))


def _c_Null(ctx, it, args, kw):
    return NODE.wrap(Node.Null)


def _c_IfThen(ctx, it, args, kw):
    c, a = [ctx.deref(x) for x in args]
    return _mk(ctx, NODE, Node.IfThen(c.t, a.t))


def _c_IfThenElse(ctx, it, args, kw):
    c, a, b = [ctx.deref(x) for x in args]
    return _mk(ctx, NODE, Node.IfThenElse(c.t, a.t, b.t))


def _c_ForLoop(ctx, it, args, kw):
    names = ["loop_var_name", "lbound", "ubound", "body"]
    vals = dict(zip(names, args))
    vals.update(kw)
    v = {k: ctx.deref(x) for k, x in vals.items()}
    return _mk(ctx, NODE, Node.ForLoop(LoopH.mkh(v["loop_var_name"].t, v["lbound"].t, v["ubound"].t), v["body"].t))


def _c_Leaf(ctx, it, args, kw):
    return _mk(ctx, NODE, Node.Leaf(ctx.deref(args[0]).t))


def _c_LogicalNot(ctx, it, args, kw):
    return _mk(ctx, COND, Cond.CNot(ctx.deref(args[0]).t))


NODE_CLASSES = {
    "Block": VClass("Block", _c_Block),
    "NullASTNode": VClass("NullASTNode", _c_Null),
    "IfThen": VClass("IfThen", _c_IfThen),
    "IfThenElse": VClass("IfThenElse", _c_IfThenElse),
    "ForLoop": VClass("ForLoop", _c_ForLoop),
    "StatementWrapper": VClass("StatementWrapper", _c_Leaf),
    "LogicalNot": VClass("LogicalNot", _c_LogicalNot),
    "reversed": VFunc("reversed", b_reversed),
    "deque": VFunc("deque", b_deque),
}
