"""C07 — get_statements_in_ast and ASTStatementRewriter.map_StatementWrapper (the frame around the rewriters).

get_statements_in_ast(ast) yields exactly the statements wrapped by the leaves of the tree (as a set: the name and id
generators are seeded from them, apply_statement_rewriter's contract speaks about 'all statements of the tree');
map_StatementWrapper replaces a leaf by the statements its rewriter returns, in their order (one leaf or a Block).
"""
import z3
from z3 import And, Or, Not, Implies, ForAll, Select, Store, If, BoolSort

from pyvc.values import *  # noqa
from pyvc.contracts import FunctionContract, FunctionUnit
from .astspec import Node, NodeList, NODE, NODE_CLASSES, VNodeList, LeafS, LEAFS

REL = "dagrt/codegen/dag_ast.py"
StmtSet = z3.ArraySort(LeafS, BoolSort())
LS = z3.Function("statements_of", Node, StmtSet)
LSL = z3.Function("statements_of_list", NodeList, StmtSet)
EMPTY = z3.K(LeafS, z3.BoolVal(False))


def _union(a, b):
    p, q = z3.Bools("p q")
    return z3.Map(z3.Or(p, q).decl(), a, b)


def unfold_ls(t):
    """definition of statements_of, one level"""
    return [Implies(Node.is_Leaf(t), LS(t) == Store(EMPTY, Node.statement(t), True)),
            Implies(Node.is_IfThen(t), LS(t) == LS(Node.it_then(t))),
            Implies(Node.is_IfThenElse(t), LS(t) == _union(LS(Node.ite_then(t)), LS(Node.ite_else(t)))),
            Implies(Node.is_ForLoop(t), LS(t) == LS(Node.body(t))),
            Implies(Node.is_Block(t), LS(t) == LSL(Node.children(t)))]


def unfold_lsl(l):
    return [Implies(l == NodeList.Nil, LSL(l) == EMPTY),
            Implies(NodeList.is_Cons(l), LSL(l) == _union(LS(NodeList.head(l)), LSL(NodeList.tail(l))))]


class Leaves(FunctionContract):
    prop = "C07"
    relpath = REL
    qualname = "get_statements_in_ast"
    prune_quantified = False
    raises = {"ValueError": lambda st: [("only-for-a-node-that-is-none-of-the-five-classes", Node.is_Null(st._env["ast"].t))]}

    def __init__(self):
        self.t = z3.Const("ast", Node)

    def params(self, ctx):
        ctx.env["ast"] = NODE.wrap(self.t)
        ctx.ghost["yielded"] = EMPTY
        for f in unfold_ls(self.t) + unfold_lsl(NodeList.Nil):
            ctx.assume(f)

    def on_yield(self, ctx, it, v):
        v = ctx.deref(v)
        ctx.ghost["yielded"] = Store(ctx.ghost["yielded"], v.t, True)

    def on_yield_from(self, ctx, it, v):
        # the recursive call, by this contract: yields exactly statements_of(child)
        v = ctx.deref(v)
        ctx.ghost["yielded"] = _union(ctx.ghost["yielded"], LS(v.t))
        return NONE

    def m_rec(self, ctx, it, args, kw):
        return ctx.deref(args[0])

    names = property(lambda self: dict(NODE_CLASSES, get_statements_in_ast=VFunc("get_statements_in_ast", self.m_rec)))

    def getattr_hook(self, ctx, it, obj, name):
        o = ctx.deref(obj)
        if isinstance(o, VElem) and o.ty is NODE and name == "__class__":
            return VObj(TObj("cls", {}), {"__name__": VPy("<class name>")})
        return None

    def inv_list(self, s):
        rest = s.loop(0)["$rest"].t
        done = s.loop(0)["$done"].t
        return [("yielded-so-far-are-the-statements-of-the-children-done", s.g("yielded") == LSL(done))]

    def facts(self, s):
        rest = s.loop(0)["$rest"].t
        done = s.loop(0)["$done"].t
        one = NodeList.Cons(NodeList.head(rest), NodeList.Nil)
        from .astspec import app
        return (unfold_lsl(rest) + unfold_lsl(done) + unfold_lsl(one) + unfold_lsl(NodeList.Nil)
                + [LSL(app(done, one)) == _union(LSL(done), LSL(one))])      # instance of lemma L-APP-LS (proved below)

    loops = property(lambda self: {0: dict(shape="for child in children", inv=self.inv_list, facts=self.facts,
                                           havoc_ghosts=["yielded"])})

    def ensures(self, st):
        return [("yields-exactly-the-statements-of-the-leaves", st.g("yielded") == LS(self.t))]


class VNewStmts(V):
    """the list map_statement returned: n >= 1 statements (tagged by position)"""
    ty = None

    def __init__(self, many):
        self.many = many          # z3 Bool: more than one


class VWrapped(V):
    """[StatementWrapper(stmt) for stmt in <list>]: the same statements, wrapped, in order"""
    ty = None

    def __init__(self, src):
        self.src = src


class MapStatementWrapper(FunctionContract):
    """ASTStatementRewriter.map_StatementWrapper: the leaf is replaced by the statements the rewriter returned for ITS
    statement, each wrapped, in their order (a Block when there are several, the single leaf otherwise)"""
    prop = "C07"
    relpath = "dagrt/codegen/transform.py"
    qualname = "ASTStatementRewriter.map_StatementWrapper"

    def params(self, ctx):
        self.many = z3.Bool("rewriter_returned_several_statements")
        ctx.env["self"] = VObj(TObj("Rewriter", {}), {"map_statement": VFunc("map_statement", self.m_map)})
        ctx.env["expr"] = VObj(TObj("Leaf", {}), {"statement": VPy("<statement of the leaf>")})
        ctx.ghost["asked"] = None

    def m_map(self, ctx, it, args, kw):
        a = ctx.deref(args[0])
        ctx.ghost["asked"] = getattr(a, "py", None)
        return VNewStmts(self.many)

    def comp(self, ctx, it, e):
        import ast as pyast
        gen = e.generators[0]
        src = ctx.deref(it.eval(gen.iter))
        ok = (isinstance(e, pyast.ListComp) and len(e.generators) == 1 and not gen.ifs and isinstance(src, VNewStmts)
              and pyast.unparse(e.elt) == "StatementWrapper(%s)" % pyast.unparse(gen.target))
        if not ok:
            raise Unsupported("comprehension %s" % pyast.unparse(e))
        return VWrapped(src)

    @property
    def comprehensions(self):
        import ast as pyast
        from .c16 import _comprehensions_of
        return {pyast.unparse(c): self.comp for c in _comprehensions_of(self.relpath, self.qualname)}

    def m_len(self, ctx, it, args, kw):
        a = ctx.deref(args[0])
        if isinstance(a, VWrapped):
            n = z3.Int(fresh_name("n_statements"))
            ctx.assume(And(n >= 1, (n > 1) == a.src.many))     # every rewriter returns at least one statement (their contracts)
            return VInt(n)
        raise Unsupported("len(%r)" % (a,))

    def m_block(self, ctx, it, args, kw):
        a = [ctx.deref(x) for x in args]
        ok = len(a) == 1 and isinstance(a[0], VStar) and isinstance(ctx.deref(a[0].value), VWrapped)
        return VPy("Block(all the wrapped statements in order)" if ok else "Block(?)")

    names = property(lambda self: {"len": VFunc("len", self.m_len), "Block": VFunc("Block", self.m_block),
                                   "StatementWrapper": VClass("StatementWrapper")})

    def getitem_hook(self, *a):
        return None

    def ensures(self, st):
        r = st.result
        asked = st.g("asked") == "<statement of the leaf>"
        if isinstance(r, VPy):
            return [("rewriter-asked-about-the-leaf's-own-statement", z3.BoolVal(asked)),
                    ("several-statements-become-a-Block-of-all-of-them-in-order",
                     And(z3.BoolVal(r.py == "Block(all the wrapped statements in order)"), self.many))]
        if isinstance(r, VPy) is False and isinstance(r, VFirst):
            return [("rewriter-asked-about-the-leaf's-own-statement", z3.BoolVal(asked)),
                    ("a-single-statement-stays-a-single-leaf", Not(self.many))]
        return [("returns-a-node", z3.BoolVal(False))]


class VFirst(V):
    ty = None


def _wrapped_getitem(self, it, idx, node):
    i = it.ctx.deref(idx)
    if isinstance(i, VInt) and z3.is_int_value(z3.simplify(i.t)) and z3.simplify(i.t).as_long() == 0:
        return VFirst()
    raise Unsupported("index into the wrapped list")


VWrapped.getitem = _wrapped_getitem


def lemma_app_ls():
    """L-APP-LS: statements_of_list(app(xs, ys)) == statements_of_list(xs) | statements_of_list(ys); induction on xs"""
    from .astspec import app, definitional_axioms
    h = z3.Const("h", Node)
    t, ys = z3.Consts("t ys", NodeList)
    N = NodeList
    defs = lambda l: unfold_lsl(l)   # noqa
    return definitional_axioms(), [
        ("L-APP-LS/base", defs(N.Nil) + defs(app(N.Nil, ys)), LSL(app(N.Nil, ys)) == _union(LSL(N.Nil), LSL(ys))),
        ("L-APP-LS/step", [LSL(app(t, ys)) == _union(LSL(t), LSL(ys))] + defs(N.Cons(h, t)) + defs(app(N.Cons(h, t), ys))
         + defs(N.Cons(h, app(t, ys))),
         LSL(app(N.Cons(h, t), ys)) == _union(LSL(N.Cons(h, t)), LSL(ys)))]


def units():
    from pyvc.contracts import LemmaUnit
    return [FunctionUnit(Leaves()), LemmaUnit("lemma:L-APP-LS", lemma_app_ls), FunctionUnit(MapStatementWrapper())]
