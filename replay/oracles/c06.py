"""Native oracle for C06 (runs the real dagrt.codegen.dag_ast.simplify_ast).

Input format (JSON-able, self-contained):  {"tree": T}

    T    ::= ["L", label]                 leaf = StatementWrapper(Nop(id=label))
           | ["N"]                        NullASTNode()
           | ["B", T, ...]                Block(*children)   (zero children allowed)
           | ["I", cond, T]               IfThen(cond, then)
           | ["E", cond, T, T]            IfThenElse(cond, then, else_)
           | ["F", var, lb, ub, T]        ForLoop(var, lb, ub, body); a bound is an int or a variable name
    cond ::= true | false | "p"           flag  = pymbolic variable "<cond>p"
           | ["!", "p"]                   LogicalNot(flag)

Oracle (the property statement, nothing else):
  * `simplify_ast(tree)` returns without raising;
  * for EVERY truth assignment of the flags occurring in the tree, the sequence of leaf labels executed by the
    result equals the one executed by the original (independent trace function below; a ForLoop is an opaque
    bracket (var, lb, ub) around its body's trace; a bracket around an empty trace is dropped on both sides, so
    only leaf executions are compared).
"""
import collections
import itertools
import json
import random

from pymbolic import var
from pymbolic.primitives import LogicalNot, Variable

from dagrt.codegen import dag_ast as A
from dagrt.language import Nop

FLAG_PREFIX = "<cond>"


# ---- JSON tree -> real objects ---------------------------------------------------

def build_cond(c):
    if c is True or c is False:
        return c
    if isinstance(c, str):
        return var(FLAG_PREFIX + c)
    if isinstance(c, (list, tuple)) and len(c) == 2 and c[0] == "!":
        return LogicalNot(build_cond(c[1]))
    raise ValueError("bad condition %r" % (c,))


def build_bound(b):
    return var(b) if isinstance(b, str) else b


def build(t):
    k = t[0]
    if k == "L":
        return A.StatementWrapper(Nop(id=t[1]))
    if k == "N":
        return A.NullASTNode()
    if k == "B":
        return A.Block(*[build(c) for c in t[1:]])
    if k == "I":
        return A.IfThen(build_cond(t[1]), build(t[2]))
    if k == "E":
        return A.IfThenElse(build_cond(t[1]), build(t[2]), build(t[3]))
    if k == "F":
        return A.ForLoop(t[1], build_bound(t[2]), build_bound(t[3]), build(t[4]))
    raise ValueError("bad node %r" % (t,))


# ---- independent semantics on the JSON tree -------------------------------------------

def ev_json(c, val):
    if c is True or c is False:
        return c
    if isinstance(c, str):
        return val[c]
    return not ev_json(c[1], val)


def trace_json(t, val):
    """tuple of executed items; item = leaf label | ("for", var, lb, ub, body_trace)"""
    k = t[0]
    if k == "L":
        return (t[1],)
    if k == "N":
        return ()
    if k == "B":
        out = ()
        for c in t[1:]:
            out += trace_json(c, val)
        return out
    if k == "I":
        return trace_json(t[2], val) if ev_json(t[1], val) else ()
    if k == "E":
        return trace_json(t[2], val) if ev_json(t[1], val) else trace_json(t[3], val)
    if k == "F":
        body = trace_json(t[4], val)
        return (("for", t[1], str(t[2]), str(t[3]), body),) if body else ()
    raise ValueError("bad node %r" % (t,))


def flags_of_cond(c, acc):
    if isinstance(c, str):
        acc.add(c)
    elif isinstance(c, (list, tuple)):
        flags_of_cond(c[1], acc)


def flags_of(t, acc=None):
    acc = set() if acc is None else acc
    k = t[0]
    if k == "B":
        for c in t[1:]:
            flags_of(c, acc)
    elif k == "I":
        flags_of_cond(t[1], acc)
        flags_of(t[2], acc)
    elif k == "E":
        flags_of_cond(t[1], acc)
        flags_of(t[2], acc)
        flags_of(t[3], acc)
    elif k == "F":
        flags_of(t[4], acc)
    return acc


def size(t):
    k = t[0]
    if k in ("L", "N"):
        return 1
    if k == "B":
        return 1 + sum(size(c) for c in t[1:])
    if k == "I":
        return 1 + size(t[2])
    if k == "E":
        return 1 + size(t[2]) + size(t[3])
    return 1 + size(t[4])


def leaves(t):
    k = t[0]
    if k == "L":
        return 1
    if k == "N":
        return 0
    if k == "B":
        return sum(leaves(c) for c in t[1:])
    if k == "I":
        return leaves(t[2])
    if k == "E":
        return leaves(t[2]) + leaves(t[3])
    return leaves(t[4])


# ---- independent semantics on the real result tree ---------------------------------------

class Unexpected(Exception):
    pass


def ev_real(c, val):
    if c is True or c is False:
        return c
    if isinstance(c, LogicalNot):
        return not ev_real(c.child, val)
    if isinstance(c, Variable) and c.name.startswith(FLAG_PREFIX) and c.name[len(FLAG_PREFIX):] in val:
        return val[c.name[len(FLAG_PREFIX):]]
    raise Unexpected("condition %r is not a constant, a flag of the input or a negation" % (c,))


def trace_real(n, val):
    if isinstance(n, A.StatementWrapper):
        return (n.statement.id,)
    if isinstance(n, A.NullASTNode):
        return ()
    if isinstance(n, A.Block):
        out = ()
        for c in n.children:
            out += trace_real(c, val)
        return out
    if isinstance(n, A.IfThenElse):
        return trace_real(n.then, val) if ev_real(n.condition, val) else trace_real(n.else_, val)
    if isinstance(n, A.IfThen):
        return trace_real(n.then, val) if ev_real(n.condition, val) else ()
    if isinstance(n, A.ForLoop):
        body = trace_real(n.body, val)
        return (("for", n.loop_var_name, str(n.lbound), str(n.ubound), body),) if body else ()
    raise Unexpected("result contains a %s node" % type(n).__name__)


def valuations(flags):
    flags = sorted(flags)
    for bits in itertools.product((False, True), repeat=len(flags)):
        yield dict(zip(flags, bits))


def check(tree, simplify=None):
    """returns None if the property holds on `tree`, else (clause, detail, exc_type_name or None)"""
    simplify = simplify or A.simplify_ast
    try:
        real = build(tree)
        res = simplify(real)
    except Exception as ex:
        return ("terminates-without-error", "simplify_ast raised %s: %s" % (type(ex).__name__, ex),
                type(ex).__name__)
    for val in valuations(flags_of(tree)):
        want = trace_json(tree, val)
        try:
            got = trace_real(res, val)
        except Unexpected as ex:
            return ("same-leaf-sequence", "simplified tree cannot be executed: %s" % ex, None)
        if got != want:
            # sanity: the two independent trace functions agree on the unsimplified real tree
            assert trace_real(real, val) == want
            return ("same-leaf-sequence",
                    "under %s the original executes %s but simplify_ast(tree) executes %s"
                    % (json.dumps(val, sort_keys=True), list(want), list(got)), None)
    return None


# ---- fingerprints of the known findings ----------------------------------------------------

def _is_const(c):
    return c is True or c is False


def _vanishes(t):
    """the middle pass (ASTSimplifyMapper) maps t to a NullASTNode"""
    k = t[0]
    if k == "N":
        return True
    if k == "I" and _is_const(t[1]):
        return _vanishes(t[2]) if t[1] else True
    if k == "E" and _is_const(t[1]):
        return _vanishes(t[2] if t[1] else t[3])
    return False


def _reachable(t):
    """sub-trees the middle pass recurses into (the dead branch of a constant condition is not visited)"""
    yield t
    k = t[0]
    if k == "B":
        for c in t[1:]:
            yield from _reachable(c)
    elif k == "I":
        if t[1] is not False:
            yield from _reachable(t[2])
    elif k == "E":
        if t[1] is not False:
            yield from _reachable(t[2])
        if t[1] is not True:
            yield from _reachable(t[3])
    elif k == "F":
        yield from _reachable(t[4])


def _exposes_block(t):
    """t reaches, through Blocks and the live branch of constant conditions only, a Block with >= 2 children
    (necessary for the middle pass to hand back a Block that an enclosing Block then expands)"""
    k = t[0]
    if k == "B":
        return len(t) - 1 >= 2 or any(_exposes_block(c) for c in t[1:])
    if k == "I" and t[1] is True:
        return _exposes_block(t[2])
    if k == "E" and _is_const(t[1]):
        return _exposes_block(t[2] if t[1] else t[3])
    return False


def _d1_shape(t):
    """some visited Block has a child after its first that exposes a Block with >= 2 children"""
    return any(n[0] == "B" and any(_exposes_block(c) for c in n[2:]) for n in _reachable(t))


def _d2_shape(t):
    """some visited Block has >= 1 children and all of them vanish"""
    return any(n[0] == "B" and len(n) > 1 and all(_vanishes(c) for c in n[1:]) for n in _reachable(t))


def _simplify_with_order_keeping_extendleft(real):
    """the real simplify_ast, run while collections.deque.extendleft keeps the order of its argument"""
    orig = collections.deque

    class OrderKeepingDeque(orig):
        def extendleft(self, it):
            orig.extendleft(self, reversed(list(it)))
    collections.deque = OrderKeepingDeque
    try:
        return A.simplify_ast(real)
    finally:
        collections.deque = orig


def fp_d1(inp):
    """D1: a Block that is a later child of another Block (possibly through constant conditions) is expanded
    with `extendleft`, which reverses its children -- and that reversal is the ONLY reason for the mismatch:
    the failure is a changed leaf sequence (no exception) and it disappears when extendleft keeps the order."""
    t = inp["tree"]
    if not _d1_shape(t):
        return False
    f = check(t)
    if f is None or f[0] != "same-leaf-sequence" or "cannot be executed" in f[1]:
        return False
    return check(t, simplify=_simplify_with_order_keeping_extendleft) is None


def fp_d2(inp):
    """D2: a Block that the middle pass visits has >= 1 children and every one of them simplifies to nothing,
    and the observed failure is the IndexError of popleft() on the emptied queue."""
    t = inp["tree"]
    if not _d2_shape(t):
        return False
    f = check(t)
    return f is not None and f[0] == "terminates-without-error" and f[2] == "IndexError"


FINGERPRINTS = {
    "d1_inner_block_expanded_in_reverse": fp_d1,
    "d2_block_whose_children_all_vanish": fp_d2,
}


# ---- generators -------------------------------------------------------------------------------

def _enumerate(max_size, conds, with_loop):
    """all trees of each exact size 1..max_size with unlabelled leaves (label None)"""
    by_size = {}
    forests = {}

    def forest(n, upto):
        # sequences of trees (each of size <= upto) of total size n
        key = (n, upto)
        if key in forests:
            return forests[key]
        out = [()] if n == 0 else []
        for first in range(1, min(n, upto) + 1):
            for t in by_size[first]:
                for rest in forest(n - first, upto):
                    out.append((t,) + rest)
        forests[key] = out
        return out

    for n in range(1, max_size + 1):
        out = []
        if n == 1:
            out.append(("L", None))
            out.append(("N",))
        for kids in forest(n - 1, n - 1):
            out.append(("B",) + kids)
        if n >= 2:
            for t in by_size[n - 1]:
                for c in conds:
                    out.append(("I", c, t))
                if with_loop:
                    out.append(("F", "i", 0, "n", t))
        if n >= 3:
            for a in range(1, n - 1):
                for t1 in by_size[a]:
                    for t2 in by_size[n - 1 - a]:
                        for c in conds:
                            out.append(("E", c, t1, t2))
        by_size[n] = out
    return by_size


def _first_flag(t):
    k = t[0]
    if k in ("I", "E"):
        c = t[1]
        if isinstance(c, str):
            return c
        if isinstance(c, tuple):
            return c[1]
        for s in t[2:]:
            f = _first_flag(s)
            if f:
                return f
    elif k == "B":
        for s in t[1:]:
            f = _first_flag(s)
            if f:
                return f
    elif k == "F":
        return _first_flag(t[4])
    return None


def label(t, counter=None):
    """JSON form with leaves labelled s0, s1, ... in program order"""
    counter = counter if counter is not None else [0]
    k = t[0]
    if k == "L":
        counter[0] += 1
        return ["L", "s%d" % (counter[0] - 1)]
    if k == "N":
        return ["N"]
    if k == "B":
        return ["B"] + [label(c, counter) for c in t[1:]]
    if k == "I":
        return ["I", _jc(t[1]), label(t[2], counter)]
    if k == "E":
        return ["E", _jc(t[1]), label(t[2], counter), label(t[3], counter)]
    return ["F", t[1], t[2], t[3], label(t[4], counter)]


def _jc(c):
    return list(c) if isinstance(c, tuple) else c


def random_tree(rng, depth, flags):
    r = rng.random()
    if depth <= 0 or r < 0.22:
        return ("L", None) if rng.random() < 0.75 else ("N",)
    if r < 0.55:
        n = rng.choice([0, 1, 1, 2, 2, 2, 3, 3, 4])
        return ("B",) + tuple(random_tree(rng, depth - 1, flags) for _ in range(n))
    c = rng.choice(flags)
    cr = rng.random()
    if cr < 0.12:
        c = True
    elif cr < 0.24:
        c = False
    elif cr < 0.45:
        c = ("!", c)
    elif cr < 0.55:
        c = ("!", ("!", c))            # nested negations: each one swaps the branches once
    elif cr < 0.60:
        c = ("!", ("!", ("!", c)))
    if r < 0.72:
        return ("I", c, random_tree(rng, depth - 1, flags))
    if r < 0.92:
        return ("E", c, random_tree(rng, depth - 1, flags), random_tree(rng, depth - 1, flags))
    return ("F", rng.choice(["i", "j"]), rng.choice([0, 1, "m"]), rng.choice([3, "n"]),
            random_tree(rng, depth - 1, flags))


# ---- entry points -------------------------------------------------------------------------------

def replay(inp):
    if not isinstance(inp, dict) or "tree" not in inp:
        return {"error": "input must be {'tree': ...}"}
    try:
        f = check(inp["tree"])
    except ValueError as ex:
        return {"error": str(ex)}
    if f is None:
        return {"fails": False, "detail": "simplify_ast preserves the leaf sequence under every valuation"}
    return {"fails": True, "detail": "%s: %s" % (f[0], f[1])}


def bounded(payload):
    budget = payload.get("budget") or {}
    tier = payload.get("tier", "quick")
    seed = payload.get("seed", 0)
    rng = random.Random(seed)
    max_size = budget.get("max_size", 5 if tier == "quick" else 6)
    n_random = budget.get("random_trees", 20000 if tier == "quick" else 300000)
    max_depth = budget.get("random_depth", 6 if tier == "quick" else 7)
    active = {e.get("fingerprint") for e in payload.get("known", []) if e.get("fingerprint") in FINGERPRINTS}

    evals = 0
    distinct = set()
    seen = set()
    classes = {}            # (clause, matching fingerprints) -> [count, [smallest failing inputs]]
    parts = collections.Counter()
    samples = []

    def run(tree, origin):
        nonlocal evals
        key = json.dumps(tree, separators=(",", ":"))
        if key in seen:
            parts["duplicates_not_reevaluated"] += 1
            return False
        seen.add(key)
        evals += 1
        if leaves(tree) >= 1 and size(tree) >= 2:
            distinct.add(key)
        f = check(tree)
        if f is None:
            return True
        inp = {"tree": tree}
        fps = tuple(sorted(n for n, fn in FINGERPRINTS.items() if fn(inp)))
        parts["failing_inputs_" + origin] += 1
        for n in fps:
            parts["failing_inputs_matching_" + n] += 1
        if not fps:
            parts["failing_inputs_matching_no_fingerprint"] += 1
        known = any(n in active for n in fps)
        if known:
            parts["failing_inputs_filtered_as_known"] += 1
        c = classes.setdefault((f[0], fps, known), [0, []])
        c[0] += 1
        c[1].append((size(tree), key, f[1]))
        c[1].sort()
        del c[1][3:]
        return True

    # exhaustive part: full alphabet, canonical up to renaming the two flags
    conds = [True, False, "p", ("!", "p"), "q", ("!", "q")]
    # doubly / triply negated guards on the smallest shapes (negation-parity handling)
    for cc in (("!", ("!", "p")), ("!", ("!", ("!", "p")))):
        for t in (("I", cc, ("L", "a")), ("E", cc, ("L", "a"), ("L", "b")),
                  ("B", ("L", "s"), ("E", cc, ("L", "a"), ("L", "b"))),
                  ("E", cc, ("E", "p", ("L", "a"), ("L", "b")), ("L", "c")),
                  ("E", cc, ("L", "a"), ("E", "p", ("L", "b"), ("L", "c")))):
            run(label(t), "exhaustive")
    by_size = _enumerate(max_size, conds, with_loop=True)
    for n in range(1, max_size + 1):
        for t in by_size[n]:
            if _first_flag(t) == "q":
                continue                       # same as the tree with p and q exchanged
            jt = label(t)
            run(jt, "exhaustive")
            parts["exhaustive_size_%d" % n] += 1
            if n == max_size and len(samples) < 2 and leaves(jt) >= 3 and parts["exhaustive_size_%d" % n] % 977 == 0:
                samples.append({"tree": jt})
    # random tail: deeper nesting, three flags
    # (every second one is re-drawn until it has neither known shape, so that a new defect is not masked by the
    # crash / reordering of a known one)
    for i in range(n_random):
        for attempt in range(30):
            t = random_tree(rng, rng.randint(3, max_depth), ["p", "q", "r"])
            if i % 2 == 0 or not (_d1_shape(t) or _d2_shape(t)):
                break
        if size(t) > 60:
            parts["random_skipped_too_large"] += 1
            continue
        jt = label(t)
        if not run(jt, "random"):
            continue
        parts["random_trees_evaluated"] += 1
        if not (_d1_shape(jt) or _d2_shape(jt)):
            parts["random_trees_without_known_shapes"] += 1
        parts["random_max_size"] = max(parts["random_max_size"], size(jt))
        if len(samples) < 4 and 8 <= size(jt) <= 16 and leaves(jt) >= 3:
            samples.append({"tree": jt})

    failures = []
    for (clause, fps, known), (count, smallest) in sorted(classes.items(), key=lambda kv: (kv[0][2], kv[0][0], kv[0][1])):
        parts["class[%s|%s]" % (clause, ",".join(fps) or "-")] = count
        if known:
            continue
        for sz, key, detail in smallest:
            failures.append({"oracle": clause, "input": {"tree": json.loads(key)}, "detail": detail,
                             "matches_fingerprints": list(fps), "inputs_in_this_class": count})
    known_hits = []
    for e in payload.get("known", []):
        try:
            r = replay(e["native"])
        except Exception as ex:            # a known entry for another input format
            r = {"error": str(ex)}
        if r.get("fails"):
            known_hits.append("%s: %s" % (e["id"], e["what"]))
    return {"evaluations": evals, "distinct_nontrivial": len(distinct),
            "rule": "exhaustive: every tree over {leaf, Null, Block (0..k children), IfThen, IfThenElse, ForLoop} "
                    "with <= %d nodes, conditions from {True, False, p, not p, q, not q} (one representative per "
                    "exchange of p and q), leaves labelled distinctly in program order; then %d seeded random trees "
                    "of depth <= %d over three flags (<= 60 nodes).  Each tree is run through the real simplify_ast "
                    "and both trees are traced under every valuation of the occurring flags.  non-trivial = at "
                    "least one leaf and one inner node; distinct = distinct JSON tree" % (max_size, n_random, max_depth),
            "bound": "exhaustive <= %d nodes / 2 flags; random depth <= %d, <= 60 nodes, 3 flags; all 2^k valuations"
                     % (max_size, max_depth),
            "samples": samples[:4], "failures": failures[:20], "known_hits": known_hits,
            "parts": dict(sorted(parts.items())),
            "exhaustive": False}
