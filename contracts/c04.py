"""C04 — each step runs every statement of the phase once, after its dependencies.

Functions under contract (read from /repo/dagrt/language.py on every run):
  ExecutionPhase.depends_on, ExecutionController.reset,
  ExecutionController.update_plan (+ nested add_with_deps), ExecutionController.__call__
"""
import z3
from z3 import And, Or, Not, Implies, ForAll, Select, Store, If, IntSort, BoolSort

from pyvc.values import *  # noqa
from pyvc.contracts import FunctionContract, FunctionUnit, LemmaUnit, call_by_contract
from pyvc.poslist import TPosList, VPosList
from pyvc.engine import Obligation
from .dagspec import *  # noqa

PROP = "C04"
REL = "dagrt/language.py"

PLAN = TPosList(ID)
IDSET = TSet(ID)

DOM = z3.Const("ids_dom", z3.ArraySort(Id, BoolSort()))      # keys of phase.id_to_stmt
IDS = z3.Const("ids_val", z3.ArraySort(Id, Stmt))            # phase.id_to_stmt
num = z3.Function("num", Id, IntSort())                      # height function (from C10's postcondition)
ID2STMT = TDict(ID, STMT)


def dep(x, d):
    return Select(sdeps(Select(IDS, x)), d)


def graph_axioms():
    x, d = z3.Consts("x d", Id)
    return [
        ("id_to_stmt-maps-ids-to-their-statements", ForAll([x], Implies(Select(DOM, x), sid(Select(IDS, x)) == x))),
        ("dependencies-closed(C10)", ForAll([x, d], Implies(And(Select(DOM, x), dep(x, d)), Select(DOM, d)))),
        ("height-function(C10)", ForAll([x, d], Implies(And(Select(DOM, x), dep(x, d)), num(d) < num(x)))),
        ("height>=0", ForAll([x], num(x) >= 0)),
    ]


def WF(E, X, S=None):
    """`E` (early plan) is well-formed with respect to the executed set X"""
    x, d = z3.Consts("x d", Id)
    return [
        ("early-elements-are-unexecuted-statements",
         ForAll([x], Implies(E.has(x), And(Not(Select(X, x)), Select(DOM, x))))),
        ("early-deps-executed-or-earlier",
         ForAll([x, d], Implies(And(E.has(x), dep(x, d)),
                                Or(Select(X, d), And(E.has(d), E.before(d, x)))))),
    ]


def PI(P, S, X):
    """plan invariant"""
    x, d = z3.Consts("x d", Id)
    return [
        ("plan_id_set=set(plan)", S == P.M),
        ("planned-not-executed", ForAll([x], Implies(P.has(x), And(Not(Select(X, x)), Select(DOM, x))))),
        ("planned-deps-executed-or-earlier-in-plan",
         ForAll([x, d], Implies(And(P.has(x), dep(x, d)),
                                Or(Select(X, d), And(P.has(d), P.before(d, x)))))),
    ]


def new_self(ctx, prefix="self"):
    ty = TObj("ExecutionController", {})
    plan = PLAN.fresh(prefix + "_plan")
    for f in plan.wf():
        ctx.assume(f)
    obj = VObj(ty, {
        "plan": ctx.alloc(plan),
        "plan_id_set": ctx.alloc(IDSET.fresh(prefix + "_plan_id_set")),
        "executed_ids": ctx.alloc(IDSET.fresh(prefix + "_executed_ids")),
    })
    return ctx.alloc(obj)


def sf(st, name):
    return st.field("self", name)


# ==========================================================================
class SinkContract(FunctionContract):
    """ExecutionPhase.depends_on = ids of the phase that no statement of the phase depends on"""
    prop = PROP
    relpath = REL
    qualname = "ExecutionPhase.depends_on"

    def __init__(self):
        self.p = z3.Const("self_phase", Phase)

    def params(self, ctx):
        ctx.env["self"] = PHASE.wrap(self.p)

    def requires(self, st):
        return [("len>=0", ph_n(self.p) >= 0)]

    def inv(self, s):
        d = z3.Const("d", Id)
        i, j = z3.Ints("i j")
        p = self.p
        k = s.loop(0)["$i"].t
        has_id = lambda d_: z3.Exists([j], And(0 <= j, j < ph_n(p), sid(Select(ph_a(p), j)) == d_))  # noqa
        return [
            ("result-subset-of-ids", ForAll([d], Implies(Select(s.result.t, d), has_id(d)))),
            ("result-excludes-deps-of-processed",
             ForAll([d, i], Implies(And(0 <= i, i < k, Select(sdeps(Select(ph_a(p), i)), d)),
                                    Not(Select(s.result.t, d))))),
            ("ids-nobody-processed-depends-on-are-in",
             ForAll([d, j], Implies(
                 And(0 <= j, j < ph_n(p), sid(Select(ph_a(p), j)) == d,
                     ForAll([i], Implies(And(0 <= i, i < k), Not(Select(sdeps(Select(ph_a(p), i)), d))))),
                 Select(s.result.t, d)))),
        ]

    loops = property(lambda self: {0: dict(shape="for stmt in self.statements", inv=self.inv)})

    def ensures(self, st):
        d = z3.Const("d", Id)
        i, j = z3.Ints("i j")
        p = self.p
        r = st.result.t
        return [
            ("sinks-are-ids", ForAll([d], Implies(Select(r, d), z3.Exists(
                [j], And(0 <= j, j < ph_n(p), sid(Select(ph_a(p), j)) == d))))),
            ("nobody-depends-on-a-sink",
             ForAll([d, i], Implies(And(0 <= i, i < ph_n(p), Select(sdeps(Select(ph_a(p), i)), d)),
                                    Not(Select(r, d))))),
            ("every-id-nobody-depends-on-is-a-sink",
             ForAll([d, j], Implies(
                 And(0 <= j, j < ph_n(p), sid(Select(ph_a(p), j)) == d,
                     ForAll([i], Implies(And(0 <= i, i < ph_n(p)), Not(Select(sdeps(Select(ph_a(p), i)), d))))),
                 Select(r, d)))),
        ]


# ==========================================================================
class ResetContract(FunctionContract):
    prop = PROP
    relpath = REL
    qualname = "ExecutionController.reset"

    def params(self, ctx):
        ctx.env["self"] = new_self(ctx)

    def ensures(self, st):
        x = z3.Const("x", Id)
        P = sf(st, "plan")
        return [("plan-empty", P.lo == P.hi),
                ("plan-has-no-members", ForAll([x], Not(P.has(x)))),
                ("plan_id_set-empty", ForAll([x], Not(Select(sf(st, "plan_id_set").t, x)))),
                ("executed_ids-empty", ForAll([x], Not(Select(sf(st, "executed_ids").t, x))))]


# ==========================================================================
class AddWithDepsContract(FunctionContract):
    """nested `add_with_deps(stmt)`; free variables self, early_plan, id_to_stmt are parameters"""
    prop = PROP
    relpath = REL
    qualname = "ExecutionController.update_plan.add_with_deps"

    def __init__(self):
        self.s = z3.Const("stmt", Stmt)

    def params(self, ctx):
        ctx.env["self"] = new_self(ctx)
        E = PLAN.fresh("early_plan")
        for f in E.wf():
            ctx.assume(f)
        ctx.env["early_plan"] = ctx.alloc(E)
        ctx.env["id_to_stmt"] = ctx.alloc(VDict(ID2STMT, DOM, IDS))
        ctx.env["stmt"] = STMT.wrap(self.s)
        ctx.env["add_with_deps"] = VFunc("add_with_deps", self.recursive_call)

    def requires(self, st):
        X, S = sf(st, "executed_ids").t, sf(st, "plan_id_set").t
        return (graph_axioms()
                + [("stmt-is-a-statement-of-the-phase",
                    And(Select(DOM, sid(self.s)), Select(IDS, sid(self.s)) == self.s))]
                + WF(st.early_plan, X, S))

    @staticmethod
    def post(E0, E1, X, S, s_id):
        x = z3.Const("x", Id)
        return ([("old-early-plan-is-a-prefix", E0.is_prefix_of(E1))]
                + WF(E1, X, S)
                + [("requested-is-executed-or-planned-early", Or(Select(X, s_id), E1.has(s_id))),
                   ("new-elements-are-the-statement-or-lower",
                    ForAll([x], Implies(And(E1.has(x), Not(E0.has(x))), Or(x == s_id, num(x) < num(s_id)))))])

    def recursive_call(self, ctx, it, args, kw):
        callee = ctx.deref(args[0]).t
        ref = ctx.env["early_plan"]
        E0 = ctx.deref(ref)
        selfo = ctx.deref(ctx.env["self"])
        X, S = ctx.deref(selfo.fields["executed_ids"]).t, ctx.deref(selfo.fields["plan_id_set"]).t
        pre = ([("stmt-is-a-statement-of-the-phase",
                 And(Select(DOM, sid(callee)), Select(IDS, sid(callee)) == callee))]
               + WF(E0, X, S)
               + [("decreases", And(num(sid(callee)) < num(sid(self.s)), num(sid(callee)) >= 0))])
        return call_by_contract(
            ctx, it, "add_with_deps", pre, [ref],
            lambda: [f for _, f in self.post(E0, ctx.deref(ref), X, S, sid(callee))])

    def inv(self, s):
        x = z3.Const("x", Id)
        X, S = sf(s, "executed_ids").t, sf(s, "plan_id_set").t
        E, E0 = s.early_plan, s.old.early_plan
        proc = s.loop(0)["$proc"].t
        sid_ = sid(self.s)
        return ([("entry-early-plan-is-a-prefix", E0.is_prefix_of(E)),
                 ("executed-unchanged", X == sf(s.old, "executed_ids").t),
                 ("planned-unchanged", S == sf(s.old, "plan_id_set").t)]
                + WF(E, X, S)
                + [("processed-deps-executed-or-planned-early",
                    ForAll([x], Implies(Select(proc, x), Or(Select(X, x), E.has(x))))),
                   ("new-elements-are-lower",
                    ForAll([x], Implies(And(E.has(x), Not(E0.has(x))), num(x) < num(sid_))))])

    loops = property(lambda self: {0: dict(shape="for dep_id in stmt.depends_on", inv=self.inv)})
    call_modifies = {"add_with_deps": ["early_plan"]}

    def ensures(self, st):
        X, S = sf(st, "executed_ids").t, sf(st, "plan_id_set").t
        return (self.post(st.old.early_plan, st.early_plan, X, S, sid(self.s))
                + [("executed-unchanged", X == sf(st.old, "executed_ids").t),
                   ("planned-unchanged", S == sf(st.old, "plan_id_set").t)])


# ==========================================================================
class UpdatePlanContract(FunctionContract):
    prop = PROP
    relpath = REL
    qualname = "ExecutionController.update_plan"

    def __init__(self, ids_as="set"):
        self.ids_as = ids_as
        self.variant_name = "execute_ids:" + ids_as
        self.req = z3.Const("execute_ids", IDSET.sort)

    def params(self, ctx):
        ctx.env["self"] = new_self(ctx)
        ctx.env["phase"] = PHASE.fresh("phase")
        if self.ids_as == "set":
            ctx.env["execute_ids"] = VSet(IDSET, self.req)
        else:
            L = TList(ID).fresh("execute_ids")
            ctx.assume(L.n >= 0)
            self.L = L
            ctx.env["execute_ids"] = L

    def requested(self, x):
        if self.ids_as == "set":
            return Select(self.req, x)
        j = z3.Int("jr")
        return z3.Exists([j], And(0 <= j, j < self.L.n, Select(self.L.a, j) == x))

    attr_exprs = {"phase.id_to_stmt": lambda ctx, it: ctx.alloc(VDict(ID2STMT, DOM, IDS))}

    def type_of_literal(self, node):
        return PLAN

    def requires(self, st):
        x = z3.Const("x", Id)
        j = z3.Int("j")
        R = graph_axioms() + PI(sf(st, "plan"), sf(st, "plan_id_set").t, sf(st, "executed_ids").t)
        if self.ids_as == "set":
            R.append(("requested-are-statements", ForAll([x], Implies(Select(self.req, x), Select(DOM, x)))))
        else:
            R.append(("requested-are-statements",
                      ForAll([j], Implies(And(0 <= j, j < self.L.n), Select(DOM, Select(self.L.a, j))))))
        return R

    def nested_add(self, ctx, it, args, kw):
        callee = ctx.deref(args[0]).t
        ref = ctx.env["early_plan"]
        E0 = ctx.deref(ref)
        selfo = ctx.deref(ctx.env["self"])
        X, S = ctx.deref(selfo.fields["executed_ids"]).t, ctx.deref(selfo.fields["plan_id_set"]).t
        pre = ([("stmt-is-a-statement-of-the-phase",
                 And(Select(DOM, sid(callee)), Select(IDS, sid(callee)) == callee))]
               + WF(E0, X, S))
        return call_by_contract(
            ctx, it, "add_with_deps", pre, [ref],
            lambda: [f for _, f in AddWithDepsContract.post(E0, ctx.deref(ref), X, S, sid(callee))])

    nested = property(lambda self: {"add_with_deps": self.nested_add})
    call_modifies = {"add_with_deps": ["early_plan"]}

    def inv(self, s):
        x = z3.Const("x", Id)
        X, S = sf(s, "executed_ids").t, sf(s, "plan_id_set").t
        E = s.early_plan
        if self.ids_as == "set":
            processed = lambda x_: Select(s.loop(0)["$proc"].t, x_)  # noqa
            cov = ForAll([x], Implies(processed(x), Or(Select(X, x), E.has(x))))
        else:
            j = z3.Int("j")
            cov = ForAll([j], Implies(And(0 <= j, j < s.loop(0)["$i"].t),
                                      Or(Select(X, Select(self.L.a, j)), E.has(Select(self.L.a, j)))))
        return ([("executed-unchanged", X == sf(s.old, "executed_ids").t),
                 ("planned-unchanged", S == sf(s.old, "plan_id_set").t),
                 ("plan-unchanged", sf(s, "plan").same_as(sf(s.old, "plan"))),
                 ("early-lower-bound", E.lo == 0)]
                + WF(E, X, S)
                + [("processed-requests-done-or-planned", cov)])

    loops = property(lambda self: {0: dict(shape="for stmt_id in execute_ids", inv=self.inv)})

    def ensures(self, st):
        x, y = z3.Consts("x y", Id)
        j = z3.Int("j")
        P0, P1 = sf(st.old, "plan"), sf(st, "plan")
        X = sf(st, "executed_ids").t
        S1 = sf(st, "plan_id_set").t
        if self.ids_as == "set":
            cov = ForAll([x], Implies(Select(self.req, x), Or(Select(X, x), P1.has(x))))
        else:
            cov = ForAll([j], Implies(And(0 <= j, j < self.L.n),
                                      Or(Select(X, Select(self.L.a, j)), P1.has(Select(self.L.a, j)))))
        E = st.early_plan
        return ([("executed-unchanged", X == sf(st.old, "executed_ids").t),
                 ("every-requested-id-is-executed-or-planned", cov),
                 ("plan-members=old-plan-members+early-plan",
                  ForAll([x], P1.has(x) == Or(P0.has(x), E.has(x)))),
                 ("statements-not-moved-keep-their-relative-order",
                  ForAll([x, y], Implies(And(P0.has(x), P0.has(y), Not(E.has(x)), Not(E.has(y)), P0.before(x, y)),
                                         P1.before(x, y)))),
                 ("requested-statements-and-their-unvisited-dependencies-come-before-anything-else-planned",
                  ForAll([x, y], Implies(And(E.has(x), P0.has(y), Not(E.has(y))), P1.before(x, y)))),
                 ("requested-part-is-in-dependency-order",
                  ForAll([x, y], Implies(And(E.has(x), E.has(y), E.before(x, y)), P1.before(x, y))))]
                + [("plan-invariant/" + n, f) for n, f in PI(P1, S1, X)])


def units():
    return [FunctionUnit(SinkContract()), FunctionUnit(ResetContract()),
            FunctionUnit(AddWithDepsContract()),
            FunctionUnit(UpdatePlanContract("set")), FunctionUnit(UpdatePlanContract("list"))]


LEVEL = "proof"
TRUSTED_BASE = []
ASSUMPTIONS = []
EXPLANATION = ""
