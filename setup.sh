#!/bin/sh
# offline setup: nothing is built; verify the tools the checks rely on are present
set -e
python3-vt -c "import z3; print('z3', z3.get_version_string())"
/usr/bin/cvc5 --version | head -1
/venv/bin/python -c "import dagrt, pymbolic; print('dagrt importable')"
mkdir -p /verif/evidence /verif/replays
