"""Native oracle for C19 (runs the real dagrt.expression.parse against str() of pymbolic expressions).

Input (JSON): {"expr": <tree>, "clause": optional}   or   {"backtick_name": "<name>"}
tree ::= ["var", name] | ["int", n] | ["float", "repr"] | ["complex", "repr"] | ["bool", true|false]
       | ["sum", t...] | ["prod", t...] | ["quot", t, t] | ["floordiv", t, t] | ["rem", t, t] | ["pow", t, t]
       | ["cmp", op, t, t] | ["and", t...] | ["or", t...] | ["not", t]
       | ["call", t, [t...], {kw: t}] | ["sub", t, [t...]] | ["if", t, t, t]
(unary minus is ["prod", ["int", -1], t], as pymbolic builds it)

Clauses:
  parse       parse(str(e)) raises
  reprint     str(parse(str(e))) != str(e)
  variables   the parsed expression mentions other variables (dagrt.utils.get_variables, with function symbols)
  value       the parsed expression has another value than e under some valuation (own exact evaluator,
              variables -> small rationals, functions / subscripted names -> pure hash tables)
  backtick    with every name written between backticks, the string parses to something that prints
              differently or mentions other variables;  for {"backtick_name": n}: parse("`n`") != Variable(n)
"""
import itertools
import json
import math
import random
import re
from fractions import Fraction

import pymbolic.primitives as p
from pymbolic.mapper import IdentityMapper

from dagrt.expression import parse
from dagrt.utils import get_variables

BACKTICK_OK = re.compile(r"^[<>:a-zA-Z0-9_]*$")
CMP_OPS = ["<", "<=", ">", ">=", "==", "!="]


# {{{ JSON <-> pymbolic

def build(t):
    k = t[0]
    if k == "var":
        return p.Variable(t[1])
    if k == "int":
        return int(t[1])
    if k == "float":
        return float(t[1])
    if k == "complex":
        return complex(t[1])
    if k == "bool":
        return bool(t[1])
    if k == "sum":
        return p.Sum(tuple(build(c) for c in t[1:]))
    if k == "prod":
        return p.Product(tuple(build(c) for c in t[1:]))
    if k == "quot":
        return p.Quotient(build(t[1]), build(t[2]))
    if k == "floordiv":
        return p.FloorDiv(build(t[1]), build(t[2]))
    if k == "rem":
        return p.Remainder(build(t[1]), build(t[2]))
    if k == "pow":
        return p.Power(build(t[1]), build(t[2]))
    if k == "cmp":
        return p.Comparison(build(t[2]), t[1], build(t[3]))
    if k == "and":
        return p.LogicalAnd(tuple(build(c) for c in t[1:]))
    if k == "or":
        return p.LogicalOr(tuple(build(c) for c in t[1:]))
    if k == "not":
        return p.LogicalNot(build(t[1]))
    if k == "call":
        f = build(t[1])
        args = tuple(build(c) for c in t[2])
        kw = t[3] if len(t) > 3 else {}
        if kw:
            from constantdict import constantdict
            return p.CallWithKwargs(f, args, constantdict({n: build(v) for n, v in kw.items()}))
        return p.Call(f, args)
    if k == "sub":
        idx = tuple(build(c) for c in t[2])
        return p.Subscript(build(t[1]), idx)
    if k == "if":
        return p.If(build(t[1]), build(t[2]), build(t[3]))
    raise ValueError("unknown node %r" % (k,))


def children(t):
    k = t[0]
    if k in ("var", "int", "float", "complex", "bool"):
        return []
    if k in ("sum", "prod", "and", "or"):
        return list(t[1:])
    if k in ("quot", "floordiv", "rem", "pow"):
        return [t[1], t[2]]
    if k == "cmp":
        return [t[2], t[3]]
    if k == "not":
        return [t[1]]
    if k == "call":
        return [t[1]] + list(t[2]) + [v for n, v in sorted((t[3] if len(t) > 3 else {}).items())]
    if k == "sub":
        return [t[1]] + list(t[2])
    if k == "if":
        return [t[1], t[2], t[3]]
    raise ValueError(k)


def replace(t, old, new):
    if t == old:
        return new
    k = t[0]
    if k in ("var", "int", "float", "complex", "bool"):
        return t
    if k == "cmp":
        return [k, t[1], replace(t[2], old, new), replace(t[3], old, new)]
    if k == "call":
        return [k, replace(t[1], old, new), [replace(c, old, new) for c in t[2]],
                {n: replace(v, old, new) for n, v in (t[3] if len(t) > 3 else {}).items()}]
    if k == "sub":
        return [k, replace(t[1], old, new), [replace(c, old, new) for c in t[2]]]
    return [k] + [replace(c, old, new) for c in t[1:]]


def names_in(t):
    if t[0] == "var":
        return {t[1]}
    out = set()
    for c in children(t):
        out |= names_in(c)
    return out

# }}}


# {{{ evaluator (the oracle's own semantics of the expression language)

class Skip(Exception):
    """no verdict under this valuation (division by zero, overflow, non-real power, ...)"""


class Unsupported(Skip):
    """the expression has a node that is not part of the expression language (e.g. a tuple)"""


def _h(*key):
    import hashlib
    d = hashlib.sha256(repr(key).encode()).digest()
    return Fraction(int.from_bytes(d[:2], "big") % 7 + 1, int.from_bytes(d[2:4], "big") % 3 + 1)


def _key(v):
    if isinstance(v, bool):
        return ("b", v)
    if isinstance(v, (int, Fraction)):
        v = Fraction(v)
        return ("q", v.numerator, v.denominator)
    if isinstance(v, float):
        return ("f", round(v, 9))
    return ("o", repr(v))


def ev(e, env):
    """env: (seed, {name: value}); unknown names get a value from the hash of (seed, name)"""
    seed, vals = env
    if isinstance(e, bool):
        return e
    if isinstance(e, int):
        return Fraction(e)
    if isinstance(e, float):
        if math.isnan(e) or math.isinf(e):
            raise Skip
        return Fraction(e)
    if isinstance(e, complex):
        raise Skip
    if isinstance(e, p.Variable):
        if e.name in vals:
            return vals[e.name]
        return _h(seed, "var", e.name)
    if isinstance(e, p.Sum):
        r = Fraction(0)
        for c in e.children:
            r = r + ev(c, env)
        return r
    if isinstance(e, p.Product):
        r = Fraction(1)
        for c in e.children:
            r = r * ev(c, env)
        return r
    if isinstance(e, (p.Quotient, p.FloorDiv, p.Remainder)):
        a, b = ev(e.numerator, env), ev(e.denominator, env)
        if b == 0:
            raise Skip
        if isinstance(e, p.Quotient):
            return a / b
        if isinstance(e, p.FloorDiv):
            return Fraction(a // b)
        return a % b
    if isinstance(e, p.Power):
        a, b = ev(e.base, env), ev(e.exponent, env)
        if isinstance(b, (int, Fraction)) and Fraction(b).denominator == 1 and isinstance(a, (int, Fraction, bool)):
            n = int(b)
            if abs(n) > 40:
                raise Skip
            if a == 0 and n < 0:
                raise Skip
            r = Fraction(a) ** n
            if r.numerator.bit_length() > 4000 or r.denominator.bit_length() > 4000:
                raise Skip
            return r
        # a non-integer exponent would bring in floating point; everything else is exact rational
        # arithmetic, so give no verdict under this valuation instead of comparing rounded numbers
        raise Skip
    if isinstance(e, p.Comparison):
        a, b = ev(e.left, env), ev(e.right, env)
        import operator
        return {"<": operator.lt, "<=": operator.le, ">": operator.gt, ">=": operator.ge,
                "==": operator.eq, "!=": operator.ne}[e.operator](a, b)
    if isinstance(e, p.LogicalAnd):
        return all([bool(ev(c, env)) for c in e.children])
    if isinstance(e, p.LogicalOr):
        return any([bool(ev(c, env)) for c in e.children])
    if isinstance(e, p.LogicalNot):
        return not bool(ev(e.child, env))
    if isinstance(e, p.If):
        c = ev(e.condition, env)
        # both branches are evaluated so that Skip does not depend on the branch taken
        t, f = ev(e.then, env), ev(e.else_, env)
        return t if c else f
    if isinstance(e, (p.Call, p.CallWithKwargs)):
        args = tuple(_key(ev(a, env)) for a in e.parameters)
        kw = ()
        if isinstance(e, p.CallWithKwargs):
            kw = tuple(sorted((n, _key(ev(v, env))) for n, v in e.kw_parameters.items()))
        if isinstance(e.function, p.Variable):
            fkey = ("fn", e.function.name)
        else:
            fkey = ("fv", _key(ev(e.function, env)))
        return _h(seed, "call", fkey, args, kw)
    if isinstance(e, p.Subscript):
        idx = e.index if isinstance(e.index, tuple) else (e.index,)
        ikey = tuple(_key(ev(i, env)) for i in idx)
        if isinstance(e.aggregate, p.Variable):
            akey = ("an", e.aggregate.name)
        else:
            akey = ("av", _key(ev(e.aggregate, env)))
        return _h(seed, "sub", akey, ikey)
    raise Unsupported(type(e).__name__)


def same_value(a, b):
    if isinstance(a, float) or isinstance(b, float):
        try:
            return math.isclose(float(a), float(b), rel_tol=1e-9, abs_tol=1e-12)
        except OverflowError:
            return True
    return a == b and isinstance(a, bool) == isinstance(b, bool) or (a == b)


def valuations(names, nval=6):
    """the value of a name depends on the valuation number and the name only (not on the other names),
    so a subexpression evaluated on its own sees the values it had inside the larger expression"""
    names = sorted(names)
    out = []
    for s in range(nval):
        vals = {}
        for n in names:
            rng = random.Random("c19-%d-%s" % (s, n))
            if s == 0:
                vals[n] = Fraction(rng.choice([2, 3]))
            elif s == 1:
                vals[n] = Fraction(rng.randint(1, 4))
            elif s == 2:
                vals[n] = Fraction(rng.randint(-3, 3))
            elif s == 3:
                vals[n] = Fraction(rng.choice([-2, -1, 1, 2]))
            else:
                vals[n] = Fraction(rng.randint(-5, 5), rng.randint(1, 3))
        out.append((s, vals))
    return out


def value_difference(e, q, names):
    """first valuation on which both have a value and the values differ, else None"""
    for env in valuations(names):
        try:
            a = ev(e, env)
        except (Skip, OverflowError, ZeroDivisionError):
            continue
        try:
            b = ev(q, env)
        except (OverflowError, ZeroDivisionError):
            continue
        except Unsupported as ex:
            return "under %s the original has value %s, the parsed one contains a %s" % (_fmt(env), a, ex)
        except Skip:
            continue
        if not same_value(a, b):
            return "under %s: original %s, parsed %s" % (_fmt(env), a, b)
    return None


def _fmt(env):
    return "{" + ", ".join("%s=%s" % (n, v) for n, v in sorted(env[1].items())) + "}"

# }}}


class _Backticker(IdentityMapper):
    def map_variable(self, expr):
        return p.Variable("`" + expr.name + "`")


def _viol(clause, detail):
    return {"clause": clause, "detail": detail}


def in_domain_name(n):
    # a plain identifier or <tag>identifier / <tag>; not a keyword of the expression syntax
    m = re.match(r"^(<[A-Za-z_][A-Za-z0-9_]*>)?([A-Za-z_][A-Za-z0-9_]*)?$", n)
    if not m or not n:
        return False
    for part in (m.group(1) or "<x>")[1:-1], m.group(2) or "x":
        if part in ("and", "or", "not", "if", "else", "True", "False"):
            return False
    return True


_CACHE = {}


def check_tree(t):
    key = json.dumps(t, sort_keys=True)
    if key not in _CACHE:
        if len(_CACHE) > 100000:
            _CACHE.clear()
        _CACHE[key] = _check_tree(t)
    return _CACHE[key]


def _check_tree(t):
    e = build(t)
    names = names_in(t)
    if not all(in_domain_name(n) for n in names):
        return None
    viols = []
    s = str(e)
    try:
        q = parse(s)
    except Exception as ex:
        viols.append(_viol("parse", "str(e) = %r does not parse: %s %s" % (s, type(ex).__name__, ex)))
        q = None
    if q is not None:
        s2 = str(q)
        if s2 != s:
            viols.append(_viol("reprint", "str(e) = %r but str(parse(str(e))) = %r" % (s, s2)))
        v1 = get_variables(e, include_function_symbols=True)
        v2 = get_variables(q, include_function_symbols=True)
        if v1 != v2 or v1 != frozenset(names):
            viols.append(_viol("variables", "%r: original mentions %s, parsed %s"
                               % (s, sorted(names), sorted(v2))))
        d = value_difference(e, q, names)
        if d:
            viols.append(_viol("value", "%r parses as %r: %s" % (s, q, d)))
    # backticks: only where the plain round trip is fine (otherwise it is the same failure again)
    if all(BACKTICK_OK.match(n) for n in names) and not [v for v in viols if v["clause"] != "value"]:
        sb = str(_Backticker()(e))
        try:
            qb = parse(sb)
            vb = get_variables(qb, include_function_symbols=True)
            if vb != frozenset(names):
                viols.append(_viol("backtick", "%r mentions %s instead of %s" % (sb, sorted(vb), sorted(names))))
            elif str(qb) != s:
                viols.append(_viol("backtick", "%r prints as %r instead of %r" % (sb, str(qb), s)))
        except Exception as ex:
            viols.append(_viol("backtick", "%r does not parse: %s %s" % (sb, type(ex).__name__, ex)))
    return viols


def check(inp):
    if "backtick_name" in inp:
        n = inp["backtick_name"]
        if not BACKTICK_OK.match(n):
            return None
        try:
            q = parse("`%s`" % n)
        except Exception as ex:
            return [_viol("backtick", "`%s` does not parse: %s %s" % (n, type(ex).__name__, ex))]
        if q != p.Variable(n):
            return [_viol("backtick", "`%s` parses as %r" % (n, q))]
        return []
    if inp.get("before"):
        # a history: other texts are parsed first (their outcome does not matter), then the round trip is checked
        for s0 in inp["before"]:
            try:
                parse(s0)
            except Exception:
                pass
        return _check_tree(inp["expr"])
    return check_tree(inp["expr"])


def replay(inp):
    vs = check(inp)
    if vs is None:
        return {"fails": False, "detail": "outside the domain (a name is not an identifier / tagged identifier)"}
    if inp.get("clause"):
        vs = [v for v in vs if v["clause"] == inp["clause"]]
    return {"fails": bool(vs), "detail": "; ".join(v["detail"] for v in vs[:2]) if vs else None}


# {{{ localisation: smallest failing subexpressions

def _fails(t, clause):
    try:
        vs = check_tree(t)
    except Exception:
        return False
    return bool(vs) and any(v["clause"] == clause for v in vs)


def minimal_failing(t, clause):
    for c in children(t):
        if _fails(c, clause):
            return minimal_failing(c, clause)
    return t


def causes(t, clause, limit=4):
    out = []
    n = 0
    while _fails(t, clause) and len(out) < limit:
        m = minimal_failing(t, clause)
        out.append(m)
        if m == t:
            break
        n += 1
        t = replace(t, m, ["var", "hole_%d" % n])
    return out

# }}}


# {{{ fingerprints

def _reassoc_pow(e):
    """what the printed form of a left-nested power parses to: (x**y)**z -> x**(y**z)"""
    class M(IdentityMapper):
        def map_power(self, expr):
            base, exponent = self.rec(expr.base), self.rec(expr.exponent)
            while isinstance(base, p.Power):
                exponent = self.rec(p.Power(base.exponent, exponent))
                base = base.base
            return p.Power(base, exponent)
    return M()(e)


def _reassoc_cmp(e):
    """x op1 (y op2 z) is printed without parentheses and parses as (x op1 y) op2 z"""
    class M(IdentityMapper):
        def map_comparison(self, expr):
            left, right = self.rec(expr.left), self.rec(expr.right)
            if isinstance(right, p.Comparison):
                return self.rec(p.Comparison(p.Comparison(left, expr.operator, right.left),
                                             right.operator, right.right))
            return p.Comparison(left, expr.operator, right)
    return M()(e)


def _fp_rewrite(inp, pattern, rewrite):
    if inp.get("clause") != "value" or "expr" not in inp:
        return False
    t = inp["expr"]
    if not pattern(t):
        return False
    try:
        e = build(t)
        q = parse(str(e))
    except Exception:
        return False
    names = names_in(t)
    if value_difference(e, q, names) is None:
        return False
    # the whole difference is the re-association: the rewritten original agrees with the parsed one
    return value_difference(rewrite(e), q, names) is None and value_difference(q, rewrite(e), names) is None


def _fp_d18(inp):
    """D18: root is a power whose base is a power; str() omits the parentheses; only the value
    clause fails; re-associating the original the way the text reads gives the parsed value"""
    return _fp_rewrite(inp, lambda t: t[0] == "pow" and t[1][0] == "pow", _reassoc_pow)


def _fp_cmp(inp):
    """root is a comparison whose right operand is a comparison, printed without parentheses"""
    return _fp_rewrite(inp, lambda t: t[0] == "cmp" and t[3][0] == "cmp", _reassoc_cmp)


def _fp_backtick_subscript(inp):
    """clause backtick; root is a subscript whose aggregate and indices round-trip on their own:
    parse() does not descend into Subscript nodes when it strips backticks"""
    if inp.get("clause") != "backtick" or "expr" not in inp:
        return False
    t = inp["expr"]
    if t[0] != "sub" or not _fails(t, "backtick"):
        return False
    return not any(_fails(c, "backtick") for c in children(t))


def _comma_list(t):
    if t[0] == "call":
        kw = t[3] if len(t) > 3 else {}
        return list(t[2]) + [kw[n] for n in kw]
    if t[0] == "sub":
        return list(t[2])
    return []


def _fp_if_before_comma(inp):
    """root is a call or subscript with a conditional expression as a direct, non-last element of its
    argument / index list: 'f(a if c else b, z)' -- str() does not parenthesise it and the parser
    reads the else branch as the tuple 'b, z'.  With those elements replaced by plain variables the
    clause does not fail."""
    if "expr" not in inp or inp.get("clause") not in ("parse", "reprint", "variables", "value"):
        return False
    t = inp["expr"]
    lst = _comma_list(t)
    bad = [c for c in lst[:-1] if c[0] == "if"]
    if not bad or not _fails(t, inp["clause"]):
        return False
    r = t
    for i, c in enumerate(bad):
        r = replace(r, c, ["var", "hole_if_%d" % i])
    # the last element may be the same conditional; it is harmless there, keep it if it survived
    return not _fails(r, inp["clause"])


def _fp_const(inp):
    """root is a complex or non-finite float constant (prints as 1j / inf / nan)"""
    if "expr" not in inp or inp.get("clause") not in ("parse", "variables", "reprint", "value", "backtick"):
        return False
    t = inp["expr"]
    if t[0] == "complex":
        return bool(replay(inp)["fails"])
    if t[0] == "float" and (math.isinf(float(t[1])) or math.isnan(float(t[1]))):
        return bool(replay(inp)["fails"])
    return False


def _fp_true_false_name(inp):
    """root is a variable whose identifier part starts with True or False (lexer has no word boundary)"""
    if "expr" not in inp or inp.get("clause") not in ("parse", "variables", "reprint", "backtick"):
        return False
    t = inp["expr"]
    if t[0] != "var":
        return False
    ident = re.sub(r"^<[^>]*>", "", t[1])
    return (ident.startswith("True") or ident.startswith("False")) and bool(replay(inp)["fails"])


FINGERPRINTS = {
    "D18": _fp_d18,
    "left_nested_power": _fp_d18,
    "right_nested_comparison": _fp_cmp,
    "backtick_inside_subscript": _fp_backtick_subscript,
    "conditional_before_comma": _fp_if_before_comma,
    "complex_or_nonfinite_constant": _fp_const,
    "identifier_starting_with_True_False": _fp_true_false_name,
}

# }}}


# {{{ generation

def neg(t):
    return ["prod", ["int", -1], t]


def exhaustive_arith(atoms, depth):
    """all expressions of the given depth over + * / ** and unary minus"""
    levels = [list(atoms)]
    for d in range(1, depth):
        prev = [t for lv in levels for t in lv]
        last = levels[-1]
        cur = []
        for op in ("sum", "prod", "quot", "pow"):
            for a, b in itertools.product(prev, prev):
                if a in last or b in last:
                    cur.append([op, a, b])
        for a in last:
            cur.append(neg(a))
        levels.append(cur)
    return [t for lv in levels for t in lv]


def exhaustive_full(atoms_num, atoms_bool):
    """depth 2 over the whole operator set"""
    out = []
    f = ["var", "<func>f"]
    y = ["var", "<state>y"]
    for a, b in itertools.product(atoms_num, atoms_num):
        for op in ("sum", "prod", "quot", "pow", "floordiv", "rem"):
            out.append([op, a, b])
        for op in CMP_OPS:
            out.append(["cmp", op, a, b])
        out.append(["call", f, [a, b]])
        out.append(["call", f, [a], {"t": b}])
        out.append(["call", f, [], {"t": a, "s": b}])
        out.append(["sub", y, [a, b]])
        for c in atoms_bool:
            out.append(["if", c, a, b])
    for a in atoms_num:
        out += [neg(a), ["call", f, [a]], ["sub", y, [a]], ["sub", a, [["int", 0]]], ["call", a, []]]
    allb = atoms_bool + atoms_num[:2]
    for a, b in itertools.product(allb, allb):
        out += [["and", a, b], ["or", a, b], ["cmp", "==", a, b]]
    for a in allb:
        out.append(["not", a])
    return out


NUM_VARS = ["a", "b", "x1", "<state>y", "<p>k", "<t>", "<dt>", "<p>last_rhs_y", "<ret_state>y", "e1", "d", "j", "_t"]
BOOL_VARS = ["<cond>c", "<cond>done", "flag"]
FUNCS = ["<func>f", "<func>rhs", "<builtin>norm_2", "g"]
AGGS = ["<state>y", "<p>hist", "arr"]
CONSTS = [["int", 0], ["int", 1], ["int", 2], ["int", 3], ["int", -1], ["int", -2], ["float", "0.5"],
          ["float", "1.5"], ["float", "-2.5"], ["float", "1e-12"], ["float", "1e+20"], ["int", 10 ** 25]]


def rand_num(rng, depth):
    r = rng.random()
    if depth <= 0 or r < 0.22:
        if rng.random() < 0.65:
            return ["var", rng.choice(NUM_VARS)]
        return rng.choice(CONSTS)
    if r < 0.36:
        return ["sum"] + [rand_num(rng, depth - 1) for i in range(rng.choice([2, 2, 3]))]
    if r < 0.50:
        return ["prod"] + [rand_num(rng, depth - 1) for i in range(rng.choice([2, 2, 3]))]
    if r < 0.58:
        return ["quot", rand_num(rng, depth - 1), rand_num(rng, depth - 1)]
    if r < 0.68:
        return ["pow", rand_num(rng, depth - 1), rand_num(rng, depth - 1)]
    if r < 0.74:
        return neg(rand_num(rng, depth - 1))
    if r < 0.84:
        kw = {}
        for n in rng.sample(["t", "y", "s"], rng.choice([0, 0, 1, 2])):
            kw[n] = rand_num(rng, depth - 1)
        return ["call", ["var", rng.choice(FUNCS)], [rand_num(rng, depth - 1) for i in range(rng.randint(0, 2))], kw]
    if r < 0.91:
        agg = ["var", rng.choice(AGGS)] if rng.random() < 0.8 else rand_num(rng, depth - 1)
        return ["sub", agg, [rand_num(rng, depth - 1) for i in range(rng.choice([1, 1, 2]))]]
    if r < 0.97:
        return ["if", rand_bool(rng, depth - 1), rand_num(rng, depth - 1), rand_num(rng, depth - 1)]
    return [rng.choice(["floordiv", "rem"]), rand_num(rng, depth - 1), rand_num(rng, depth - 1)]


def rand_bool(rng, depth):
    r = rng.random()
    if depth <= 0 or r < 0.15:
        return ["var", rng.choice(BOOL_VARS)]
    if r < 0.55:
        return ["cmp", rng.choice(CMP_OPS), rand_num(rng, depth - 1), rand_num(rng, depth - 1)]
    if r < 0.70:
        return ["and"] + [rand_bool(rng, depth - 1) for i in range(rng.choice([2, 2, 3]))]
    if r < 0.85:
        return ["or"] + [rand_bool(rng, depth - 1) for i in range(rng.choice([2, 2, 3]))]
    if r < 0.95:
        return ["not", rand_bool(rng, depth - 1)]
    return ["cmp", rng.choice(["==", "!="]), rand_bool(rng, depth - 1), rand_bool(rng, depth - 1)]


def depth_of(t):
    cs = children(t)
    return 1 + (max(depth_of(c) for c in cs) if cs else 0)

# }}}


def bounded(payload):
    budget = payload.get("budget") or {}
    seed = payload.get("seed", 0)
    tier = payload.get("tier", "quick")
    rng = random.Random(seed)
    n_random = budget.get("random_expressions", 1500 if tier == "quick" else 12000)
    arith_atoms = budget.get("arith_atoms", 2 if tier == "quick" else 3)
    max_fail = budget.get("max_failures", 20)

    active = {}
    for e in payload.get("known", []):
        fp = e.get("fingerprint")
        if fp in FINGERPRINTS:
            active[fp] = FINGERPRINTS[fp]

    evals = 0
    skipped = 0
    distinct = set()
    failures = []
    seen = set()
    classes = {}
    suppressed = {}
    would_match = {}
    samples = []
    parts = {}

    def record(finp, cname):
        hit = [n for n, fp in sorted(active.items()) if fp(finp)]
        if hit:
            suppressed[hit[0]] = suppressed.get(hit[0], 0) + 1
            return
        key = json.dumps(finp, sort_keys=True)
        if key in seen:
            return
        seen.add(key)
        matches = sorted(set(n for n, fp in FINGERPRINTS.items() if fp(finp)))
        bucket = (cname, tuple(matches))
        if sum(1 for f in failures if (f["oracle"], tuple(f["matching_fingerprints"])) == bucket) >= 4:
            return
        for n in matches:
            would_match[n] = would_match.get(n, 0) + 1
        failures.append({"oracle": cname, "input": finp, "detail": replay(finp).get("detail"),
                         "matching_fingerprints": matches})

    def run(t):
        nonlocal evals, skipped
        vs = check_tree(t)
        if vs is None:
            skipped += 1
            return
        evals += 1
        if depth_of(t) >= 2:
            distinct.add(json.dumps(t, sort_keys=True))
        for clause in sorted(set(v["clause"] for v in vs)):
            classes[clause] = classes.get(clause, 0) + 1
            for m in causes(t, clause):
                record({"expr": m, "clause": clause}, clause)

    # ---- exhaustive arithmetic, depth 3 ----
    atoms = [["var", "a"], ["var", "b"], ["int", 2]][:arith_atoms]
    ar = exhaustive_arith(atoms, 3)
    parts["exhaustive_arithmetic_depth3"] = len(ar)
    for t in ar:
        run(t)
    samples.append({"expr": ["pow", ["pow", ["var", "a"], ["var", "b"]], ["var", "a"]]})

    # ---- exhaustive depth 2 over the whole operator set ----
    full = exhaustive_full([["var", "a"], ["var", "<state>y"], ["var", "<p>k"], ["int", 2], ["int", -1],
                            ["float", "0.5"]],
                           [["var", "<cond>c"], ["cmp", "<", ["var", "a"], ["var", "<p>k"]]])
    parts["exhaustive_all_operators_depth2"] = len(full)
    for t in full:
        run(t)
    # depth 3 by one more layer on a sample-free subset: every depth-2 form as left / right operand
    # of every binary operator against one atom (precedence and associativity of every pair)
    layer = []
    a = ["var", "a"]
    for t in full:
        for op in ("sum", "prod", "quot", "pow"):
            layer.append([op, t, a])
            layer.append([op, a, t])
        layer.append(["cmp", "<", t, a])
        layer.append(["cmp", "==", a, t])
        layer.append(["and", t, a])
        layer.append(["or", a, t])
        layer.append(["not", t])
        layer.append(neg(t))
        layer.append(["if", t, a, a])
        layer.append(["if", a, t, a])
        layer.append(["if", a, a, t])
        layer.append(["sub", t, [a]])
        layer.append(["call", ["var", "<func>f"], [t], {"t": t}])
    if tier == "quick":
        layer = layer[::budget.get("pair_layer_stride", 4)]
    parts["operator_pair_layer"] = len(layer)
    for t in layer:
        run(t)

    # ---- names ----
    name_list = ["a", "e", "j", "d", "E1", "_", "a1", "andy", "order", "note", "iffy", "elsewhere", "Truex",
                 "Falsey", "true", "<p>e1", "<func>j", "<p>Truex", "<p>and_x", "<ret_time_id>y", "<p>_",
                 "<p_1>x", "<t>", "<dt>", "<p>", "<state>"]
    for n in name_list:
        for t in (["var", n], ["sum", ["var", n], ["int", 1]], ["prod", ["int", 2], ["var", n]],
                  ["call", ["var", n], [["var", n]]], ["cmp", "<", ["var", "a"], ["var", n]],
                  ["cmp", ">", ["var", n], ["var", n]], ["if", ["var", n], ["var", n], ["var", n]]):
            run(t)
    # exotic constants (complex kinds exist in dagrt; their printed form is checked here)
    for c in (["complex", "1j"], ["complex", "(2+3j)"], ["float", "inf"], ["float", "nan"], ["float", "-0.0"],
              ["float", "5e-324"], ["float", "1.7976931348623157e+308"]):
        for t in (c, ["sum", ["var", "a"], c], ["prod", c, ["var", "a"]], ["pow", c, ["var", "a"]]):
            run(t)

    # ---- twins: subexpressions that compare equal in Python (1 == 1.0) but print differently, in one expression ----
    a_ = ["var", "a"]
    twins = [(["int", 1], ["float", "1.0"]), (["int", 2], ["float", "2.0"]), (["int", 0], ["float", "0.0"]),
             (["sum", a_, ["int", 1]], ["sum", a_, ["float", "1.0"]]),
             (["prod", ["int", 2], a_], ["prod", ["float", "2.0"], a_]),
             (["call", ["var", "<func>f"], [["int", 3]]], ["call", ["var", "<func>f"], [["float", "3.0"]]]),
             (["sub", ["var", "<state>y"], [["int", 1]]], ["sub", ["var", "<state>y"], [["float", "1.0"]]])]
    n_tw = 0
    for p_, q_ in twins:
        for x_, y_ in ((p_, q_), (q_, p_)):
            for t in (["sum", x_, y_], ["prod", x_, y_], ["quot", x_, y_], ["pow", x_, y_], ["cmp", "<", x_, y_],
                      ["call", ["var", "g"], [x_, y_]], ["call", ["var", "g"], [x_], {"t": y_}],
                      ["if", ["var", "<cond>c"], x_, y_], ["quot", ["prod", ["var", "b"], x_], y_]):
                run(t)
                n_tw += 1
    parts["equal_but_differently_printed_twins"] = n_tw

    # ---- the constants True / False (they must come back as constants, not as variables named True / False) ----
    n_b = 0
    for bv in (True, False):
        bc = ["bool", bv]
        for t in (bc, ["if", bc, ["var", "<state>y"], ["var", "tol"]], ["or", ["cmp", "<", ["var", "<t>"], ["var", "<dt>"]], bc],
                  ["and", bc, ["var", "<cond>c"]], ["not", bc], ["call", ["var", "<func>f"], [["var", "<state>y"]], {"k": bc}],
                  ["call", ["var", "g"], [bc, ["var", "a"]]], ["cmp", "==", ["var", "flag"], bc],
                  ["if", ["var", "<cond>c"], bc, ["not", bc]], ["sub", ["var", "arr"], [bc]]):
            run(t)
            n_b += 1
    parts["boolean_constant_expressions"] = n_b

    # ---- comparison chains: every pair of operators, nested on the left and on the right, over plain / tagged names and numbers ----
    n_c = 0
    ops3 = [["var", "a"], ["var", "<state>y"], ["var", "tol"], ["int", 2], ["var", "<t>"]]
    for o1 in CMP_OPS:
        for o2 in CMP_OPS:
            for x_, y_, z_ in itertools.product(ops3, repeat=3):
                if tier == "quick" and (n_c + seed) % 3 and not (o1 == "<" and o2 == ">"):
                    n_c += 1
                    continue
                run(["cmp", o2, ["cmp", o1, x_, y_], z_])
                run(["cmp", o1, x_, ["cmp", o2, y_, z_]])
                n_c += 1
    parts["comparison_chain_shapes"] = n_c

    # ---- backtick names, exhaustive over short names ----
    nb = 0
    for n in [""] + ["".join(x) for k in (1, 2, 3) for x in itertools.product("a1_<>:", repeat=k)]:
        inp = {"backtick_name": n}
        vs = check(inp)
        evals += 1
        nb += 1
        if n:
            distinct.add("bt:" + n)
        if vs:
            classes["backtick"] = classes.get("backtick", 0) + 1
            record(dict(inp, clause="backtick"), "backtick")
    parts["backtick_names"] = nb

    # ---- random ----
    for i in range(n_random):
        t = rand_num(rng, rng.randint(2, 4)) if rng.random() < 0.7 else rand_bool(rng, rng.randint(2, 4))
        if i < 3 and depth_of(t) >= 2:
            samples.append({"expr": t})
        run(t)
    parts["random_expressions"] = n_random

    # ---- histories: look-alike texts (the same characters but for blanks; blanks doubled; another case) are parsed first.
    #      Whitespace separates the word operators (not / and / or / if / else) from names, so `not ready` and `notready`
    #      are different expressions, and what one call returned must not colour the next ----
    n_h = 0
    rdy, flg = ["var", "ready"], ["var", "flag"]
    hist = [["not", rdy], ["or", ["not", rdy], ["cmp", ">=", ["var", "<state>y"], ["int", 0]]], ["and", rdy, flg], ["or", rdy, flg],
            ["if", rdy, ["var", "a"], ["var", "b"]], ["and", ["not", rdy], ["not", flg]],
            ["if", ["not", rdy], ["var", "<state>y"], ["var", "tol"]], ["sum", ["var", "a"], ["var", "b"]],
            ["call", ["var", "<func>f"], [["var", "a"]], {"t": ["not", rdy]}], ["cmp", "<", ["var", "a"], ["var", "b"]]]
    for t in hist:
        s0 = str(build(t))
        befores = [[s0.replace(" ", "")], [s0.replace(" ", "  ")], [s0.upper()], [s0.replace(" ", ""), s0.replace(" ", "  ")]]
        for before in befores:
            if before == [s0]:
                continue
            inp = {"expr": t, "before": before}
            vs = check(inp)
            if vs is None:
                continue
            evals += 1
            n_h += 1
            for clause in sorted(set(v["clause"] for v in vs)):
                classes[clause] = classes.get(clause, 0) + 1
                record(dict(inp, clause=clause), clause)
    parts["histories_with_look_alike_texts"] = n_h

    known_hits = []
    for e in payload.get("known", []):
        if e.get("native") is None:
            continue
        if replay(e["native"]).get("fails"):
            known_hits.append("%s: %s" % (e.get("id"), e.get("what")))

    parts.update({"skipped_outside_domain": skipped, "violating_inputs_by_clause": classes,
                  "suppressed_by_known_fingerprint": suppressed,
                  "reported_failures_matching_a_fingerprint": would_match})
    failures.sort(key=lambda f: (bool(f["matching_fingerprints"]), f["oracle"], len(json.dumps(f["input"]))))
    return {"evaluations": evals, "distinct_nontrivial": len(distinct),
            "rule": "pymbolic expressions e; oracle on parse(str(e)).  Exhaustive: all expressions of depth <= 3 over "
                    "+ * / ** unary-minus and %d atoms; all depth-2 expressions over the whole operator set (sum, "
                    "product, quotient, floor-div, remainder, power, 6 comparisons, and/or/not, call with positional "
                    "and keyword arguments, subscript, conditional) with 6 numeric and 2 boolean atoms; each of those "
                    "as an operand of every operator (every %s); listed identifier shapes; every backtick name of "
                    "length <= 3 over {a,1,_,<,>,:}; then seeded random typed expressions of depth <= 5; last, round trips after look-alike texts "
                    "(blanks removed / doubled, other case) have been parsed in the same process.  A failing "
                    "input is reduced to its smallest failing subexpressions.  Non-trivial = has an operator; "
                    "distinct = distinct trees" % (arith_atoms, "4th in the quick tier" if tier == "quick" else "one"),
            "bound": "depth <= 3 exhaustively (arithmetic), depth <= 5 random; 6 valuations per expression "
                     "(small integers and rationals, hash tables for functions and subscripted names)",
            "samples": samples[:4], "failures": failures[:max_fail], "known_hits": known_hits,
            "parts": parts, "exhaustive": False}
