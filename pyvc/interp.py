"""Statement / expression semantics of the modelled Python subset."""
import ast
import z3

from .values import *  # noqa
from .engine import (PathEnd, ReturnSig, RaiseSig, BreakSig, ContinueSig,
                     BUILTIN_EXC, St, Exit, _as_term)

MUTATORS = {"add", "remove", "discard", "append", "pop", "popleft", "extend",
            "extendleft", "appendleft", "clear", "update", "setdefault",
            "insert", "sort", "reverse", "difference_update",
            "intersection_update"}


class VDictItems(V):
    def __init__(self, ref, d):
        self.ref = ref
        self.d = d


def tbool(x):
    return z3.BoolVal(x) if isinstance(x, bool) else x


class Interp:
    def __init__(self, ctx, contract, engine):
        self.ctx = ctx
        self.c = contract
        self.engine = engine
        self.loop_ids, self.loop_nodes = engine.loops
        self.nexit = {"return": 0, "raise": 0}
        self.ob_counts = {}

    # ------------------------------------------------------------------
    def oname(self, kind, line=None):
        line = self.ctx.cur_line if line is None else line
        return "%s@L%s" % (kind, line)

    def unsupported(self, node, why=""):
        raise Unsupported("L%s: %s %s" % (getattr(node, "lineno", "?"),
                                          type(node).__name__, why))

    # ------------------------------------------------------------------
    def run_function(self, fn):
        ctx = self.ctx
        self.c.setup(ctx)          # binds parameters, ghosts; assumes requires
        ctx.old = ctx.snapshot()
        try:
            self.exec_block(fn.body)
            self.exit("return", NONE, fn.end_lineno)
        except ReturnSig as r:
            self.exit("return", r.value, ctx.cur_line)
        except RaiseSig as r:
            self.exit("raise", r.exc, ctx.cur_line)
        except (BreakSig, ContinueSig):
            raise Unsupported("break/continue outside loop")

    def exit(self, kind, value, line):
        ctx = self.ctx
        st = St(dict(ctx.env), dict(ctx.heap), dict(ctx.ghost), old=ctx.old,
                extra={"result": ctx.deref(value) if kind == "return" else None,
                       "exc": value if kind == "raise" else None})
        ctx.cur_line = line
        for name, goal in self.c.exit_obligations(ctx, st, kind, value):
            ctx.oblige("post[%s]/%s@L%s" % (kind, name, line), goal)
        self.engine.exits.append((kind, value, line, list(ctx.pc)))

    # ------------------------------------------------------------------
    # statements
    # ------------------------------------------------------------------
    def exec_block(self, stmts):
        for s in stmts:
            self.exec_stmt(s)

    def exec_stmt(self, s):
        ctx = self.ctx
        ctx.cur_line = s.lineno
        m = getattr(self, "st_" + type(s).__name__, None)
        if m is None:
            self.unsupported(s)
        simple = not isinstance(s, (ast.For, ast.While, ast.If, ast.Try, ast.With))
        gb = getattr(self.c, "ghost_before", None)
        if gb and simple:
            self._fire(gb, ast.unparse(s), "before")
        m(s)
        gu = getattr(self.c, "ghost_updates", None)
        if gu and simple:
            self._fire(gu, ast.unparse(s), "after")

    def _fire(self, table, key, when):
        fired = self.engine.ghost_fired
        if key in table:
            fired.add((when, key))
            table[key](self.ctx, self)
        else:
            import re as _re
            for pat, fn in table.items():
                if pat.startswith("re:") and _re.search(pat[3:], key):
                    fired.add((when, pat))
                    fn(self.ctx, self)

    def st_Pass(self, s):
        pass

    def st_Expr(self, s):
        if isinstance(s.value, ast.Constant):
            return
        if isinstance(s.value, (ast.Yield, ast.YieldFrom)):
            self.eval(s.value)
            return
        self.eval(s.value)

    def st_Return(self, s):
        v = self.eval(s.value) if s.value is not None else NONE
        raise ReturnSig(v)

    def st_Raise(self, s):
        if s.exc is None:
            exc = self.ctx.env.get("$current_exc")
            if exc is None:
                self.unsupported(s, "bare raise outside handler")
            raise RaiseSig(exc)
        v = self.eval(s.exc)
        if isinstance(v, VClass):
            v = VExc(v.name)
        if not isinstance(v, VExc):
            self.unsupported(s, "raise of non-exception %r" % (v,))
        raise RaiseSig(v)

    def st_Assert(self, s):
        t = self.truth(self.eval(s.test))
        if not self.ctx.branch(t, "assert"):
            raise RaiseSig(VExc("AssertionError"))

    def st_Assign(self, s):
        v = self.eval(s.value)
        for tgt in s.targets:
            self.assign(tgt, v)

    def st_AugAssign(self, s):
        cur = self.eval(_load(s.target))
        rhs = self.eval(s.value)
        dc = self.ctx.deref(cur)
        if isinstance(cur, VRef) and isinstance(dc, (VSet, VList)):
            # in-place for mutable containers
            new = self.binop(type(s.op), dc, self.ctx.deref(rhs), s)
            self.ctx.store(cur, self.ctx.deref(new))
            return
        self.assign(s.target, self.binop(type(s.op), dc, self.ctx.deref(rhs), s))

    def st_Delete(self, s):
        for tgt in s.targets:
            if isinstance(tgt, ast.Subscript):
                base = self.eval(tgt.value)
                self.del_item(base, tgt.slice, tgt)
            elif isinstance(tgt, ast.Attribute):
                # del obj.attr on a record in a heap cell: the field is gone
                obj = self.eval(tgt.value)
                o = self.ctx.deref(obj)
                if not (isinstance(obj, VRef) and isinstance(o, VObj) and tgt.attr in o.fields):
                    self.unsupported(s, "del of attribute %s" % tgt.attr)
                nf = dict(o.fields)
                del nf[tgt.attr]
                self.ctx.store(obj, VObj(o.ty, nf))
            else:
                self.unsupported(s, "del of non-subscript")

    def st_If(self, s):
        t = self.truth(self.eval(s.test))
        if self.ctx.branch(t, "if"):
            self.exec_block(s.body)
        else:
            self.exec_block(s.orelse)

    def st_Try(self, s):
        ctx = self.ctx
        try:
            try:
                self.exec_block(s.body)
            except RaiseSig as r:
                handled = False
                for h in s.handlers:
                    if self.exc_matches(r.exc, h.type):
                        handled = True
                        saved = ctx.env.get("$current_exc")
                        ctx.env["$current_exc"] = r.exc
                        if h.name:
                            ctx.env[h.name] = r.exc
                        try:
                            self.exec_block(h.body)
                        finally:
                            if saved is None:
                                ctx.env.pop("$current_exc", None)
                            else:
                                ctx.env["$current_exc"] = saved
                        break
                if not handled:
                    raise
            else:
                self.exec_block(s.orelse)
        except (RaiseSig, ReturnSig, BreakSig, ContinueSig):
            if s.finalbody:
                self.exec_block(s.finalbody)
            raise
        else:
            if s.finalbody:
                self.exec_block(s.finalbody)

    def exc_matches(self, exc, type_node):
        if type_node is None:
            return True
        if isinstance(type_node, ast.Tuple):
            return any(self.exc_matches(exc, e) for e in type_node.elts)
        name = ast.unparse(type_node).split(".")[-1]
        hier = dict(BUILTIN_EXC)
        hier.update(getattr(self.c, "exc_hierarchy", {}) or {})
        if exc.cls == "$any":
            # an arbitrary exception object of unknown class: contract decides
            d = self.c.any_exc_matches(self.ctx, exc, name)
            return d
        seen = set()
        todo = [exc.cls]
        while todo:
            c = todo.pop()
            if c == name:
                return True
            if c in seen:
                continue
            seen.add(c)
            if c not in hier:
                raise Unsupported("unknown exception class %s" % c)
            todo.extend(hier[c])
        if exc.cls in (getattr(self.c, "arbitrary_exception_classes", ()) or ()):
            # an exception of a class the contract leaves open (a user function's): it is none of the classes the contract
            # declares itself, but it may or may not be an instance of any other class named in a handler
            own = getattr(self.c, "exc_hierarchy", {}) or {}
            if name in own:
                return False
            memo = exc.__dict__.setdefault("_matches", {})
            if name not in memo:
                memo[name] = self.ctx.choose(2, "the-exception-is-a-" + name) == 0
            return memo[name]
        return False

    def st_FunctionDef(self, s):
        nested = getattr(self.c, "nested", {})
        if s.name not in nested:
            self.unsupported(s, "nested def %s without contract" % s.name)
        if isinstance(nested[s.name], V):
            self.ctx.env[s.name] = nested[s.name]     # the contract supplies the value the def denotes
        else:
            self.ctx.env[s.name] = VFunc(s.name, nested[s.name])

    def st_Break(self, s):
        raise BreakSig()

    def st_Continue(self, s):
        raise ContinueSig()

    def st_Global(self, s):
        self.unsupported(s)

    # ------------------------------------------------------------------
    # assignment targets
    # ------------------------------------------------------------------
    def assign(self, tgt, v):
        ctx = self.ctx
        if isinstance(tgt, ast.Name):
            ctx.env[tgt.id] = v
        elif isinstance(tgt, (ast.Tuple, ast.List)):
            dv = ctx.deref(v)
            if isinstance(dv, VTuple):
                if len(dv.items) != len(tgt.elts):
                    ctx.raise_("ValueError")
                for t, x in zip(tgt.elts, dv.items):
                    self.assign(t, x)
            else:
                hook = getattr(self.c, "unpack", None)
                if hook is None:
                    self.unsupported(tgt, "unpacking %r" % (dv,))
                items = hook(ctx, dv, len(tgt.elts))
                for t, x in zip(tgt.elts, items):
                    self.assign(t, x)
        elif isinstance(tgt, ast.Attribute):
            obj = self.eval(tgt.value)
            o = ctx.deref(obj)
            sh = getattr(self.c, "setattr_hook", None)
            if sh is not None and sh(ctx, self, obj, tgt.attr, v):
                return
            if isinstance(o, VObj):
                if tgt.attr not in o.ty.fields and tgt.attr not in o.fields:
                    self.unsupported(tgt, "new attribute")
                if isinstance(obj, VRef):
                    nf = dict(o.fields)
                    nf[tgt.attr] = v
                    ctx.store(obj, VObj(o.ty, nf))
                else:
                    o.fields[tgt.attr] = v
            else:
                self.unsupported(tgt, "attribute store on %r" % (o,))
        elif isinstance(tgt, ast.Subscript):
            base = self.eval(tgt.value)
            self.set_item(base, tgt.slice, v, tgt)
        else:
            self.unsupported(tgt)

    def set_item(self, base, slice_node, v, node):
        ctx = self.ctx
        b = ctx.deref(base)
        if hasattr(b, "setitem"):
            return b.setitem(self, self.eval(slice_node), v, node)
        if not isinstance(base, VRef):
            self.unsupported(node, "item store on non-cell")
        if isinstance(b, VDict):
            k = ctx.deref(self.eval(slice_node))
            kt = _as_term(k)
            dv = ctx.deref(v)
            ctx.store(base, VDict(b.ty, z3.Store(b.dom, kt, True),
                                  z3.Store(b.val, kt, _as_term(dv))))
        elif isinstance(b, VList):
            if isinstance(slice_node, ast.Slice):
                self.unsupported(node, "slice store")
            i = ctx.deref(self.eval(slice_node))
            idx = self.norm_index(b, i.t)
            ctx.store(base, VList(b.ty, b.n, z3.Store(b.a, idx, _as_term(ctx.deref(v)))))
        else:
            self.unsupported(node, "item store on %r" % (b,))

    def del_item(self, base, slice_node, node):
        ctx = self.ctx
        b = ctx.deref(base)
        if hasattr(b, "delitem"):
            return b.delitem(self, self.eval(slice_node), node)
        if isinstance(b, VDict):
            k = ctx.deref(self.eval(slice_node))
            kt = _as_term(k)
            if not ctx.branch(z3.Select(b.dom, kt), "del-key"):
                ctx.raise_("KeyError")
            ctx.store(base, VDict(b.ty, z3.Store(b.dom, kt, False), b.val))
        elif isinstance(b, VList) and isinstance(slice_node, ast.Slice) \
                and slice_node.lower is None and slice_node.upper is None:
            ctx.store(base, VList(b.ty, z3.IntVal(0), b.a))
        elif hasattr(b.ty, "empty") and isinstance(slice_node, ast.Slice) \
                and slice_node.lower is None and slice_node.upper is None:
            ctx.store(base, b.ty.empty())
        else:
            self.unsupported(node, "del item on %r" % (b,))

    def norm_index(self, lst, i):
        ctx = self.ctx
        if z3.is_int_value(i):
            iv = i.as_long()
            idx = lst.n + iv if iv < 0 else i
        else:
            idx = z3.If(i < 0, lst.n + i, i)
        ok = z3.And(idx >= 0, idx < lst.n)
        if not ctx.branch(ok, "index"):
            ctx.raise_("IndexError")
        return z3.simplify(idx)

    # ------------------------------------------------------------------
    # loops
    # ------------------------------------------------------------------
    def loop_spec(self, node):
        k = self.loop_ids[id(node)]
        specs = getattr(self.c, "loops", {}) or {}
        if k not in specs:
            raise Unsupported("L%d: loop #%d has no invariant in the contract"
                              % (node.lineno, k))
        spec = specs[k]
        shape = _loop_shape(node)
        if spec.get("shape") is not None and spec["shape"] != shape:
            raise Unsupported("L%d: loop #%d shape %r does not match contract %r"
                              % (node.lineno, k, shape, spec["shape"]))
        return k, spec

    def modified_in(self, body_nodes):
        """names assigned and cells mutated (syntactically) in the loop body"""
        names = set()
        cells = []   # expressions (ast) whose cell is mutated
        fields = set()

        def root_cell(e):
            # a view returned by a method call (d.get(k, ...), d.setdefault(k, ...)): the container
            # itself is what may be written through; never re-evaluate a call for its side effects
            while isinstance(e, ast.Call):
                if isinstance(e.func, ast.Attribute):
                    e = e.func.value
                else:
                    return
            cells.append(e)

        for node in body_nodes:
            for sub in ast.walk(node):
                if isinstance(sub, ast.Name) and isinstance(sub.ctx, (ast.Store, ast.Del)):
                    names.add(sub.id)
                elif isinstance(sub, ast.Attribute) and isinstance(sub.ctx, (ast.Store, ast.Del)):
                    root_cell(sub.value)
                    root_cell(sub)
                    fields.add(ast.unparse(sub))
                elif isinstance(sub, ast.Subscript) and isinstance(sub.ctx, (ast.Store, ast.Del)):
                    root_cell(sub.value)
                elif isinstance(sub, ast.AugAssign):
                    if not isinstance(sub.target, ast.Name):
                        root_cell(sub.target)
                    else:
                        root_cell(sub.target)
                elif isinstance(sub, ast.Call) and isinstance(sub.func, ast.Attribute) \
                        and sub.func.attr in MUTATORS:
                    root_cell(sub.func.value)
                elif isinstance(sub, ast.Call):
                    key = ast.unparse(sub.func)
                    mods = (getattr(self.c, "call_modifies", {}) or {}).get(key)
                    if mods:
                        for m in mods:
                            cells.append(ast.parse(m, mode="eval").body)
        return names, cells, fields

    def havoc(self, node, spec):
        ctx = self.ctx
        body = list(node.body)
        names, cells, fields = self.modified_in(body)
        if isinstance(node, ast.For):
            for sub in ast.walk(node.target):
                if isinstance(sub, ast.Name):
                    names.discard(sub.id)
        for extra in spec.get("havoc_extra", []):
            cells.append(ast.parse(extra, mode="eval").body)
        # cells first (they are evaluated in the pre-havoc environment)
        locs = []
        for e in cells:
            try:
                saved_ob = list(ctx.obligations)
                saved_pc = list(ctx.pc)
                v = self.eval(_load(e))
                ctx.obligations[:] = saved_ob
                ctx.pc[:] = saved_pc
            except (Unsupported, RaiseSig, KeyError):
                continue
            if isinstance(v, VRef):
                locs.append(v.loc)
        if "havoc_refs" in spec:
            for ref in spec["havoc_refs"](ctx):
                locs.append(ref.loc)
        seen = set()
        while locs:
            loc = locs.pop()
            if loc in seen:
                continue
            seen.add(loc)
            if loc in ctx.views:
                locs.append(ctx.views[loc][0])
        for loc in sorted(seen):
            old = ctx.heap[loc]
            ctx.heap[loc] = self.fresh_like(old, "hv%d" % loc)
        hv = getattr(self.c, "havoc_var", None)
        for n in sorted(names):
            if n in ctx.env:
                v = ctx.env[n]
                if hv is not None:
                    nv = hv(ctx, self, n, v)
                    if nv is not None:
                        ctx.env[n] = nv
                        continue
                if isinstance(v, VRef):
                    # the name may be rebound to another cell: fresh cell
                    if n in spec.get("rebound", ()):
                        ctx.env[n] = ctx.alloc(self.fresh_like(ctx.heap[v.loc], "hv_" + n))
                    elif v.loc not in seen and _is_rebound(node, n):
                        ctx.env[n] = ctx.alloc(self.fresh_like(ctx.heap[v.loc], "hv_" + n))
                else:
                    ctx.env[n] = self.fresh_like(v, "hv_" + n)
        for g in spec.get("havoc_ghosts", []):
            gv = ctx.ghost[g]
            ctx.ghost[g] = self.fresh_like(gv, "hg_" + g)
        return seen

    def fresh_like(self, v, base):
        if isinstance(v, (VInt, VBool, VStr, VElem, VSet, VCount)):
            return v.ty.fresh(base)
        if isinstance(v, (VList, VDict)):
            nv = v.ty.fresh(base)
            if isinstance(nv, VList):
                self.ctx.assume(nv.n >= 0)
            return nv
        if isinstance(v, VObj):
            return VObj(v.ty, {k: (f if isinstance(f, VRef) else self.fresh_like(f, base + "_" + k))
                               for k, f in v.fields.items()})
        if isinstance(v, VTuple):
            return VTuple([self.fresh_like(x, base) for x in v.items])
        if isinstance(v, (VNone, VFunc, VClass, VExc)):
            return v
        if isinstance(v, VPy):
            return VPy("<havocked>")
        if z3.is_expr(v):
            return z3.Const(fresh_name(base), v.sort())
        if isinstance(v, z3.FuncDeclRef):
            return z3.Function(fresh_name(base), *([v.domain(i) for i in range(v.arity())] + [v.range()]))
        if hasattr(v, "fresh_like"):
            return v.fresh_like(self.ctx, base)
        raise Unsupported("cannot havoc %r" % (v,))

    def check_inv(self, k, spec, phase, entry):
        ctx = self.ctx
        st = St(dict(ctx.env), dict(ctx.heap), dict(ctx.ghost), entry=entry, old=ctx.old,
                extra=self._loop_extras(k))
        for name, f in spec["inv"](st):
            ctx.oblige("loop#%d/inv-%s[%s]" % (k, phase, name), f)

    def assume_inv(self, k, spec, entry):
        ctx = self.ctx
        st = St(dict(ctx.env), dict(ctx.heap), dict(ctx.ghost), entry=entry, old=ctx.old,
                extra=self._loop_extras(k))
        for name, f in spec["inv"](st):
            ctx.assume(f)
        if "facts" in spec:
            # definitional facts instantiated at the loop-head state (assumed, never checked)
            for f in spec["facts"](st):
                ctx.assume(f)

    def _loop_extras(self, k):
        ctx = self.ctx
        le = getattr(ctx, "loop_extra", {})
        ex = dict(le.get(k, {}))
        ex["$loops"] = {j: dict(v) for j, v in le.items()}
        return ex

    def variant(self, k, spec, entry):
        if "variant" not in spec:
            return None
        ctx = self.ctx
        st = St(dict(ctx.env), dict(ctx.heap), dict(ctx.ghost), entry=entry, old=ctx.old,
                extra=self._loop_extras(k))
        v = spec["variant"](st)
        return v if isinstance(v, (list, tuple)) else [v]

    def run_cut_loop(self, node, k, spec, guard_fn, body_prologue, body_epilogue, exit_assume):
        """generic loop cut.  guard_fn() -> z3 Bool evaluated in the current state;
        body_prologue() binds the loop target; body_epilogue() advances iteration ghosts."""
        ctx = self.ctx
        if not hasattr(ctx, "loop_extra"):
            ctx.loop_extra = {}
        entry = ctx.snapshot()
        entry._extra = dict(ctx.loop_extra.get(k, {}))
        self.check_inv(k, spec, "entry", entry)
        arm = ctx.choose(2, "loop")
        nloc0 = ctx.nloc
        seen = self.havoc(node, spec)
        self.rehavoc_iter(k)
        self.assume_inv(k, spec, entry)
        if arm == 0:
            # body arm: one arbitrary iteration
            g = guard_fn()
            if not ctx.branch(g, "loop-guard") if not isinstance(g, bool) else not g:
                raise PathEnd()
            v0 = self.variant(k, spec, entry)
            body_prologue()
            if not hasattr(ctx, "write_guards"):
                ctx.write_guards = []
            ctx.write_guards.append((seen, nloc0, "the body of loop #%d" % k))
            if not hasattr(ctx, "ghost_guards"):
                ctx.ghost_guards = []
            ctx.ghost_guards.append((set(spec.get("havoc_ghosts", [])), "the body of loop #%d" % k))
            if not hasattr(ctx, "loop_stack"):
                ctx.loop_stack = []
            ctx.loop_stack.append(k)
            try:
                if "iteration_start" in spec:
                    spec["iteration_start"](ctx, self)
                try:
                    self.exec_block(node.body)
                except ContinueSig:
                    pass
                # ghost bookkeeping at the end of every completed iteration (also after `continue`)
                if "iteration_end" in spec:
                    spec["iteration_end"](ctx, self)
            except BreakSig:
                # leaves the loop with the state at the break
                return
            finally:
                ctx.write_guards.pop()
                ctx.ghost_guards.pop()
                ctx.loop_stack.pop()
            body_epilogue()
            self.check_inv(k, spec, "preserved", entry)
            if v0 is not None:
                v1 = self.variant(k, spec, entry)
                ctx.oblige("loop#%d/variant-decreases" % k, _lex_less(v1, v0))
                ctx.oblige("loop#%d/variant-bounded" % k, z3.And(*[x >= 0 for x in v0]))
            raise PathEnd()
        else:
            g = guard_fn()
            if isinstance(g, bool):
                if g:
                    raise PathEnd()
            elif ctx.branch(g, "loop-guard"):
                raise PathEnd()
            exit_assume()
            if node.orelse:
                self.exec_block(node.orelse)

    def rehavoc_iter(self, k):
        ctx = self.ctx
        ex = ctx.loop_extra.get(k)
        if not ex:
            return
        for name in list(ex):
            if name.startswith("$"):
                v = ex[name]
                # every iteration ghost is havocked at the cut; only the (immutable) iterated
                # collection itself is kept
                if name not in ("$S", "$L", "$whole", "$x", "$loops"):
                    ex[name] = self.fresh_like(v, "it%d" % k)

    def st_While(self, s):
        k, spec = self.loop_spec(s)
        ctx = self.ctx
        if not hasattr(ctx, "loop_extra"):
            ctx.loop_extra = {}
        ctx.loop_extra[k] = {}
        self.run_cut_loop(
            s, k, spec,
            guard_fn=lambda: self.truth(self.eval(s.test)),
            body_prologue=lambda: None,
            body_epilogue=lambda: None,
            exit_assume=lambda: None)

    def st_For(self, s):
        ctx = self.ctx
        it = self.eval(s.iter)
        itv = ctx.deref(it)
        if isinstance(itv, VTuple):
            # concrete length: unroll
            for x in itv.items:
                self.assign(s.target, x)
                try:
                    self.exec_block(s.body)
                except ContinueSig:
                    continue
                except BreakSig:
                    return
            self.exec_block(s.orelse)
            return
        k, spec = self.loop_spec(s)
        if not hasattr(ctx, "loop_extra"):
            ctx.loop_extra = {}
        ex = ctx.loop_extra[k] = {}
        if isinstance(itv, VSet):
            self._for_set(s, k, spec, itv, ex, lambda x: itv.ty.elem.wrap(x))
            return
        if isinstance(itv, VDictItems):
            d = itv.d
            keys = VSet(TSet(d.ty.key), d.dom)
            self._for_set(s, k, spec, keys, ex,
                          lambda x: VTuple([d.ty.key.wrap(x), self.dict_value(itv.ref, d, x, present=True)]))
            return
        if isinstance(itv, VList):
            L = itv
            ex["$L"] = L
            ex["$i"] = VInt(0)

            def guard_fn():
                i = ex["$i"].t
                ctx.assume(z3.And(i >= 0, i <= L.n))
                return i < L.n

            def prologue():
                self.assign(s.target, L.ty.elem.wrap(z3.Select(L.a, ex["$i"].t)))

            def epilogue():
                ex["$i"] = VInt(z3.simplify(ex["$i"].t + 1))

            self.run_cut_loop(s, k, spec, guard_fn, prologue, epilogue, lambda: None)
            return
        if hasattr(itv, "for_loop"):
            itv.for_loop(self, s, k, spec, ex)
            return
        self.unsupported(s, "iteration over %r" % (itv,))

    def _for_set(self, s, k, spec, S, ex, make_target):
        """loop over a set in arbitrary order with ghost processed-set $proc"""
        ctx = self.ctx
        if getattr(self.c, "forbid_set_iteration", False):
            raise Unsupported("L%d: iteration over an unordered set where the contract requires "
                              "order-independence by construction" % s.lineno)
        ex["$S"] = S
        ex["$proc"] = empty_set(S.ty)
        x = z3.Const(fresh_name("it_x"), S.ty.elem.sort)
        entry = ctx.snapshot()
        entry._extra = dict(ex)
        self.check_inv(k, spec, "entry", entry)
        arm = ctx.choose(2, "loop")
        nloc0 = ctx.nloc
        seen = self.havoc(node=s, spec=spec)
        proc = VSet(S.ty, z3.Const(fresh_name("proc%d" % k), S.ty.sort))
        ex["$proc"] = proc
        e = z3.Const(fresh_name("e"), S.ty.elem.sort)
        ctx.assume(z3.ForAll([e], z3.Implies(z3.Select(proc.t, e), z3.Select(S.t, e))))
        self.assume_inv(k, spec, entry)
        if arm == 0:
            ctx.assume(z3.And(z3.Select(S.t, x), z3.Not(z3.Select(proc.t, x))))
            ex["$x"] = S.ty.elem.wrap(x)
            self.assign(s.target, make_target(x))
            if not hasattr(ctx, "write_guards"):
                ctx.write_guards = []
            ctx.write_guards.append((seen, nloc0, "the body of loop #%d" % k))
            if not hasattr(ctx, "ghost_guards"):
                ctx.ghost_guards = []
            ctx.ghost_guards.append((set(spec.get("havoc_ghosts", [])), "the body of loop #%d" % k))
            if not hasattr(ctx, "loop_stack"):
                ctx.loop_stack = []
            ctx.loop_stack.append(k)
            try:
                self.exec_block(s.body)
            except ContinueSig:
                pass
            except BreakSig:
                return
            finally:
                ctx.write_guards.pop()
                ctx.ghost_guards.pop()
                ctx.loop_stack.pop()
            ex["$proc"] = VSet(S.ty, z3.Store(proc.t, x, True))
            self.check_inv(k, spec, "preserved", entry)
            raise PathEnd()
        else:
            ctx.assume(proc.t == S.t)
            if s.orelse:
                self.exec_block(s.orelse)

    # ------------------------------------------------------------------
    # expressions
    # ------------------------------------------------------------------
    def eval(self, e):
        m = getattr(self, "ex_" + type(e).__name__, None)
        if m is None:
            self.unsupported(e)
        return m(e)

    def ex_Lambda(self, e):
        # an opaque function value; contracts that receive it inspect its text
        return VPy(("lambda", ast.unparse(e)))

    def ex_Constant(self, e):
        v = e.value
        if v is None:
            return NONE
        if isinstance(v, bool):
            return VBool(v)
        if isinstance(v, int):
            return VInt(v)
        if isinstance(v, str):
            if getattr(self.c, "strings_symbolic", False):
                return VStr(v)
            r = VPy(v)
            r.literal = True          # a constant of the program text (as opposed to a placeholder a contract supplies)
            return r
        r = VPy(v)
        r.literal = True
        return r

    def ex_JoinedStr(self, e):
        if getattr(self.c, "concrete_fstrings", False):
            # text built from concrete pieces (contracts that track emitted text with placeholders)
            out = []
            for part in e.values:
                if isinstance(part, ast.Constant):
                    out.append(str(part.value))
                elif isinstance(part, ast.FormattedValue) and part.format_spec is None and part.conversion == -1:
                    v = self.ctx.deref(self.eval(part.value))
                    if not (isinstance(v, VPy) and isinstance(v.py, str)):
                        self.unsupported(e, "f-string over %r" % (v,))
                    out.append(v.py)
                else:
                    self.unsupported(e, "f-string format spec")
            return VPy("".join(out))
        return VPy("<fstring>")

    def ex_Name(self, e):
        ctx = self.ctx
        if e.id in ctx.env:
            return ctx.env[e.id]
        names = getattr(self.c, "names", {}) or {}
        if e.id in names:
            return names[e.id]
        if e.id in BUILTIN_EXC:
            return VClass(e.id)
        b = BUILTINS.get(e.id)
        if b is not None:
            return VFunc(e.id, b)
        raise Unsupported("L%s: unresolved name %s" % (e.lineno, e.id))

    def ex_Tuple(self, e):
        return VTuple([self.eval(x) for x in e.elts])

    def ex_List(self, e):
        hook = getattr(self.c, "list_literal", None)
        if hook is not None:
            return hook(self.ctx, self, e)
        if not e.elts:
            ty = self.c.type_of_literal(e)
            if hasattr(ty, "empty"):
                return self.ctx.alloc(ty.empty())
            return self.ctx.alloc(empty_list(ty))
        items = [self.ctx.deref(self.eval(x)) for x in e.elts]
        if getattr(self.c, "list_literals_as_tuples", False):
            return VTuple(items)
        oty = getattr(self.c, "opaque_list_type", None)
        if oty is not None and all(isinstance(x, VPy) for x in items):
            return self.ctx.alloc(VList(oty, z3.IntVal(len(items)),
                                        z3.Const(fresh_name("lit_a"), oty.asort)))
        self.unsupported(e, "list literal")

    def ex_Set(self, e):
        items = [self.ctx.deref(self.eval(x)) for x in e.elts]
        if not items or not all(isinstance(x, VElem) and x.ty is items[0].ty for x in items):
            self.unsupported(e, "set display")
        ty = TSet(items[0].ty)
        t = z3.K(items[0].ty.sort, z3.BoolVal(False))
        for x in items:
            t = z3.Store(t, x.t, True)
        return VSet(ty, t)

    def ex_Dict(self, e):
        hook = getattr(self.c, "dict_literal", None)
        if hook is not None:
            return hook(self.ctx, self, e)
        if not e.keys:
            ty = self.c.type_of_literal(e)
            return self.ctx.alloc(empty_dict(ty))
        self.unsupported(e, "dict literal")

    def ex_Attribute(self, e):
        ctx = self.ctx
        key = ast.unparse(e)
        attrs = getattr(self.c, "attr_exprs", {}) or {}
        if key in attrs:
            return attrs[key](ctx, self)
        obj = self.eval(e.value)
        return self.getattr(obj, e.attr, e)

    def getattr(self, obj, name, node):
        ctx = self.ctx
        o = ctx.deref(obj)
        hook = getattr(self.c, "getattr_hook", None)
        if hook is not None:
            r = hook(ctx, self, obj, name)
            if r is not None:
                return r
        if isinstance(o, VObj):
            if name in o.fields:
                return o.fields[name]
            if name in o.ty.methods:
                return VFunc(name, _bind(o.ty.methods[name], obj))
        if isinstance(o, VElem):
            if name in o.ty.fields and callable(o.ty.fields[name]):
                return o.ty.fields[name](ctx, o.t)
            if name in o.ty.fields:
                fn, rty, *guard = o.ty.fields[name]
                if guard:
                    # field exists only for some constructors
                    if not ctx.branch(guard[0](o.t), "hasattr"):
                        ctx.raise_("AttributeError")
                r = fn(o.t)
                return rty.wrap(r) if isinstance(rty, Ty) else rty(ctx, r)
            if name in o.ty.methods:
                return VFunc(name, _bind(o.ty.methods[name], obj))
        if isinstance(o, VExc):
            if name in o.payload:
                return o.payload[name]
        if hasattr(type(o), "methods") and name in type(o).methods:
            return VFunc(name, _bind(type(o).methods[name], obj))
        if isinstance(o, VPy):
            return VFunc(name, lambda ctx, it, args, kwargs: VPy("<str>"))
        if isinstance(o, (VSet, VList, VDict, VStr, VCount)) or isinstance(o, VTuple):
            return VFunc(name, _bind(_container_method(name), obj))
        hook = getattr(self.c, "getattr_hook", None)
        if hook is not None:
            r = hook(ctx, self, obj, name)
            if r is not None:
                return r
        self.unsupported(node, "attribute %s of %r" % (name, o))

    def ex_Subscript(self, e):
        ctx = self.ctx
        base = self.eval(e.value)
        b = ctx.deref(base)
        if isinstance(e.slice, ast.Slice):
            return self.slice(base, b, e.slice, e)
        idx = ctx.deref(self.eval(e.slice))
        if isinstance(b, VTuple):
            if isinstance(idx, VInt) and z3.is_int_value(idx.t):
                return b.items[idx.t.as_long()]
            self.unsupported(e, "symbolic tuple index")
        if isinstance(b, VList):
            i = self.norm_index(b, idx.t)
            return self.wrap_elem(b.ty.elem, z3.Select(b.a, i))
        if isinstance(b, VDict):
            kt = _as_term(idx)
            if not ctx.branch(z3.Select(b.dom, kt), "key"):
                ctx.raise_("KeyError")
            return self.dict_value(base, b, kt, present=True)
        if hasattr(b, "getitem"):
            return b.getitem(self, idx, e)
        self.unsupported(e, "subscript of %r" % (b,))

    def wrap_elem(self, ty, term):
        if isinstance(ty, (TInt, TBool, TStr, TElem, TCount)):
            return ty.wrap(term)
        if isinstance(ty, TSet):
            return ty.wrap(term)
        raise Unsupported("element type")

    def dict_value(self, base, b, kt, present):
        ctx = self.ctx
        vty = b.ty.val
        term = z3.Select(b.val, kt)
        if isinstance(vty, TSet) or getattr(vty, "mutable", False):
            # mutable value: a view cell that writes through
            if isinstance(base, VRef):
                return ctx.alloc(vty.wrap(term),
                                 view=(base.loc, kt, "dict-present" if present else "dict"))
            return ctx.alloc(vty.wrap(term))
        return vty.wrap(term)

    def slice(self, base, b, sl, node):
        ctx = self.ctx
        if hasattr(b, "slice"):
            return b.slice(self, sl, node)
        if isinstance(b, VStr) and sl.step is None:
            n = z3.Length(b.t)

            def idx(e, default):
                if e is None:
                    return default
                v = ctx.deref(self.eval(e)).t
                v = z3.If(v < 0, n + v, v)
                return z3.If(v < 0, 0, z3.If(v > n, n, v))
            lo, hi = idx(sl.lower, z3.IntVal(0)), idx(sl.upper, n)
            return VStr(z3.SubString(b.t, lo, z3.If(hi > lo, hi - lo, 0)))
        if isinstance(b, VList) and sl.step is None:
            lo = ctx.deref(self.eval(sl.lower)).t if sl.lower is not None else z3.IntVal(0)
            if sl.upper is not None:
                self.unsupported(node, "upper slice")
            # xs[lo:] for 0 <= lo (constant)
            if not z3.is_int_value(lo) or lo.as_long() < 0:
                self.unsupported(node, "slice bound")
            j = z3.Int(fresh_name("j"))
            na = z3.Const(fresh_name("sl_a"), b.ty.asort)
            nn = z3.If(b.n >= lo, b.n - lo, 0)
            ctx.assume(z3.ForAll([j], z3.Implies(z3.And(j >= 0, j < nn),
                                                 z3.Select(na, j) == z3.Select(b.a, j + lo))))
            return ctx.alloc(VList(b.ty, z3.simplify(nn), na))
        if isinstance(b, VPy) and isinstance(b.py, str) and sl.step is None:
            # concrete text with concrete bounds
            def cidx(e):
                if e is None:
                    return None
                v = ctx.deref(self.eval(e))
                t = z3.simplify(v.t) if isinstance(v, VInt) else None
                if t is None or not z3.is_int_value(t):
                    self.unsupported(node, "symbolic slice bound on concrete text")
                return t.as_long()
            return VPy(b.py[cidx(sl.lower):cidx(sl.upper)])
        self.unsupported(node, "slice of %r" % (b,))

    def ex_UnaryOp(self, e):
        v = self.ctx.deref(self.eval(e.operand))
        if isinstance(e.op, ast.Not):
            return VBool(z3.Not(self.truth(v)))
        if isinstance(e.op, ast.USub) and isinstance(v, VInt):
            return VInt(-v.t)
        self.unsupported(e)

    def ex_BoolOp(self, e):
        # value semantics only for boolean-valued operands
        ctx = self.ctx
        is_and = isinstance(e.op, ast.And)
        for i, sub in enumerate(e.values):
            v = ctx.deref(self.eval(sub))
            last = i == len(e.values) - 1
            if last:
                return v
            t = self.truth(v)
            d = ctx.branch(t, "boolop")
            if is_and and not d:
                return v if isinstance(v, (VBool,)) else VBool(False)
            if not is_and and d:
                return v
        return VBool(is_and)

    def ex_IfExp(self, e):
        t = self.truth(self.eval(e.test))
        if self.ctx.branch(t, "ifexp"):
            return self.eval(e.body)
        return self.eval(e.orelse)

    def ex_Compare(self, e):
        ctx = self.ctx
        left = ctx.deref(self.eval(e.left))
        res = None
        for op, rn in zip(e.ops, e.comparators):
            right = ctx.deref(self.eval(rn))
            r = self.compare(op, left, right, e)
            res = r if res is None else z3.And(res, r)
            left = right
        return VBool(res)

    def compare(self, op, a, b, node):
        ctx = self.ctx
        if isinstance(op, (ast.Is, ast.IsNot, ast.Eq, ast.NotEq)):
            r = self.equal(a, b, node, identity=isinstance(op, (ast.Is, ast.IsNot)))
            return z3.Not(r) if isinstance(op, (ast.IsNot, ast.NotEq)) else r
        if isinstance(op, (ast.In, ast.NotIn)):
            r = self.contains(b, a, node)
            return z3.Not(r) if isinstance(op, ast.NotIn) else r
        if isinstance(a, VInt) and isinstance(b, VInt):
            return {ast.Lt: lambda: a.t < b.t, ast.LtE: lambda: a.t <= b.t,
                    ast.Gt: lambda: a.t > b.t, ast.GtE: lambda: a.t >= b.t}[type(op)]()
        if isinstance(a, VSet) and isinstance(b, VSet) and isinstance(op, ast.LtE):
            e = z3.Const(fresh_name("e"), a.ty.elem.sort)
            # skolemised subset test:  a <= b  <=>  forall e. a[e] => b[e]
            res = z3.Bool(fresh_name("subset"))
            w = z3.Const(fresh_name("w"), a.ty.elem.sort)
            ctx.assume(z3.Implies(res, z3.ForAll([e], z3.Implies(z3.Select(a.t, e), z3.Select(b.t, e)))))
            ctx.assume(z3.Implies(z3.Not(res), z3.And(z3.Select(a.t, w), z3.Not(z3.Select(b.t, w)))))
            return res
        hook = getattr(self.c, "compare_hook", None)
        if hook is not None:
            r = hook(ctx, self, op, a, b)
            if r is not None:
                return r
        self.unsupported(node, "compare %r %s %r" % (a, type(op).__name__, b))

    def equal(self, a, b, node, identity=False):
        if isinstance(a, VNone) or isinstance(b, VNone):
            x = b if isinstance(a, VNone) else a
            if isinstance(x, VNone):
                return z3.BoolVal(True)
            if isinstance(x, VElem) and x.ty.none_test is not None:
                return x.ty.none_test(x.t)
            if hasattr(x, "is_none"):
                return x.is_none()
            return z3.BoolVal(False)
        for p_, q_ in ((a, b), (b, a)):
            if isinstance(p_, VElem) and getattr(p_.ty, "const_eq", None) is not None \
                    and isinstance(q_, (VBool, VInt, VPy)):
                r = p_.ty.const_eq(p_.t, q_)
                if r is not None:
                    return r
        if isinstance(a, VElem) and isinstance(b, VElem) and a.ty.sort == b.ty.sort:
            if a.ty.eq is not None and not identity:
                return a.ty.eq(a.t, b.t)
            return a.t == b.t
        for cls in (VInt, VBool, VStr):
            if isinstance(a, cls) and isinstance(b, cls):
                return a.t == b.t
        if isinstance(a, VSet) and isinstance(b, VSet):
            return a.t == b.t
        if isinstance(a, VPy) and isinstance(b, VPy):
            if a is b or a.py == b.py:
                return z3.BoolVal(True)
            if getattr(a, "literal", False) and getattr(b, "literal", False):
                return z3.BoolVal(False)
            if getattr(self.c, "placeholders_are_distinct_constants", False):
                return z3.BoolVal(False)
            # a placeholder of the contract (an argument whose value it leaves open) compared with something else: the
            # outcome is not determined by the contract's model
            self.unsupported(node, "comparison of the opaque value %r with %r" % (a.py, b.py))
        if isinstance(a, VList) and isinstance(b, VInt):
            return z3.BoolVal(False)
        hook = getattr(self.c, "equal_hook", None)
        if hook is not None:
            r = hook(self.ctx, self, a, b, identity)
            if r is not None:
                return r
        self.unsupported(node, "equality of %r and %r" % (a, b))

    def contains(self, container, x, node):
        ctx = self.ctx
        c = ctx.deref(container)
        if isinstance(c, VSet):
            return z3.Select(c.t, _as_term(x))
        if isinstance(c, VDict):
            return z3.Select(c.dom, _as_term(x))
        if isinstance(c, VList):
            # skolemised membership
            res = z3.Bool(fresh_name("in"))
            w = z3.Int(fresh_name("w"))
            j = z3.Int(fresh_name("j"))
            xt = _as_term(x)
            ctx.assume(z3.Implies(res, z3.And(w >= 0, w < c.n, z3.Select(c.a, w) == xt)))
            ctx.assume(z3.Implies(z3.Not(res), z3.ForAll(
                [j], z3.Implies(z3.And(j >= 0, j < c.n), z3.Select(c.a, j) != xt))))
            return res
        if isinstance(c, VTuple):
            tests = [self.equal(ctx.deref(item), x, node) for item in c.items]
            return z3.Or(*tests) if tests else z3.BoolVal(False)
        if hasattr(c, "contains"):
            return c.contains(self, x)
        xv = ctx.deref(x)
        if isinstance(c, VPy) and isinstance(c.py, str) and isinstance(xv, VPy) and isinstance(xv.py, str):
            return z3.BoolVal(xv.py in c.py)          # substring test on concrete text
        if isinstance(c, VStr) and isinstance(xv, VStr):
            return z3.Contains(c.t, xv.t)             # `x in s` on two strings is the substring test
        self.unsupported(node, "membership in %r" % (c,))

    def ex_BinOp(self, e):
        a = self.ctx.deref(self.eval(e.left))
        b = self.ctx.deref(self.eval(e.right))
        return self.binop(type(e.op), a, b, e)

    def binop(self, op, a, b, node):
        ctx = self.ctx
        hook = getattr(self.c, "binop_hook", None)
        if hook is not None:
            r = hook(ctx, self, op, a, b)
            if r is not None:
                return r
        if isinstance(a, VInt) and isinstance(b, VInt):
            if op is ast.Add:
                return VInt(a.t + b.t)
            if op is ast.Sub:
                return VInt(a.t - b.t)
            if op is ast.Mult:
                return VInt(a.t * b.t)
        if isinstance(a, VSet) and isinstance(b, VSet):
            if op is ast.BitOr:
                return ctx.alloc(VSet(a.ty, z3.Map(_OR(), a.t, b.t)))
            if op is ast.BitAnd:
                return ctx.alloc(VSet(a.ty, z3.Map(_AND(), a.t, b.t)))
            if op is ast.Sub:
                return ctx.alloc(VSet(a.ty, z3.Map(_AND(), a.t, z3.Map(_NOT(), b.t))))
        if isinstance(a, VStr) and isinstance(b, VStr) and op is ast.Add:
            return VStr(z3.Concat(a.t, b.t))
        if isinstance(a, VPy) and op is ast.Mod:
            return VPy("<formatted>")
        if isinstance(a, VList) and isinstance(b, VList) and op is ast.Add:
            return ctx.alloc(self.list_concat(a, b))
        if hasattr(a, "binop"):
            return a.binop(self, op, b, node)
        hook = getattr(self.c, "binop_hook", None)
        if hook is not None:
            r = hook(ctx, self, op, a, b)
            if r is not None:
                return r
        self.unsupported(node, "binop %s on %r, %r" % (op.__name__, a, b))

    def list_concat(self, a, b):
        ctx = self.ctx
        j = z3.Int(fresh_name("j"))
        na = z3.Const(fresh_name("cat_a"), a.ty.asort)
        ctx.assume(z3.ForAll([j], z3.Implies(z3.And(j >= 0, j < a.n),
                                             z3.Select(na, j) == z3.Select(a.a, j))))
        ctx.assume(z3.ForAll([j], z3.Implies(z3.And(j >= 0, j < b.n),
                                             z3.Select(na, j + a.n) == z3.Select(b.a, j))))
        ctx.assume(z3.ForAll([j], z3.Implies(z3.And(j >= a.n, j < a.n + b.n),
                                             z3.Select(na, j) == z3.Select(b.a, j - a.n)),
                             patterns=[z3.Select(na, j)]))
        return VList(a.ty, z3.simplify(a.n + b.n), na)

    def truth(self, v):
        v = self.ctx.deref(v)
        if isinstance(v, VBool):
            return v.t
        if isinstance(v, VInt):
            return v.t != 0
        if isinstance(v, VNone):
            return z3.BoolVal(False)
        if isinstance(v, VList):
            return v.n > 0
        if isinstance(v, VCount):
            return v.t > 0
        if isinstance(v, VSet):
            # skolemised non-emptiness
            res = z3.Bool(fresh_name("nonempty"))
            w = z3.Const(fresh_name("w"), v.ty.elem.sort)
            e = z3.Const(fresh_name("e"), v.ty.elem.sort)
            self.ctx.assume(z3.Implies(res, z3.Select(v.t, w)))
            self.ctx.assume(z3.Implies(z3.Not(res), z3.ForAll([e], z3.Not(z3.Select(v.t, e)))))
            return res
        if isinstance(v, VStr):
            return z3.Length(v.t) > 0
        if isinstance(v, VElem) and v.ty.truth is not None:
            return v.ty.truth(v.t)
        if isinstance(v, (VFunc, VClass, VObj, VExc)):
            return z3.BoolVal(True)
        if isinstance(v, VPy) and v.py == "":
            return z3.BoolVal(False)          # the empty string literal
        if hasattr(v, "truth"):
            return v.truth(self)
        raise Unsupported("truth value of %r" % (v,))

    def ex_Call(self, e):
        ctx = self.ctx
        key = ast.unparse(e.func)
        calls = getattr(self.c, "calls", {}) or {}
        if key in calls:
            args = [VStar(self.eval(a.value)) if isinstance(a, ast.Starred) else self.eval(a) for a in e.args]
            kwargs = {k.arg: self.eval(k.value) for k in e.keywords}
            ctx.cur_call = e
            return calls[key](ctx, self, args, kwargs)
        if key == "isinstance":
            return self.isinstance_(e)
        if key == "super":
            self.unsupported(e, "super() without call model")
        f = self.eval(e.func)
        args = [VStar(self.eval(a.value)) if isinstance(a, ast.Starred) else self.eval(a) for a in e.args]
        kwargs = {k.arg: self.eval(k.value) for k in e.keywords}
        ctx.cur_call = e
        if isinstance(f, VFunc):
            return f.fn(ctx, self, args, kwargs)
        if isinstance(f, VClass):
            if f.name in BUILTIN_EXC or f.construct is None:
                hier = dict(BUILTIN_EXC)
                hier.update(getattr(self.c, "exc_hierarchy", {}) or {})
                if f.name in hier:
                    return VExc(f.name, args)
                self.unsupported(e, "constructor of %s" % f.name)
            return f.construct(ctx, self, args, kwargs)
        fd = ctx.deref(f)
        if hasattr(fd, "call"):
            return fd.call(ctx, self, args, kwargs)       # a contract-defined callable object
        self.unsupported(e, "call of %r" % (f,))

    def isinstance_(self, e):
        ctx = self.ctx
        obj = ctx.deref(self.eval(e.args[0]))
        cls_node = e.args[1]
        names = ([ast.unparse(x) for x in cls_node.elts]
                 if isinstance(cls_node, ast.Tuple) else [ast.unparse(cls_node)])
        if isinstance(obj, VElem):
            insp = getattr(obj.ty, "on_inspect", None)
            if insp is not None:
                for f in insp(obj.t):
                    ctx.assume(f)
            tests = []
            for n in names:
                if n not in obj.ty.classes:
                    raise Unsupported("isinstance(%s, %s): class unknown to the contract"
                                      % (obj.ty.name, n))
                tests.append(obj.ty.classes[n](obj.t))
            return VBool(z3.Or(*tests) if len(tests) > 1 else tests[0])
        if isinstance(obj, VExc):
            return VBool(any(self.exc_matches(obj, ast.parse(n, mode="eval").body) for n in names))
        hook = getattr(self.c, "isinstance_hook", None)
        if hook is not None:
            r = hook(ctx, self, obj, names)
            if r is not None:
                return r
        self.unsupported(e, "isinstance on %r" % (obj,))

    def ex_Yield(self, e):
        v = self.eval(e.value) if e.value is not None else NONE
        hook = getattr(self.c, "on_yield", None)
        if hook is None:
            self.unsupported(e, "yield without contract hook")
        hook(self.ctx, self, v)
        return NONE

    def ex_YieldFrom(self, e):
        v = self.eval(e.value)
        hook = getattr(self.c, "on_yield_from", None)
        if hook is None:
            self.unsupported(e, "yield from without contract hook")
        return hook(self.ctx, self, v)

    def ex_SetComp(self, e):
        return self.comprehension(e, "set")

    def ex_DictComp(self, e):
        return self.comprehension(e, "dict")

    def ex_ListComp(self, e):
        return self.comprehension(e, "list")

    def ex_GeneratorExp(self, e):
        return self.comprehension(e, "gen")

    def comprehension(self, e, kind):
        hook = getattr(self.c, "comprehensions", {}) or {}
        key = ast.unparse(e)
        if key in hook:
            return hook[key](self.ctx, self, e)
        return self.schema_comprehension(e, kind)

    def schema_comprehension(self, e, kind):
        """{f(x..) for x in S ...} over sets / lists / dict views with a pure
        element expression: result characterised by two skolemised axioms."""
        ctx = self.ctx
        if kind == "list" and len(e.generators) == 1:
            src = ctx.deref(self.eval(e.generators[0].iter))
            if hasattr(src, "filter_comprehension"):
                return src.filter_comprehension(self, e)
        saved_env = dict(ctx.env)
        bound = []      # (z3 const)
        member = []     # z3 Bool membership conditions
        try:
            for gen in e.generators:
                if gen.is_async:
                    self.unsupported(e)
                it = ctx.deref(self.eval(gen.iter))
                if hasattr(it, "comprehension") and len(e.generators) == 1:
                    return it.comprehension(self, e, kind)
                if isinstance(it, VSet):
                    x = z3.Const(fresh_name("cx"), it.ty.elem.sort)
                    member.append(z3.Select(it.t, x))
                    xv = it.ty.elem.wrap(x)
                elif isinstance(it, VList):
                    i = z3.Int(fresh_name("ci"))
                    x = i
                    member.append(z3.And(i >= 0, i < it.n))
                    xv = self.wrap_elem(it.ty.elem, z3.Select(it.a, i))
                elif isinstance(it, VCount):
                    # elements are opaque; only usable for opaque results
                    self.assign(gen.target, VPy("<elem>"))
                    continue
                else:
                    self.unsupported(e, "comprehension over %r" % (it,))
                bound.append(x)
                self.assign(gen.target, xv)
                for cond in gen.ifs:
                    n0 = len(ctx.pc)
                    t = self.truth(self.eval(cond))
                    if len(ctx.pc) != n0:
                        self.unsupported(e, "impure comprehension condition")
                    member.append(t)
            n0 = len(ctx.pc)
            if kind == "dict":
                kv = ctx.deref(self.eval(e.key))
                vv = ctx.deref(self.eval(e.value))
            else:
                kv = ctx.deref(self.eval(e.elt))
                vv = None
            if len(ctx.pc) != n0:
                self.unsupported(e, "impure comprehension element")
        finally:
            ctx.env = saved_env
        if isinstance(kv, VPy):
            oty = getattr(self.c, "opaque_list_type", None)
            if kind == "list" and oty is not None:
                # only emptiness is characterised: len > 0  <=>  some tuple satisfies the generators
                L = oty.fresh("olist")
                cond = z3.And(*member) if member else z3.BoolVal(True)
                ws = [z3.Const(fresh_name("wit"), b.sort()) for b in bound]
                ctx.assume(L.n >= 0)
                ctx.assume(z3.Implies(L.n > 0, z3.substitute(cond, *zip(bound, ws))))
                ctx.assume(z3.ForAll(bound, z3.Implies(cond, L.n > 0)))
                return ctx.alloc(L)
            return VPy("<iterable of opaque>")
        cond = z3.And(*member) if member else z3.BoolVal(True)
        kt = _as_term(kv)
        if kind in ("set", "gen"):
            ty = TSet(kv.ty)
            R = z3.Const(fresh_name("comp"), ty.sort)
            ctx.assume(z3.ForAll(bound, z3.Implies(cond, z3.Select(R, kt))))
            r = z3.Const(fresh_name("r"), kv.ty.sort)
            ws = [z3.Function(fresh_name("wit"), kv.ty.sort, b.sort()) for b in bound]
            sub = [(b, w(r)) for b, w in zip(bound, ws)]
            ctx.assume(z3.ForAll([r], z3.Implies(
                z3.Select(R, r),
                z3.And(z3.substitute(cond, *sub), z3.substitute(kt, *sub) == r))))
            return ctx.alloc(VSet(ty, R))
        if kind == "dict":
            ty = TDict(kv.ty, vv.ty)
            d = ty.fresh("dcomp")
            vt = _as_term(vv)
            # every generated key is present and maps to the value generated by
            # *some* tuple with that key
            ws = [z3.Function(fresh_name("wit"), kv.ty.sort, b.sort()) for b in bound]
            r = z3.Const(fresh_name("r"), kv.ty.sort)
            sub = [(b, w(r)) for b, w in zip(bound, ws)]
            ctx.assume(z3.ForAll(bound, z3.Implies(cond, z3.Select(d.dom, kt))))
            ctx.assume(z3.ForAll([r], z3.Implies(
                z3.Select(d.dom, r),
                z3.And(z3.substitute(cond, *sub), z3.substitute(kt, *sub) == r,
                       z3.Select(d.val, r) == z3.substitute(vt, *sub)))))
            return ctx.alloc(d)
        if kind == "list":
            ty = TList(kv.ty)
            L = ty.fresh("lcomp")
            ctx.assume(L.n >= 0)
            ws = [z3.Const(fresh_name("wit"), b.sort()) for b in bound]
            sub = list(zip(bound, ws))
            # only emptiness and element provenance are characterised
            ctx.assume(z3.Implies(L.n > 0, z3.substitute(cond, *sub)))
            ctx.assume(z3.ForAll(bound, z3.Implies(cond, L.n > 0)))
            j = z3.Int(fresh_name("j"))
            fs = [z3.Function(fresh_name("src"), z3.IntSort(), b.sort()) for b in bound]
            subj = [(b, f(j)) for b, f in zip(bound, fs)]
            ctx.assume(z3.ForAll([j], z3.Implies(
                z3.And(j >= 0, j < L.n),
                z3.And(z3.substitute(cond, *subj), z3.Select(L.a, j) == z3.substitute(kt, *subj)))))
            return ctx.alloc(L)
        self.unsupported(e)


# ----------------------------------------------------------------------
# helpers
# ----------------------------------------------------------------------

def _load(node):
    import copy
    n = copy.deepcopy(node)
    for sub in ast.walk(n):
        if hasattr(sub, "ctx"):
            sub.ctx = ast.Load()
    return n


def _is_rebound(loop, name):
    for sub in ast.walk(loop):
        if isinstance(sub, ast.Name) and sub.id == name and isinstance(sub.ctx, ast.Store):
            return True
    return False


def _loop_shape(node):
    if isinstance(node, ast.While):
        return "while " + ast.unparse(node.test)
    return "for %s in %s" % (ast.unparse(node.target), ast.unparse(node.iter))


def _lex_less(v1, v0):
    # v1 < v0 lexicographically
    out = z3.BoolVal(False)
    for a1, a0 in reversed(list(zip(v1, v0))):
        out = z3.Or(a1 < a0, z3.And(a1 == a0, out))
    return out


def _OR():
    a, b = z3.Bools("a b")
    return z3.Or(a, b).decl()


def _AND():
    a, b = z3.Bools("a b")
    return z3.And(a, b).decl()


def _NOT():
    a = z3.Bool("a")
    return z3.Not(a).decl()


def _bind(method, obj):
    def call(ctx, it, args, kwargs):
        return method(ctx, it, obj, args, kwargs)
    return call


def _container_method(name):
    def call(ctx, it, obj, args, kwargs):
        o = ctx.deref(obj)
        args = [ctx.deref(a) if not isinstance(ctx.deref(a), (VSet, VList, VDict)) else a for a in args]
        fn = CONTAINER_METHODS.get((type(o).__name__, name))
        if fn is None:
            raise Unsupported("method %s.%s" % (type(o).__name__, name))
        return fn(ctx, it, obj, o, args, kwargs)
    return call


def _need_ref(obj, what):
    if not isinstance(obj, VRef):
        raise Unsupported("mutation of a non-cell value in %s" % what)


# ---- set methods ---------------------------------------------------------
def _set_add(ctx, it, obj, o, args, kw):
    _need_ref(obj, "add")
    ctx.store(obj, VSet(o.ty, z3.Store(o.t, _as_term(ctx.deref(args[0])), True)))
    return NONE


def _set_remove(ctx, it, obj, o, args, kw):
    _need_ref(obj, "remove")
    x = _as_term(ctx.deref(args[0]))
    if not ctx.branch(z3.Select(o.t, x), "remove"):
        ctx.raise_("KeyError")
    ctx.store(obj, VSet(o.ty, z3.Store(o.t, x, False)))
    return NONE


def _set_discard(ctx, it, obj, o, args, kw):
    _need_ref(obj, "discard")
    ctx.store(obj, VSet(o.ty, z3.Store(o.t, _as_term(ctx.deref(args[0])), False)))
    return NONE


def _set_clear(ctx, it, obj, o, args, kw):
    _need_ref(obj, "clear")
    ctx.store(obj, empty_set(o.ty))
    return NONE


def _to_set_term(ctx, it, v, ty):
    v = ctx.deref(v)
    if isinstance(v, VSet):
        return v.t
    if isinstance(v, VList):
        R = z3.Const(fresh_name("setof"), ty.sort)
        j = z3.Int(fresh_name("j"))
        e = z3.Const(fresh_name("e"), ty.elem.sort)
        idx = z3.Function(fresh_name("idx"), ty.elem.sort, z3.IntSort())
        ctx.assume(z3.ForAll([j], z3.Implies(z3.And(j >= 0, j < v.n), z3.Select(R, z3.Select(v.a, j)))))
        ctx.assume(z3.ForAll([e], z3.Implies(
            z3.Select(R, e), z3.And(idx(e) >= 0, idx(e) < v.n, z3.Select(v.a, idx(e)) == e))))
        return R
    if hasattr(v, "as_set_term"):
        return v.as_set_term(ctx, ty)
    raise Unsupported("set(%r)" % (v,))


def _set_update(ctx, it, obj, o, args, kw):
    _need_ref(obj, "update")
    t = o.t
    for a in args:
        t = z3.Map(_OR(), t, _to_set_term(ctx, it, a, o.ty))
    ctx.store(obj, VSet(o.ty, t))
    return NONE


def _set_copy(ctx, it, obj, o, args, kw):
    return ctx.alloc(VSet(o.ty, o.t))


# ---- list methods ----------------------------------------------------------
def _list_append(ctx, it, obj, o, args, kw):
    _need_ref(obj, "append")
    x = ctx.deref(args[0])
    if getattr(o.ty.elem, "opaque", False):
        ctx.store(obj, VList(o.ty, z3.simplify(o.n + 1), o.a))
        return NONE
    ctx.store(obj, VList(o.ty, z3.simplify(o.n + 1), z3.Store(o.a, o.n, _as_term(x))))
    return NONE


def _list_pop(ctx, it, obj, o, args, kw):
    _need_ref(obj, "pop")
    if not ctx.branch(o.n > 0, "pop"):
        ctx.raise_("IndexError")
    if not args:
        r = it.wrap_elem(o.ty.elem, z3.Select(o.a, o.n - 1))
        ctx.store(obj, VList(o.ty, z3.simplify(o.n - 1), o.a))
        return r
    i = ctx.deref(args[0])
    if z3.is_int_value(i.t) and i.t.as_long() == 0:
        r = it.wrap_elem(o.ty.elem, z3.Select(o.a, 0))
        na = z3.Const(fresh_name("pop0_a"), o.ty.asort)
        j = z3.Int(fresh_name("j"))
        ctx.assume(z3.ForAll([j], z3.Implies(z3.And(j >= 0, j < o.n - 1),
                                             z3.Select(na, j) == z3.Select(o.a, j + 1))))
        ctx.store(obj, VList(o.ty, z3.simplify(o.n - 1), na))
        return r
    raise Unsupported("pop(i)")


def _list_extend(ctx, it, obj, o, args, kw):
    _need_ref(obj, "extend")
    other = ctx.deref(args[0])
    if getattr(o.ty.elem, "opaque", False) and isinstance(other, VList):
        ctx.store(obj, VList(o.ty, z3.simplify(o.n + other.n), o.a))
        return NONE
    if isinstance(other, VList):
        ctx.store(obj, it.list_concat(o, other))
        return NONE
    raise Unsupported("extend with %r" % (other,))


def _count_append(ctx, it, obj, o, args, kw):
    _need_ref(obj, "append")
    ctx.store(obj, VCount(o.t + 1))
    return NONE


CONTAINER_METHODS = {
    ("VCount", "append"): _count_append,
    ("VSet", "add"): _set_add,
    ("VSet", "remove"): _set_remove,
    ("VSet", "discard"): _set_discard,
    ("VSet", "clear"): _set_clear,
    ("VSet", "update"): _set_update,
    ("VSet", "copy"): _set_copy,
    ("VList", "append"): _list_append,
    ("VList", "pop"): _list_pop,
    ("VList", "extend"): _list_extend,
}


def _dict_get(ctx, it, obj, o, args, kw):
    k = _as_term(ctx.deref(args[0]))
    default = args[1] if len(args) > 1 else NONE
    if ctx.branch(z3.Select(o.dom, k), "dict.get"):
        return it.dict_value(obj, o, k, present=True)
    return default


def _dict_setdefault(ctx, it, obj, o, args, kw):
    _need_ref(obj, "setdefault")
    k = _as_term(ctx.deref(args[0]))
    if ctx.branch(z3.Select(o.dom, k), "dict.setdefault"):
        return it.dict_value(obj, o, k, present=True)
    dv = ctx.deref(args[1])
    ctx.store(obj, VDict(o.ty, z3.Store(o.dom, k, True), z3.Store(o.val, k, _as_term(dv))))
    o2 = ctx.deref(obj)
    return it.dict_value(obj, o2, k, present=True)


def _dict_values(ctx, it, obj, o, args, kw):
    # the collection of values as a set (order-free)
    ty = TSet(o.ty.val)
    R = z3.Const(fresh_name("vals"), ty.sort)
    k = z3.Const(fresh_name("k"), o.ty.key.sort)
    v = z3.Const(fresh_name("v"), o.ty.val.sort)
    kw_ = z3.Function(fresh_name("keyof"), o.ty.val.sort, o.ty.key.sort)
    ctx.assume(z3.ForAll([k], z3.Implies(z3.Select(o.dom, k), z3.Select(R, z3.Select(o.val, k)))))
    ctx.assume(z3.ForAll([v], z3.Implies(z3.Select(R, v), z3.And(
        z3.Select(o.dom, kw_(v)), z3.Select(o.val, kw_(v)) == v))))
    return VSet(ty, R)


def _dict_keys(ctx, it, obj, o, args, kw):
    return VSet(TSet(o.ty.key), o.dom)


def _dict_copy(ctx, it, obj, o, args, kw):
    return ctx.alloc(VDict(o.ty, o.dom, o.val))


def _dict_items(ctx, it, obj, o, args, kw):
    return VDictItems(obj, o)


CONTAINER_METHODS.update({
    ("VDict", "items"): _dict_items,
    ("VDict", "get"): _dict_get,
    ("VDict", "setdefault"): _dict_setdefault,
    ("VDict", "values"): _dict_values,
    ("VDict", "keys"): _dict_keys,
    ("VDict", "copy"): _dict_copy,
})


# ---- str methods -----------------------------------------------------------
def _str_startswith(ctx, it, obj, o, args, kw):
    p = ctx.deref(args[0])
    if isinstance(p, VPy):
        p = VStr(p.py)
    return VBool(z3.PrefixOf(p.t, o.t))


def _str_format(ctx, it, obj, o, args, kw):
    # template.format(...): a template written in the program text has the fields one sees; a COMPUTED template (built from
    # data, e.g. a statement's printed form) may hold braces of its own, and format() then raises or reads other arguments
    if isinstance(o, VPy) and not getattr(o, "literal", False):
        raise Unsupported("format() of a computed string: braces in the data become format fields")
    return VPy("<formatted>")


def _str_endswith(ctx, it, obj, o, args, kw):
    p = ctx.deref(args[0])
    if isinstance(p, VPy):
        p = VStr(p.py)
    return VBool(z3.SuffixOf(p.t, o.t))


def _str_expandtabs(ctx, it, obj, o, args, kw):
    """str.expandtabs(): partial model.  Without a tab the text is returned as it is; with one, the result holds no tab
    (so it differs from the text) and is at least as long.  Where the blanks go is not modelled."""
    if args or kw:
        raise Unsupported("expandtabs with a tab size")
    tab = z3.StringVal("\t")
    r = z3.String(fresh_name("expanded"))
    ctx.assume(z3.Implies(z3.Not(z3.Contains(o.t, tab)), r == o.t))
    ctx.assume(z3.Implies(z3.Contains(o.t, tab), z3.And(z3.Not(z3.Contains(r, tab)), z3.Length(r) >= z3.Length(o.t))))
    return VStr(r)


CONTAINER_METHODS.update({
    ("VStr", "startswith"): _str_startswith,
    ("VStr", "endswith"): _str_endswith,
    ("VStr", "expandtabs"): _str_expandtabs,
})


# ---- builtins --------------------------------------------------------------
def _b_len(ctx, it, args, kw):
    v = ctx.deref(args[0])
    if isinstance(v, VList):
        return VInt(v.n)
    if isinstance(v, VTuple):
        return VInt(len(v.items))
    if isinstance(v, VStr):
        return VInt(z3.Length(v.t))
    if isinstance(v, VCount):
        return VInt(v.t)
    if hasattr(v, "length"):
        return v.length(it)
    raise Unsupported("len(%r)" % (v,))


def _b_set(ctx, it, args, kw):
    if not args:
        raise Unsupported("set() needs a type: use contract hook")
    v = ctx.deref(args[0])
    if isinstance(v, VSet):
        return ctx.alloc(VSet(v.ty, v.t))
    if isinstance(v, VList):
        ty = TSet(v.ty.elem)
        return ctx.alloc(VSet(ty, _to_set_term(ctx, it, v, ty)))
    raise Unsupported("set(%r)" % (v,))


def _b_list(ctx, it, args, kw):
    v = ctx.deref(args[0])
    if isinstance(v, VList):
        return ctx.alloc(VList(v.ty, v.n, v.a))
    if isinstance(v, VSet):
        # a list enumerating the set in arbitrary order, each element once
        ty = TList(v.ty.elem)
        L = ty.fresh("listof")
        j = z3.Int(fresh_name("j"))
        e = z3.Const(fresh_name("e"), v.ty.elem.sort)
        idx = z3.Function(fresh_name("idx"), v.ty.elem.sort, z3.IntSort())
        ctx.assume(L.n >= 0)
        ctx.assume(z3.ForAll([j], z3.Implies(z3.And(j >= 0, j < L.n),
                                             z3.And(z3.Select(v.t, z3.Select(L.a, j)),
                                                    idx(z3.Select(L.a, j)) == j))))
        ctx.assume(z3.ForAll([e], z3.Implies(z3.Select(v.t, e), z3.And(
            idx(e) >= 0, idx(e) < L.n, z3.Select(L.a, idx(e)) == e))))
        return ctx.alloc(L)
    raise Unsupported("list(%r)" % (v,))


def _b_str(ctx, it, args, kw):
    return VPy("<str>")


class VRange(V):
    def __init__(self, lo, hi):
        self.lo, self.hi = lo, hi

    def for_loop(self, it, s, k, spec, ex):
        ctx = it.ctx
        ex["$i"] = VInt(self.lo)
        lo, hi = self.lo, self.hi

        def guard_fn():
            i = ex["$i"].t
            ctx.assume(i >= lo)
            return i < hi

        def prologue():
            it.assign(s.target, VInt(ex["$i"].t))

        def epilogue():
            ex["$i"] = VInt(z3.simplify(ex["$i"].t + 1))

        it.run_cut_loop(s, k, spec, guard_fn, prologue, epilogue, lambda: None)


class VEnumerate(V):
    """enumerate(<list>)"""

    def __init__(self, L):
        self.L = L

    def for_loop(self, it, s, k, spec, ex):
        L = self.L
        ctx = it.ctx
        ex["$i"] = VInt(0)
        ex["$L"] = L

        def guard_fn():
            i = ex["$i"].t
            ctx.assume(z3.And(i >= 0, i <= L.n))
            return i < L.n

        def prologue():
            i = ex["$i"].t
            it.assign(s.target, VTuple([VInt(i), it.wrap_elem(L.ty.elem, z3.Select(L.a, i))]))

        def epilogue():
            ex["$i"] = VInt(z3.simplify(ex["$i"].t + 1))

        it.run_cut_loop(s, k, spec, guard_fn, prologue, epilogue, lambda: None)


def _b_enumerate(ctx, it, args, kw):
    v = ctx.deref(args[0])
    if isinstance(v, VList):
        return VEnumerate(v)
    raise Unsupported("enumerate(%r)" % (v,))


def _b_range(ctx, it, args, kw):
    vals = [ctx.deref(a) for a in args]
    for v in vals:
        if not isinstance(v, VInt):
            raise Unsupported("range(%r)" % (v,))
    if len(vals) == 1:
        return VRange(z3.IntVal(0), vals[0].t)
    if len(vals) == 2:
        return VRange(vals[0].t, vals[1].t)
    raise Unsupported("range with step")


BUILTINS = {"enumerate": _b_enumerate, "range": _b_range, "len": _b_len, "set": _b_set, "list": _b_list, "str": _b_str}
