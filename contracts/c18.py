"""C18 — constant hoisting preserves value and hoists only constants (relative).

Functions under contract (read from /repo/dagrt/expression.py on every run):
  _ExpressionCollapsingMapper.rec, .map_commut_assoc, .map_sum, .map_product, collapse_constants
Relative to: the constant finder's postcondition (is_constant[e] => e mentions no free variable) and
A-ID for pymbolic's IdentityMapper.
"""
import ast as pyast
import z3
from z3 import And, Or, Not, Implies, ForAll, Select, Store, If, IntSort, BoolSort

from pyvc.values import *  # noqa
from pyvc.contracts import FunctionContract, FunctionUnit, LemmaUnit
from .c08 import Expr, EXPR

PROP = "C18"
REL = "dagrt/expression.py"

# The combining operator (+ or *) is only assumed commutative and associative.  An identity between two
# combinations of atoms holds in every commutative semigroup iff both sides have the same multiset of atoms,
# iff it holds in (Z, +) for all integer values of the atoms: so denotations are integers and `op` is +.
Val = IntSort()
den = z3.Function("denotation", Expr, Val)            # value of an expression under an arbitrary, fixed valuation
#   (a hoisted variable denotes the expression assigned to it: fixed when the assignment is recorded)
op = lambda a, b: a + b                               # noqa: E731
UNIT = z3.IntVal(0)
C = z3.Function("mentions_no_free_variable", Expr, BoolSort())
ISC = z3.Function("is_constant_table", Expr, BoolSort())      # self.is_constant[e]
ATOMIC = z3.Function("is_atomic", Expr, BoolSort())


def ac_axioms():
    return []


class VAcc(V):
    """a list/tuple of expressions of which the combined value, the length, the first element and
    'all elements are constants' are tracked"""
    ty = None

    def __init__(self, n, fold, first, allc):
        self.n, self.fold, self.first, self.allc = n, fold, first, allc

    def truth(self, it):
        return self.n > 0

    def length(self, it):
        return VInt(self.n)

    def getitem(self, it, idx, node):
        if isinstance(idx, VInt) and z3.is_int_value(idx.t) and idx.t.as_long() == 0:
            if not it.ctx.branch(self.n > 0, "index0"):
                it.ctx.raise_("IndexError")
            return EXPR.wrap(self.first)
        raise Unsupported("index")

    def fresh_like(self, ctx, base):
        v = VAcc(z3.Int(fresh_name(base + "_n")), z3.Const(fresh_name(base + "_fold"), Val),
                 z3.Const(fresh_name(base + "_first"), Expr), z3.Bool(fresh_name(base + "_allc")))
        ctx.assume(v.n >= 0)
        return v

    def binop(self, it, op_, other, node):
        raise Unsupported("acc op")


def _acc_append(ctx, it, obj, args, kw):
    o = ctx.deref(obj)
    x = ctx.deref(args[0]).t
    ctx.store(obj, VAcc(o.n + 1, If(o.n == 0, den(x), op(o.fold, den(x))), If(o.n == 0, x, o.first), And(o.allc, C(x))))
    return NONE


VAcc.methods = {"append": _acc_append}


def empty_acc():
    return VAcc(z3.IntVal(0), UNIT, z3.Const(fresh_name("no_first"), Expr), z3.BoolVal(True))


class VChildren(V):
    """expr.children: the operands of a sum / product (at least one)"""
    ty = None

    def __init__(self, e):
        self.e = e

    def for_loop(self, it, s, k, spec, ex):
        ctx = it.ctx
        n = NCH(self.e)
        ex["$j"] = VInt(0)
        ex["$sofar"] = VVal(UNIT)     # combined value of the children seen so far

        def guard_fn():
            j = ex["$j"].t
            ctx.assume(And(0 <= j, j <= n))
            # the combination of all children is the denotation of the node
            ctx.assume(Implies(j == n, ex["$sofar"].t == den(self.e)))
            return j < n

        def prologue():
            ch = z3.Const(fresh_name("child"), Expr)
            ex["$child"] = VVal(ch)
            it.assign(s.target, EXPR.wrap(ch))

        def epilogue():
            j = ex["$j"].t
            ch = ex["$child"].t
            ex["$sofar"] = VVal(If(j == 0, den(ch), op(ex["$sofar"].t, den(ch))))
            ex["$j"] = VInt(z3.simplify(j + 1))

        it.run_cut_loop(s, k, spec, guard_fn, prologue, epilogue, lambda: None)


class VVal(V):
    ty = None

    def __init__(self, t):
        self.t = t

    def fresh_like(self, ctx, base):
        return VVal(z3.Const(fresh_name(base), self.t.sort()))


NCH = z3.Function("number_of_children", Expr, IntSort())


class MapperContract(FunctionContract):
    prop = PROP
    relpath = REL
    axioms = property(lambda self: tuple(ac_axioms()))

    def __init__(self):
        self.e = z3.Const("expr", Expr)

    def mk_self(self, ctx):
        ctx.ghost["hoisted_ok"] = z3.BoolVal(True)     # every recorded assignment so far is a constant expression
        return VObj(TObj("Mapper", {}), {"is_constant": VTable(), "assignments": VAssign(),
                                         "new_var_func": VFunc("new_var_func", self.m_new_var)})

    def m_new_var(self, ctx, it, args, kw):
        """precondition of collapse_constants: new_var_func returns a variable not used anywhere so far"""
        v = z3.Const(fresh_name("new_var"), Expr)
        ctx.ghost.setdefault("fresh_vars", []).append(v)
        return EXPR.wrap(v)

    def m_rec(self, ctx, it, args, kw):
        """self.rec(e) by its contract (unit RecContract): same denotation, may record constant assignments"""
        e = ctx.deref(args[0]).t
        r = z3.Const(fresh_name("rec_result"), Expr)
        ctx.assume(den(r) == den(e))
        return EXPR.wrap(r)

    def m_identity_rec(self, ctx, it, args, kw):
        """IdentityMapper.rec(self, e): A-ID dispatch to a map_* method; every one of them (inherited or the two
        overrides below) returns an expression with the same denotation"""
        e = ctx.deref(args[1]).t
        r = z3.Const(fresh_name("identity_result"), Expr)
        ctx.assume(den(r) == den(e))
        return EXPR.wrap(r)

    def m_is_atomic(self, ctx, it, args, kw):
        return VBool(ATOMIC(ctx.deref(args[0]).t))

    names = property(lambda self: {"_is_atomic": VFunc("_is_atomic", self.m_is_atomic),
                                   "tuple": VFunc("tuple", lambda ctx, it, a, k: a[0])})
    calls = property(lambda self: {"self.rec": self.m_rec, "IdentityMapper.rec": self.m_identity_rec,
                                   "self.new_var_func": self.m_new_var})

    def requires(self, st):
        x = z3.Const("x", Expr)
        return [("finder-postcondition", ForAll([x], Implies(ISC(x), C(x))))]


class VTable(V):
    """self.is_constant[e] (the finder classified every subexpression)"""
    ty = None

    def getitem(self, it, idx, node):
        return VBool(ISC(it.ctx.deref(idx).t))


class VAssign(V):
    """self.assignments[new_var] = e: from now on new_var denotes e; e must be a constant expression"""
    ty = None

    def setitem(self, it, idx, v, node):
        ctx = it.ctx
        var = ctx.deref(idx).t
        e = ctx.deref(v).t
        ctx.oblige(it.oname("hoisted-expression-mentions-no-free-variable"), C(e))
        ctx.oblige(it.oname("assigned-variable-is-a-new-one(assigned-exactly-once)"),
                   z3.BoolVal(any(var.eq(f) for f in ctx.ghost.get("fresh_vars", []))))
        if any(var.eq(f) for f in ctx.ghost.get("fresh_vars", [])):
            ctx.ghost["fresh_vars"] = [f for f in ctx.ghost["fresh_vars"] if not f.eq(var)]
        ctx.assume(den(var) == den(e))


class RecContract(MapperContract):
    qualname = "_ExpressionCollapsingMapper.rec"

    def params(self, ctx):
        ctx.env["self"] = self.mk_self(ctx)
        ctx.env["expr"] = EXPR.wrap(self.e)

    def ensures(self, st):
        return [("same-value-once-the-hoisted-assignments-are-substituted-back", den(st.result.t) == den(self.e))]


class CombineFunc:
    """combine_func(children): Sum / Product of the children: denotes the combination of their values and is a
    constant expression when all of them are"""

    @staticmethod
    def call(ctx, it, args, kw):
        l = ctx.deref(args[0])
        if not isinstance(l, VAcc):
            raise Unsupported("combine_func(%r)" % (l,))
        ctx.oblige(it.oname("combine_func-gets-at-least-one-operand"), l.n >= 1)
        r = z3.Const(fresh_name("combined"), Expr)
        ctx.assume(den(r) == l.fold)
        ctx.assume(Implies(l.allc, C(r)))
        return EXPR.wrap(r)


class CommutAssoc(MapperContract):
    qualname = "_ExpressionCollapsingMapper.map_commut_assoc"
    prune_quantified = False

    def params(self, ctx):
        ctx.env["self"] = self.mk_self(ctx)
        ctx.env["expr"] = VNodeC(self.e)
        ctx.env["combine_func"] = VFunc("combine_func", CombineFunc.call)

    def requires(self, st):
        return super().requires(st) + [("a-sum-or-product-has-operands", NCH(self.e) >= 1)]

    def list_literal(self, ctx, it, e):
        if e.elts:
            raise Unsupported("list literal")
        return ctx.alloc(empty_acc())

    def binop_hook(self, ctx, it, op_, a, b):
        # (folded_constant,) + non_constants
        if op_ is pyast.Add and isinstance(a, VTuple) and len(a.items) == 1 and isinstance(b, VAcc):
            x = ctx.deref(a.items[0]).t
            return VAcc(b.n + 1, If(b.n == 0, den(x), op(den(x), b.fold)), x, And(C(x), b.allc))
        return None

    def inv(self, s):
        cs, ncs = s.constants, s.non_constants
        sofar = s.loop(0)["$sofar"].t
        j = s.loop(0)["$j"].t
        comb = If(cs.n == 0, If(ncs.n == 0, UNIT, ncs.fold), If(ncs.n == 0, cs.fold, op(cs.fold, ncs.fold)))
        return [("children-seen-so-far-are-split-without-loss", And(cs.n + ncs.n == j, comb == sofar)),
                ("only-constants-in-the-constant-list", And(cs.allc, Implies(cs.n >= 1, C(cs.first)))),
                ("a-one-element-list-combines-to-its-element",
                 And(Implies(cs.n == 1, cs.fold == den(cs.first)), Implies(ncs.n == 1, ncs.fold == den(ncs.first))))]

    loops = property(lambda self: {0: dict(shape="for child in expr.children", inv=self.inv)})

    def ensures(self, st):
        return [("same-value-once-the-hoisted-assignments-are-substituted-back", den(st.result.t) == den(self.e))]


class VNodeC(V):
    ty = None

    def __init__(self, e):
        self.e = e


def _getattr_children(self, ctx, it, obj, name):
    o = ctx.deref(obj)
    if isinstance(o, VNodeC) and name == "children":
        return VChildren(o.e)
    return None


CommutAssoc.getattr_hook = _getattr_children


class SumProduct(MapperContract):
    """map_sum / map_product delegate to map_commut_assoc with the matching constructor"""

    def __init__(self, which, ctor):
        super().__init__()
        self.qualname = "_ExpressionCollapsingMapper." + which
        self.ctor = ctor

    def params(self, ctx):
        ctx.env["self"] = self.mk_self(ctx)
        ctx.env["expr"] = EXPR.wrap(self.e)
        ctx.ghost["delegated"] = z3.BoolVal(False)

    def m_delegate(self, ctx, it, args, kw):
        f = ctx.deref(args[1])
        ctx.ghost["delegated"] = And(ctx.deref(args[0]).t == self.e, z3.BoolVal(isinstance(f, VClass) and f.name == self.ctor))
        r = z3.Const(fresh_name("result"), Expr)
        ctx.assume(den(r) == den(self.e))
        return EXPR.wrap(r)

    calls = property(lambda self: {"self.map_commut_assoc": self.m_delegate})
    names = property(lambda self: {"Sum": VClass("Sum"), "Product": VClass("Product")})

    def ensures(self, st):
        return [("delegates-the-node-with-its-own-constructor", st.g("delegated")),
                ("same-value", den(st.result.t) == den(self.e))]


def units():
    from . import cfinder
    return [FunctionUnit(RecContract()), FunctionUnit(CommutAssoc()),
            FunctionUnit(SumProduct("map_sum", "Sum")), FunctionUnit(SumProduct("map_product", "Product")),
            FunctionUnit(CollapsingCall()), FunctionUnit(CollapseDriver())] \
        + cfinder.units()


LEVEL = "proof"
BOUNDED = {"quick": {"timeout_s": 90}, "thorough": {"timeout_s": 900}}
TRUSTED_BASE = [
    "A-COMBINE (pymbolic.mapper.CombineMapper): for a composite node the inherited map_* calls self.rec on every direct subexpression "
    "and then self.combine on exactly those results; rec / __call__ dispatch to the node's map_* method. Under it the finder's own six "
    "methods are proved to satisfy the method contract MC (contracts/cfinder.py) and __call__ to return a sound table - the finder "
    "postcondition `is_constant[e] => e mentions no free variable` that the collapsing mapper's proof uses; the step from MC of the own "
    "methods to MC of the inherited ones is a structural induction that is argued, not machine-checked",
    "A-ID: IdentityMapper.rec dispatches to map_*; inherited map_* rebuild the node from recursively mapped children, so they preserve the denotation when the children do",
    "Sum / Product denote the commutative-associative combination of their operands (uninterpreted AC operator: nothing else about + or * is used)",
    "precondition of collapse_constants: new_var_func returns a variable that is used nowhere else, distinct each call",
]
ASSUMPTIONS = [
    "a hoisted variable denotes the expression assigned to it (the meaning of 'with the hoisted assignments substituted back')",
    "collapse_constants and _ExpressionCollapsingMapper.__call__ are under contract (every recorded assignment handed to assign_func exactly once, with its expression; "
    "the finder's table, new_var_func and an empty map in place before the traversal); the dict the mapper fills is the same object __call__ returns (aliasing of "
    "self.assignments, tagged not modelled)",
]
EXPLANATION = ("_ExpressionCollapsingMapper.rec and map_commut_assoc are executed symbolically over an abstract value semantics (arbitrary "
               "valuation, + and * as one uninterpreted commutative-associative operator): the returned expression is proved to denote the "
               "value of the input once hoisted variables are read as their assigned expressions; every expression recorded in "
               "`assignments` is proved to mention no free variable (given the finder's postcondition) and to be assigned to a variable "
               "freshly obtained from new_var_func, exactly once; combine_func is proved never to receive an empty operand list; map_sum / "
               "map_product delegate with their own constructor.")


# ---- collapse_constants and _ExpressionCollapsingMapper.__call__ (the drivers) -----------------------------------------
ExprSet18 = z3.ArraySort(Expr, BoolSort())
vm_val = z3.Function("assignment_of", Expr, Expr)      # variable_map[v]


class VVarMap(V):
    """the assignments dict returned by the mapper: keys = hoisted variables (each once), values = their expressions"""
    ty = None

    def __init__(self, keys):
        self.keys = keys


class VVMItems(V):
    ty = None

    def __init__(self, keys):
        self.keys = keys

    def for_loop(self, it, s, k, spec, ex):
        it._for_set(s, k, spec, VSet(TSet(EXPR), self.keys), ex,
                    lambda x: VTuple([EXPR.wrap(x), EXPR.wrap(vm_val(x))]))


class CollapseDriver(FunctionContract):
    """collapse_constants: hands every recorded assignment to assign_func exactly once (a dict has each key once) and
    returns the mapper's expression"""
    prop = PROP
    relpath = REL
    qualname = "collapse_constants"
    prune_quantified = False

    def __init__(self):
        self.e = z3.Const("expression", Expr)
        self.keys = z3.Const("hoisted_variables", ExprSet18)
        self.newe = z3.Const("new_expression", Expr)

    def params(self, ctx):
        ctx.env["expression"] = EXPR.wrap(self.e)
        ctx.env["free_variables"] = VPy("<free_variables>")
        ctx.env["assign_func"] = VFunc("assign_func", self.m_assign)
        ctx.env["new_var_func"] = VPy("<new_var_func>")
        ctx.ghost["assigned"] = z3.K(Expr, z3.BoolVal(False))
        ctx.ghost["twice"] = z3.BoolVal(False)
        ctx.ghost["wrong"] = z3.BoolVal(False)
        ctx.ghost["mapper_ok"] = z3.BoolVal(False)

    def m_assign(self, ctx, it, args, kw):
        v, x = [ctx.deref(a) for a in args]
        ctx.ghost["twice"] = Or(ctx.ghost["twice"], Select(ctx.ghost["assigned"], v.t))
        ctx.ghost["wrong"] = Or(ctx.ghost["wrong"], x.t != vm_val(v.t))
        ctx.ghost["assigned"] = Store(ctx.ghost["assigned"], v.t, True)
        return NONE

    def m_mapper_cls(self, ctx, it, args, kw):
        fv = ctx.deref(args[0]) if args else None
        good_fv = isinstance(fv, VPy) and fv.py == "<free_variables>"

        def call(ctx, it, a, k):
            a = [ctx.deref(x) for x in a]
            ok = (good_fv and len(a) == 2 and isinstance(a[0], VElem) and a[0].t.eq(self.e)
                  and isinstance(a[1], VPy) and a[1].py == "<new_var_func>")
            ctx.ghost["mapper_ok"] = z3.BoolVal(bool(ok))
            return VTuple([EXPR.wrap(self.newe), VVarMap(self.keys)])
        return VFunc("mapper", call)

    names = property(lambda self: {"_ExpressionCollapsingMapper": VFunc("_ExpressionCollapsingMapper", self.m_mapper_cls)})

    def getattr_hook(self, ctx, it, obj, name):
        o = ctx.deref(obj)
        if isinstance(o, VVarMap) and name == "items":
            return VFunc("items", lambda ctx, it, a, k: VVMItems(o.keys))
        return None

    def inv(self, s):
        return [("assigned-so-far-are-exactly-the-processed-variables", s.g("assigned") == s.loop(0)["$proc"].t),
                ("nothing-assigned-twice-or-with-another-expression", And(Not(s.g("twice")), Not(s.g("wrong"))))]

    loops = property(lambda self: {0: dict(shape="for (variable, expr) in variable_map.items()", inv=self.inv,
                                           havoc_ghosts=["assigned", "twice", "wrong"])})

    def ensures(self, st):
        r = st.result
        return [("mapper-built-from-the-free-variables-and-run-on-the-expression-with-new_var_func", st.g("mapper_ok")),
                ("every-hoisted-variable-is-assigned", st.g("assigned") == self.keys),
                ("exactly-once-and-with-its-recorded-expression", And(Not(st.g("twice")), Not(st.g("wrong")))),
                ("returns-the-mapper's-expression", z3.BoolVal(isinstance(r, VElem)) if not isinstance(r, VElem) else r.t == self.newe)]


class CollapsingCall(FunctionContract):
    """_ExpressionCollapsingMapper.__call__: classifies with the finder built from the free variables, starts from an
    empty assignment map, returns (IdentityMapper.__call__(expr), the map)"""
    prop = PROP
    relpath = REL
    qualname = "_ExpressionCollapsingMapper.__call__"

    def __init__(self):
        self.e = z3.Const("expr", Expr)

    def params(self, ctx):
        self.finder = VFunc("constant_finding_mapper", self.m_finder)
        ctx.env["self"] = ctx.alloc(VObj(TObj("Mapper", {}), {
            "constant_finding_mapper": self.finder, "new_var_func": VPy("<unset>"), "is_constant": VPy("<unset>"),
            "assignments": VPy("<unset>")}))
        ctx.env["expr"] = EXPR.wrap(self.e)
        ctx.env["new_var_func"] = VPy("<new_var_func>")
        ctx.ghost["order"] = z3.BoolVal(False)

    def m_finder(self, ctx, it, args, kw):
        a = ctx.deref(args[0])
        return VPy("<table of the finder on expr>" if isinstance(a, VElem) and a.t.eq(self.e) else "<table of ?>")

    def m_identity_call(self, ctx, it, args, kw):
        o = ctx.deref(ctx.env["self"])
        f = {k: ctx.deref(v) for k, v in o.fields.items()}
        ready = (isinstance(f["is_constant"], VPy) and f["is_constant"].py == "<table of the finder on expr>"
                 and isinstance(f["new_var_func"], VPy) and f["new_var_func"].py == "<new_var_func>"
                 and isinstance(f["assignments"], VPy) and f["assignments"].py == "<empty dict>")
        a = ctx.deref(args[1])
        ctx.ghost["order"] = z3.BoolVal(bool(ready and isinstance(a, VElem) and a.t.eq(self.e)))
        return VPy("<mapped expr>")

    def dict_literal(self, ctx, it, e):
        return VPy("<empty dict>" if not e.keys else "<dict>")

    calls = property(lambda self: {"IdentityMapper.__call__": self.m_identity_call})

    def ensures(self, st):
        r = st.result
        good = (isinstance(r, VTuple) and len(r.items) == 2 and isinstance(st._deref(r.items[0]), VPy)
                and st._deref(r.items[0]).py == "<mapped expr>" and isinstance(st._deref(r.items[1]), VPy)
                and st._deref(r.items[1]).py == "<empty dict>")
        return [("the-table-the-function-and-an-empty-map-are-in-place-before-the-traversal", st.g("order")),
                ("returns-the-mapped-expression-and-the-assignment-map", z3.BoolVal(bool(good)))]
