import Mathlib.Data.List.Nodup
import Mathlib.Logic.Relation
namespace LTopo
variable {ι : Type*} [DecidableEq ι]
/-- every statement's direct dependencies occur earlier in the schedule `l` -/
def Respects (dep : ι → ι → Prop) (l : List ι) : Prop :=
  ∀ x ∈ l, ∀ d, dep x d → d ∈ l ∧ l.idxOf d < l.idxOf x

theorem trans_earlier (dep : ι → ι → Prop) (l : List ι) (h : Respects dep l) :
    ∀ x y, Relation.TransGen dep x y → x ∈ l → y ∈ l ∧ l.idxOf y < l.idxOf x := by
  intro x y hxy
  induction hxy with
  | single hd => intro hx; exact h x hx _ hd
  | tail _ hbc ih =>
    intro hx
    obtain ⟨hb, hlt⟩ := ih hx
    obtain ⟨hc, hlt'⟩ := h _ hb _ hbc
    exact ⟨hc, Nat.lt_trans hlt' hlt⟩

theorem pairwise_of_respects (dep : ι → ι → Prop) (l : List ι) (hnd : l.Nodup) (h : Respects dep l) :
    l.Pairwise (fun x y => ¬ Relation.TransGen dep x y) := by
  rw [List.pairwise_iff_getElem]
  intro i j hi hj hij hT
  have hx : l[i] ∈ l := List.getElem_mem hi
  obtain ⟨_, hlt⟩ := trans_earlier dep l h _ _ hT hx
  rw [hnd.idxOf_getElem, hnd.idxOf_getElem] at hlt
  omega
end LTopo
