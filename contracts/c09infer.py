"""C09 / C14 — infer_kinds(dag): the driver is given every phase's statements under THAT phase's name."""
import z3
from pyvc.values import *  # noqa
from pyvc.contracts import FunctionContract, FunctionUnit

REL = "dagrt/data.py"
B = z3.BoolVal


class VDag2(V):
    ty = None


class VPhases2(V):
    ty = None

    def __init__(self, names):
        self.names = names


class InferKinds(FunctionContract):
    prop = "C09"
    relpath = REL
    qualname = "infer_kinds"

    def __init__(self, registry_given):
        self.given = registry_given
        self.variant_name = "function_registry=%s" % ("given" if registry_given else "None")

    def params(self, ctx):
        self.asked = None
        self.reg_used = None
        ctx.env["dag"] = VDag2()
        ctx.env["function_registry"] = VPy("<given registry>") if self.given else NONE

    def getattr_hook(self, ctx, it, obj, name):
        o = ctx.deref(obj)
        if isinstance(o, VDag2) and name == "phases":
            return VPhases2(["b", "a", "c"])
        if isinstance(o, VPhases2) and name == "values":
            return VFunc("values", lambda ctx, it, a, k: VTuple([VPy(("phase", n)) for n in o.names]))
        if isinstance(o, VPhases2) and name == "keys":
            return VFunc("keys", lambda ctx, it, a, k: VTuple([VPy(n) for n in o.names]))
        if isinstance(o, VPhases2) and name == "items":
            return VFunc("items", lambda ctx, it, a, k: VTuple([VTuple([VPy(n), VPy(("phase", n))]) for n in o.names]))
        if isinstance(o, VPy) and isinstance(o.py, tuple) and o.py[0] == "phase" and name == "statements":
            return VPy(("statements-of", o.py[1]))
        return None

    def m_list(self, ctx, it, args, kw):
        v = ctx.deref(args[0])
        if isinstance(v, VPhases2):
            return VTuple([VPy(n) for n in v.names])
        if isinstance(v, VTuple):
            return v
        raise Unsupported("list(%r)" % (v,))

    def schema(self, ctx, it, e):
        gen = e.generators[0]
        src = ctx.deref(it.eval(gen.iter))
        if not (isinstance(src, VTuple) and len(e.generators) == 1 and not gen.ifs):
            raise Unsupported("comprehension")
        out = []
        saved = dict(ctx.env)
        try:
            for x in src.items:
                it.assign(gen.target, x)
                out.append(ctx.deref(it.eval(e.elt)))
        finally:
            ctx.env = saved
        return VTuple(out)

    @property
    def comprehensions(self):
        import ast as pyast
        from .c16 import _comprehensions_of
        return {pyast.unparse(c): self.schema for c in _comprehensions_of(REL, self.qualname)}

    def m_finder_cls(self, ctx, it, args, kw):
        self.reg_used = getattr(ctx.deref(args[0]), "py", "?")

        def call(ctx, it, a, k):
            a = [ctx.deref(x) for x in a]
            self.asked = tuple(tuple(getattr(ctx.deref(i), "py", "?") for i in x.items) if isinstance(x, VTuple) else "?" for x in a)
            return VPy("<table>")
        return VFunc("finder", call)

    def m_sorted(self, ctx, it, args, kw):
        v = ctx.deref(self.m_list(ctx, it, args, kw))
        return VTuple(sorted(v.items, key=lambda x: str(x.py)))

    names = property(lambda self: {"list": VFunc("list", self.m_list), "sorted": VFunc("sorted", self.m_sorted), "SymbolKindFinder": VFunc("SymbolKindFinder", self.m_finder_cls),
                                   "base_function_registry": VPy("<base registry>")})

    def ensures(self, st):
        ok = False
        if self.asked and len(self.asked) == 2 and len(self.asked[0]) == len(self.asked[1]) == 3:
            pairs = set(zip(self.asked[0], self.asked[1]))
            ok = pairs == {(n, ("statements-of", n)) for n in ("a", "b", "c")}
        return [("every-phase's-statements-are-presented-under-that-phase's-name(each-phase-once)", B(bool(ok))),
                ("the-given-registry-is-used-and-the-base-registry-only-when-none-is-given",
                 B(self.reg_used == ("<given registry>" if self.given else "<base registry>"))),
                ("returns-the-driver's-table", B(getattr(st.result, "py", None) == "<table>"))]


def units():
    return [FunctionUnit(InferKinds(True)), FunctionUnit(InferKinds(False))]
