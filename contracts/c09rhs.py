"""C09 — _ODERightHandSide.get_result_kinds (registered right-hand sides, dagrt/function_registry.py).

The declared result is always exactly one kind, UserType(output_type_id) - the type the user promised for the value the
function returns (an assumption on user functions); with check=True the call is accepted only if t is a scalar and every
state argument is a user type with the registered identifier (run with two state arguments: the loop is uniform).
"""
import z3
from z3 import And, Or, Not, Implies

from pyvc.values import *  # noqa
from pyvc.contracts import FunctionContract, FunctionUnit
from .kinds import Kind, KIND, KIND_CLASSES, Ident, IDENT

REL = "dagrt/function_registry.py"
K = Kind


class RhsKinds(FunctionContract):
    prop = "C09"
    relpath = REL
    qualname = "_ODERightHandSide.get_result_kinds"

    def __init__(self):
        self.tk = z3.Const("kind_of_t", Kind)
        self.ak = [z3.Const("kind_of_state_argument_%d" % i, Kind) for i in range(2)]
        self.ids = [z3.Const("registered_input_type_%d" % i, Ident) for i in range(2)]
        self.out = z3.Const("registered_output_type", Ident)
        self.check = z3.Bool("check")

    def params(self, ctx):
        ctx.env["self"] = VObj(TObj("rhs", {}), {
            "arg_names": VTuple([VPy("t"), VPy("a0"), VPy("a1")]),
            "input_type_ids": VTuple([IDENT.wrap(i) for i in self.ids]),
            "output_type_id": IDENT.wrap(self.out), "identifier": VPy("<identifier>")})
        ctx.env["arg_kinds"] = VPy("<arg_kinds>")
        ctx.env["check"] = VBool(self.check)

    def m_resolve(self, ctx, it, args, kw):
        return VTuple([KIND.wrap(self.tk)] + [KIND.wrap(a) for a in self.ak])

    def m_zip(self, ctx, it, args, kw):
        xs = [ctx.deref(a) for a in args]
        if not all(isinstance(x, VTuple) for x in xs):
            raise Unsupported("zip(%r)" % (xs,))
        return VTuple([VTuple(list(t)) for t in zip(*[x.items for x in xs])])

    def slice_tuple(self):
        pass

    calls = property(lambda self: {"self.resolve_args": self.m_resolve})
    names = property(lambda self: dict(KIND_CLASSES, zip=VFunc("zip", self.m_zip)))

    def binop_hook(self, ctx, it, op_, a, b):
        import ast as pyast
        if op_ is pyast.Mod and isinstance(a, VPy):
            return VPy("<message>")
        return None

    def accepted(self):
        return And(K.is_Scalar(self.tk), *[And(K.is_UserType(a), K.u_ident(a) == i) for a, i in zip(self.ak, self.ids)])

    raises = property(lambda self: {"TypeError": lambda st: [
        ("rejects-only-with-check-and-an-argument-of-the-wrong-kind", And(self.check, Not(self.accepted())))]})

    def ensures(self, st):
        r = st.result
        ok = isinstance(r, VTuple) and len(r.items) == 1 and isinstance(st._deref(r.items[0]), VElem)
        if not ok:
            return [("returns-exactly-one-kind", z3.BoolVal(False))]
        k = st._deref(r.items[0]).t
        return [("returns-exactly-one-kind", z3.BoolVal(True)),
                ("it-is-the-registered-output-user-type", k == K.UserType(self.out)),
                ("with-check-every-argument-had-the-registered-kind", Implies(self.check, self.accepted()))]


def _tuple_slice(self, it, sl, node):
    lo = it.ctx.deref(it.eval(sl.lower)) if sl.lower is not None else None
    if sl.upper is not None or sl.step is not None or lo is None or not z3.is_int_value(z3.simplify(lo.t)):
        raise Unsupported("tuple slice")
    return VTuple(self.items[z3.simplify(lo.t).as_long():])


if not hasattr(VTuple, "slice"):
    VTuple.slice = _tuple_slice


def units():
    return [FunctionUnit(RhsKinds())]
