"""Native oracle for C02 (recorded dependencies make every admissible schedule equal to program order).

A program is a JSON list of calls on the REAL dagrt.language.CodeBuilder.  The oracle builds the phase
with the real builder and checks, on the emitted statements (program order = builder.statements):

  structural   every pair of statements that conflict on a variable (one writes it, the other reads or
               writes it; access sets computed by an independent traversal of the emitted statements'
               syntax -- lhs, lhs subscript, rhs, guard, loop bounds, call arguments, yielded value and
               time -- NOT from get_read_variables) is joined by a depends_on path later -> earlier;
               edges only point backwards and stay inside the phase
  barrier      externally visible statements (yield / fail / raise / switch) are path-ordered with each
               other and with every statement that writes a persistent variable
  guard        the guard of every statement is the conjunction of the enclosing if_/else_ flags
               (else_ = negated flag of the matching if_)
  fresh-name   names handed out by if_ / fresh_var_name are new: never a name the user program used before
               (in any syntactic position) and never handed out twice
  schedule     executing with the real NumpyInterpreter.evaluate_condition / exec_* one statement at a
               time: every linear extension of depends_on (all of them when there are few, else the
               anti-program-order one plus seeded random ones) gives the same events, the same
               termination and the same final value of every variable as the written order

Not generated unless budget["aliasing"] is set: plain array copies (`a <- <state>v`).  The numpy interpreter
binds both names to one array, so `a[0] <- 9` also changes <state>v without any recorded conflict; replay()
accepts such programs and reports the resulting schedule difference (clause `schedule` only).

Input (JSON): {"ops": [op...], "ctx": {optional initial values}}
op:
  ["assign", lhs, rhs]  |  ["assign", lhs, rhs, [[ident, lo, hi], ...]]      lhs: "x" | ["[]", "a", idx]
  ["call", [assignees], fname, [args], {kw}]
  ["if", cond, [ops], [else-ops] | null]
  ["yield", expr, time] | ["fail"] | ["raise"] | ["switch", name] | ["restart"]
  ["abandon", [ops]]              with builder: <ops>; then the body raises, the caller catches it and goes on building
  ["fresh", prefix, rhs]          name = builder.fresh_var_name(prefix); name <- rhs; later written "$k" (k-th fresh)
  ["implicit", [assignees], [solve], [exprs], {params}]
expr: number | bool | "name" | ["+"|"*"|"-"|"%"|"/"|"**", e, e] | ["[]", e, e] | ["call", f, [e], {kw}] |
      ["cmp", op, e, e] | ["not", e] | ["and"|"or"|"min"|"max", e...] | ["if", c, t, e]
"""
import copy
import dataclasses
import itertools
import json
import random
import re
import zlib
from collections.abc import Mapping

import numpy as np

from dagrt import language as lang
from dagrt.exec_numpy import FailStepException, NumpyInterpreter, TransitionEvent
import pymbolic.primitives as P


# ---- expression codec -----------------------------------------------------------

def dec(e, names=()):
    """JSON -> real pymbolic objects; "$k" is the k-th name handed out by fresh_var_name"""
    if isinstance(e, str):
        if e.startswith("$"):
            return P.Variable(names[int(e[1:])])
        return P.Variable(e)
    if isinstance(e, (bool, int, float)) or e is None:
        return e
    op = e[0]
    d = lambda x: dec(x, names)   # noqa: E731
    if op == "+":
        return P.Sum((d(e[1]), d(e[2])))
    if op == "*":
        return P.Product((d(e[1]), d(e[2])))
    if op == "-":
        return P.Sum((d(e[1]), P.Product((-1, d(e[2])))))
    if op == "/":
        return P.Quotient(d(e[1]), d(e[2]))
    if op == "%":
        return P.Remainder(d(e[1]), d(e[2]))
    if op == "**":
        return P.Power(d(e[1]), d(e[2]))
    if op == "[]":
        return P.Subscript(d(e[1]), d(e[2]))
    if op == "call":
        args = tuple(d(a) for a in e[2])
        kw = e[3] if len(e) > 3 else {}
        if kw:
            from constantdict import constantdict
            return P.CallWithKwargs(P.Variable(e[1]), args, constantdict({k: d(v) for k, v in sorted(kw.items())}))
        return P.Call(P.Variable(e[1]), args)
    if op == "cmp":
        return P.Comparison(d(e[2]), e[1], d(e[3]))
    if op == "not":
        return P.LogicalNot(d(e[1]))
    if op == "and":
        return P.LogicalAnd(tuple(d(a) for a in e[1:]))
    if op == "or":
        return P.LogicalOr(tuple(d(a) for a in e[1:]))
    if op == "min":
        return P.Min(tuple(d(a) for a in e[1:]))
    if op == "max":
        return P.Max(tuple(d(a) for a in e[1:]))
    if op == "if":
        return P.If(d(e[1]), d(e[2]), d(e[3]))
    if op == ".":
        return P.Lookup(d(e[1]), e[2])                  # attribute lookup: z.real
    raise ValueError("bad expression %r" % (e,))


def svars(e, names=()):
    """variable names of a JSON expression (call targets excluded)"""
    if isinstance(e, str):
        return {names[int(e[1:])] if (e.startswith("$") and names is not None) else e}
    if isinstance(e, (bool, int, float)) or e is None:
        return set()
    op = e[0]
    out = set()
    if op == "call":
        for a in e[2]:
            out |= svars(a, names)
        for v in (e[3] if len(e) > 3 else {}).values():
            out |= svars(v, names)
        return out
    if op == "cmp":
        return svars(e[2], names) | svars(e[3], names)
    if op == ".":
        return svars(e[1], names)
    for a in e[1:]:
        out |= svars(a, names)
    return out


def evars(e):
    """independent traversal of REAL pymbolic objects via their dataclass fields (no DependencyMapper):
    all variable names in e, symbols in call-target position excluded"""
    if isinstance(e, P.Variable):
        return {e.name}
    out = set()
    if isinstance(e, (P.Call, P.CallWithKwargs)):
        if not isinstance(e.function, P.Variable):
            out |= evars(e.function)
        out |= evars(tuple(e.parameters))
        if isinstance(e, P.CallWithKwargs):
            out |= evars(tuple(e.kw_parameters.values()))
        return out
    if isinstance(e, P.ExpressionNode):
        for f in dataclasses.fields(e):
            out |= evars(getattr(e, f.name))
        return out
    if isinstance(e, (tuple, list)):
        for c in e:
            out |= evars(c)
        return out
    if isinstance(e, Mapping):
        for c in e.values():
            out |= evars(c)
    return out


def is_persistent(name):
    return name in ("<t>", "<dt>") or name.startswith("<state>") or name.startswith("<p>")


HIDDEN_POSITIONS = {"lhs_sub", "bounds"}      # where D8 loses reads


def access(stmt):
    """(reads: {var: set(positions)}, writes: set, externally_visible: bool) from the emitted statement's syntax"""
    reads = {}

    def add(pos, vs):
        for v in vs:
            reads.setdefault(v, set()).add(pos)

    add("guard", evars(getattr(stmt, "condition", True)))
    writes = set()
    ext = False
    if isinstance(stmt, lang.Assign):
        idents = {l[0] for l in stmt.loops}
        add("rhs", evars(stmt.rhs) - idents)
        if isinstance(stmt.lhs, P.Subscript):
            add("lhs_sub", evars(stmt.lhs.index) - idents)
            writes = evars(stmt.lhs.aggregate)
        else:
            writes = evars(stmt.lhs)
        for _, lo, hi in stmt.loops:
            add("bounds", (evars(lo) | evars(hi)) - idents)
    elif isinstance(stmt, lang.AssignFunctionCall):
        add("args", evars(tuple(stmt.parameters)) | evars(stmt.kw_parameters))
        writes = set(stmt.assignees)
    elif isinstance(stmt, lang.AssignImplicit):
        add("exprs", evars(tuple(stmt.expressions)) - set(stmt.solve_variables))
        add("params", evars(stmt.other_params))
        writes = set(stmt.assignees)
    elif isinstance(stmt, lang.YieldState):
        add("yield", evars(stmt.expression) | evars(stmt.time))
        ext = True
    else:
        ext = True
    return reads, writes, ext


def guard_literals(cond):
    """real condition -> [(flag, polarity)] or None if it has another shape"""
    if cond is True:
        return []
    if isinstance(cond, P.Variable):
        return [(cond.name, True)]
    if isinstance(cond, P.LogicalNot) and isinstance(cond.child, P.Variable):
        return [(cond.child.name, False)]
    if isinstance(cond, P.LogicalAnd):
        out = []
        for c in cond.children:
            sub = guard_literals(c)
            if sub is None or len(sub) != 1:
                return None
            out += sub
        return out
    return None


class UserError(Exception):
    pass


def functions():
    def mk(x=0):
        return np.full(4, int(x))
    return {"<func>f": lambda x=0: x + 1, "<func>g": lambda x=0, y=0: (x + y, x + 2), "<func>mk": mk}


DEFAULT_CTX = {"<t>": 0.0, "<dt>": 0.5, "<state>y": 2, "<p>k": 3, "<state>v": [4, 5, 6, 7]}


def mk_ctx(ctx):
    out = {}
    for k, v in ctx.items():
        out[k] = np.array(v) if isinstance(v, list) else v
    return out


# ---- building with the real CodeBuilder -----------------------------------------------

class OutOfDomain(Exception):
    pass


def build(ops):
    """runs the call sequence on a real CodeBuilder -> dict(builder, stmts (program order), guards (expected guard
    literals per emitted statement), fresh / handed (names the builder handed out), collisions, used)"""
    b = lang.CodeBuilder("ph")
    info = {"guards": [], "fresh": [], "handed": [], "collisions": []}
    used = {}                  # user name -> set of positions seen so far (loop identifiers not included)

    def note(pos, names_):
        for n_ in names_:
            used.setdefault(n_, set()).add(pos)

    def user_names_of(op):
        """[(position, literal user names)] of one op from its JSON, before it is given to the builder
        ("$k" handles are builder-owned names, not user names; loop identifiers are local)"""
        k = op[0]
        out = []

        def lit(e):
            return {v for v in svars(e, None) if not v.startswith("$")}

        if k == "assign":
            loops = op[3] if len(op) > 3 else []
            idents = {l[0] for l in loops}
            lhs = op[1]
            if isinstance(lhs, str):
                out.append(("lhs", lit(lhs)))
            else:
                out.append(("lhs", lit(lhs[1])))
                out.append(("lhs_sub", lit(lhs[2]) - idents))
            out.append(("rhs", lit(op[2]) - idents))
            for _, lo, hi in loops:
                out.append(("bounds", (lit(lo) | lit(hi)) - idents))
        elif k == "call":
            out.append(("lhs", {a for a in op[1] if not a.startswith("$")}))
            for a in op[3]:
                out.append(("args", lit(a)))
            for v in (op[4] if len(op) > 4 else {}).values():
                out.append(("args", lit(v)))
        elif k == "if":
            out.append(("rhs", lit(op[1])))
        elif k == "yield":
            out.append(("yield", lit(op[1]) | lit(op[2])))
        elif k == "fresh":
            out.append(("rhs", lit(op[2])))
        elif k == "implicit":
            out.append(("lhs", set(op[1])))
            ex = set()
            for x in op[3]:
                ex |= lit(x)
            out.append(("exprs", ex - set(op[2])))
            for v in (op[4] if len(op) > 4 else {}).values():
                out.append(("params", lit(v)))
        return out

    def hand_out(name, how):
        if name in used:
            info["collisions"].append({"name": name, "how": how, "user_positions": sorted(used[name])})
        elif name in info["handed"]:
            info["collisions"].append({"name": name, "how": how, "user_positions": ["handed out before"]})
        info["handed"].append(name)

    def emitted(n0, stack):
        for _ in range(len(b.statements) - n0):
            info["guards"].append(list(stack))

    def go(block, stack):
        for op in block:
            k = op[0]
            fr = info["fresh"]
            names_now = user_names_of(op)
            for pos, ns in names_now:
                for n_ in sorted(ns):
                    if n_ in info["handed"]:
                        # the user program spells out a name the builder already handed out: not a valid user program
                        raise OutOfDomain("user program uses builder-owned name %r" % n_)
            n0 = len(b.statements)
            if k == "assign":
                loops = [(l[0], dec(l[1], fr), dec(l[2], fr)) for l in (op[3] if len(op) > 3 else [])]
                b.assign(dec(op[1], fr), dec(op[2], fr), loops=loops)
            elif k == "call":
                asg = tuple(dec(a, fr) for a in op[1])
                kw = op[4] if len(op) > 4 else {}
                b.assign(asg, dec(["call", op[2], op[3], kw], fr))
            elif k == "yield":
                b.yield_state(dec(op[1], fr), "comp", dec(op[2], fr), "tid")
            elif k == "fail":
                b.fail_step()
            elif k == "raise":
                b.raise_(UserError, "msg")
            elif k == "switch":
                b.switch_phase(op[1])
            elif k == "restart":
                b.restart_step()
            elif k == "implicit":
                b.assign_implicit(tuple(op[1]), tuple(op[2]), tuple(dec(x, fr) for x in op[3]),
                                  {k_: dec(v, fr) for k_, v in sorted((op[4] if len(op) > 4 else {}).items())},
                                  "solver")
            elif k == "abandon":
                # `with builder:` entered again; its body makes the calls op[1] and then fails; the caller catches the
                # exception and goes on building.  Every statement written before the failure stays written.
                class _Abandoned(Exception):
                    pass
                n_before = len(b.statements)
                try:
                    with b:
                        go(op[1], stack)
                        n_inside = len(b.statements)
                        raise _Abandoned()
                except _Abandoned:
                    pass
                if len(b.statements) != n_inside:
                    info.setdefault("lost", []).append("%d statement(s) written inside a `with builder:` block whose body "
                                                       "failed afterwards are no longer in builder.statements"
                                                       % (n_inside - len(b.statements)))
                    del info["guards"][len(b.statements):]
                continue
            elif k == "preview":
                # the phase built so far is asked for (to print or inspect it) while the builder stays in use
                b.as_execution_phase("ph")
                continue
            elif k == "reserve":
                # temporaries allocated up front: the name is handed out now and used only later (as "$k")
                name = b.fresh_var_name(op[1])
                hand_out(name, "fresh_var_name(%r)" % op[1])
                info["fresh"].append(name)
            elif k == "fresh":
                # the builder can only avoid names it has been told about in EARLIER calls
                name = b.fresh_var_name(op[1])
                hand_out(name, "fresh_var_name(%r)" % op[1])
                if any(name in ns for _, ns in names_now):
                    raise OutOfDomain("the expression assigned to the fresh name spells out that name")
                info["fresh"].append(name)
                b.assign(P.Variable(name), dec(op[2], info["fresh"]))
            elif k == "if":
                with b.if_(dec(op[1], fr)):
                    flag_stmt = b.statements[-1]
                    flag = flag_stmt.lhs.name if isinstance(getattr(flag_stmt, "lhs", None), P.Variable) else None
                    if flag is None or len(b.statements) != n0 + 1:
                        raise AssertionError("if_ did not emit one flag assignment")
                    hand_out(flag, "if_")
                    if any(flag in ns for _, ns in names_now):
                        raise OutOfDomain("the condition spells out the flag name (an unset temporary)")
                    for pos, ns in names_now:
                        note(pos, ns)
                    emitted(n0, stack)
                    go(op[2], stack + [(flag, True)])
                if len(op) > 3 and op[3] is not None:
                    with b.else_():
                        go(op[3], stack + [(flag, False)])
                continue
            else:
                raise ValueError("bad op %r" % (op,))
            for pos, ns in names_now:
                note(pos, ns)
            emitted(n0, stack)

    try:
        go(ops, [])
    except (ValueError, TypeError) as ex:
        # the real builder refuses the call sequence (e.g. a bare call assigned to a subscript)
        raise OutOfDomain("builder rejects the program: %s" % ex)
    info["builder"] = b
    info["stmts"] = list(b.statements)
    # what the builder hands over at the end is a phase holding every statement written
    final_ids = sorted(st.id for st in b.as_execution_phase("ph").statements)
    if final_ids != sorted(st.id for st in b.statements):
        missing = sorted(set(st.id for st in b.statements) - set(final_ids))
        info.setdefault("lost", []).append("as_execution_phase returns a phase without the statements %s that were written "
                                           "(the phase had been asked for once before)" % missing)
    info["used"] = used
    return info


# ---- schedules ---------------------------------------------------------------------------

def linear_extensions(n, preds, cap):
    """all linear extensions (lists of indices) if there are at most `cap`, else None"""
    out = []
    order = []
    placed = [False] * n

    def rec():
        if len(out) > cap:
            return
        if len(order) == n:
            out.append(list(order))
            return
        for i in range(n):
            if not placed[i] and all(placed[p] for p in preds[i]):
                placed[i] = True
                order.append(i)
                rec()
                order.pop()
                placed[i] = False
                if len(out) > cap:
                    return
    rec()
    return out if len(out) <= cap else None


def greedy_extension(n, preds, pick):
    placed = [False] * n
    order = []
    while len(order) < n:
        ready = [i for i in range(n) if not placed[i] and all(placed[p] for p in preds[i])]
        if not ready:
            return None                    # cycle
        i = pick(ready)
        placed[i] = True
        order.append(i)
    return order


def canon(v):
    if isinstance(v, np.ndarray):
        return ["arr", [canon(x) for x in v.tolist()]]
    if isinstance(v, np.generic):
        v = v.item()
    if isinstance(v, bool):
        return ["b", v]
    if isinstance(v, (int, float)):
        if v != v:
            return ["nan"]
        return ["n", v]
    if isinstance(v, (tuple, list)):
        return ["t", [canon(x) for x in v]]
    return ["o", repr(v)]


class Runner:
    def __init__(self, stmts, ctx0):
        code = lang.DAGCode.from_phases_list([lang.ExecutionPhase("ph", "ph", list(stmts))], "ph")
        self.interp = NumpyInterpreter(code, functions())
        self.stmts = stmts
        self.ctx0 = ctx0

    def run(self, order):
        it = self.interp
        it.context.clear()
        it.context.update(copy.deepcopy(self.ctx0))
        events = []
        status = "completed"
        for i in order:
            stmt = self.stmts[i]
            try:
                if not it.evaluate_condition(stmt):
                    continue
                res = getattr(it, stmt.exec_method)(stmt)
            except FailStepException:
                status = "failed at %s" % stmt.id
                break
            except TransitionEvent as ev:
                status = "switch to %s at %s" % (ev.next_phase, stmt.id)
                break
            except UserError:
                status = "raise at %s" % stmt.id
                break
            except Exception as ex:
                status = "error %s at %s" % (type(ex).__name__, stmt.id)
                break
            if res is not None:
                ev, _new = res
                if ev is not None:
                    events.append(["yield", ev.time_id, ev.component_id, canon(ev.state_component), canon(ev.t)])
        final = {k: canon(v) for k, v in sorted(it.context.items())}
        return events, status, final


def prog_seed(inp):
    return zlib.crc32(json.dumps(inp, sort_keys=True).encode())


def schedule_check(stmts, preds, ctx0, seed, max_ext, nrandom):
    """-> (verdict, detail, nschedules, all_enumerated)
    verdict: 'ok' | 'differs' | 'prog-order-error' | 'cyclic'"""
    n = len(stmts)
    runner = Runner(stmts, ctx0)
    ref = runner.run(list(range(n)))
    if ref[1].startswith("error"):
        return "prog-order-error", ref[1], 1, False
    orders = linear_extensions(n, preds, max_ext)
    enumerated = orders is not None
    if orders is None:
        rng = random.Random(seed)
        orders = []
        o = greedy_extension(n, preds, max)
        if o is None:
            return "cyclic", "dependency cycle", 1, False
        orders.append(o)
        for _ in range(nrandom):
            orders.append(greedy_extension(n, preds, rng.choice))
    elif not orders:
        return "cyclic", "no linear extension (dependency cycle)", 1, False
    count = 0
    for o in orders:
        if o == list(range(n)):
            continue
        count += 1
        got = runner.run(o)
        if got != ref:
            what = []
            if got[0] != ref[0]:
                what.append("events %s vs %s" % (json.dumps(got[0]), json.dumps(ref[0])))
            if got[1] != ref[1]:
                what.append("termination %r vs %r" % (got[1], ref[1]))
            if got[2] != ref[2]:
                diff = sorted(k for k in set(got[2]) | set(ref[2]) if got[2].get(k) != ref[2].get(k))
                what.append("final values differ for " + ", ".join(
                    "%s: %s vs %s" % (k, json.dumps(got[2].get(k)), json.dumps(ref[2].get(k))) for k in diff[:4]))
            return "differs", "schedule %s (honours every depends_on edge) vs written order: %s" % (
                [stmts[i].id for i in o], "; ".join(what)), count + 1, enumerated
    return "ok", None, count + 1, enumerated


# ---- the oracle --------------------------------------------------------------------------

def analyse(inp, max_ext=150, nrandom=12, extra_edges=None, want_schedule=True):
    """-> dict(violations=[(clause, detail, data)], ...measured facts...)"""
    try:
        info = build(inp["ops"])
    except OutOfDomain:
        raise
    except Exception as ex:
        # an internal exception of the builder (e.g. an assertion) on a call sequence of the property's domain
        return {"n": 0, "violations": [("builder-accepts-the-call-sequence",
                                        "carrying out the builder calls raised %s: %s" % (type(ex).__name__, ex), None)],
                "conflict_pairs": 0, "missing": [], "listing": "(builder raised)", "schedule": "n/a"}
    stmts = info["stmts"]
    n = len(stmts)
    ids = [s.id for s in stmts]
    index = {sid: i for i, sid in enumerate(ids)}
    viol = []
    res = {"n": n, "violations": viol, "conflict_pairs": 0, "missing": [], "listing": listing(stmts)}

    if len(index) != n:
        viol.append(("structural", "duplicate statement ids %s" % ids, None))
        return res
    preds = []
    for i, s in enumerate(stmts):
        ps = set()
        for d in sorted(s.depends_on):
            if d not in index:
                viol.append(("structural", "%s depends on unknown id %s" % (s.id, d), None))
            elif index[d] >= i:
                viol.append(("structural", "%s depends on itself or a later statement %s" % (s.id, d), None))
            else:
                ps.add(index[d])
        preds.append(ps)
    if extra_edges:
        for i, j in extra_edges:
            preds[j].add(i)
    # reach[j] = set of earlier statements reachable from j over depends_on
    reach = []
    for j in range(n):
        r = set()
        for p in preds[j]:
            r.add(p)
            r |= reach[p]
        reach.append(r)

    acc = [access(s) for s in stmts]
    # guard clause
    for i, s in enumerate(stmts):
        lits = guard_literals(getattr(s, "condition", True))
        if lits != [tuple(x) for x in info["guards"][i]]:
            viol.append(("guard", "%s has guard %s, expected the conjunction of %s"
                         % (s.id, getattr(s, "condition", True), info["guards"][i]), None))
    for msg in info.get("lost", []):
        viol.append(("structural", msg, None))
    # fresh-name clause
    for c in info["collisions"]:
        viol.append(("fresh-name", "%s returned %r, already used by the user program in positions %s"
                     % (c["how"], c["name"], c["user_positions"]), c))
    # structural + barrier clauses
    missing = []
    for j in range(n):
        Rj, Wj, Ej = acc[j]
        for i in range(j):
            Ri, Wi, Ei = acc[i]
            why = []
            for v in sorted(Wi & set(Rj)):
                why.append(("RAW", v, sorted(Rj[v])))
            for v in sorted(set(Ri) & Wj):
                why.append(("WAR", v, sorted(Ri[v])))
            for v in sorted(Wi & Wj):
                why.append(("WAW", v, []))
            barrier = []
            if Ei and Ej:
                barrier.append("both externally visible")
            elif Ej and any(is_persistent(v) for v in Wi):
                barrier.append("earlier update of persistent state before an externally visible statement")
            elif Ei and any(is_persistent(v) for v in Wj):
                barrier.append("later update of persistent state after an externally visible statement")
            if why:
                res["conflict_pairs"] += 1
            if (why or barrier) and i not in reach[j]:
                # would the pair still need ordering if reads in lhs subscripts / loop bounds were ignored?
                strong = [w for w in why if w[0] == "WAW" or not set(w[2]) <= HIDDEN_POSITIONS]
                d8_only = bool(why) and not strong and not barrier
                missing.append({"earlier": i, "later": j, "why": why, "barrier": barrier, "d8_only": d8_only})
    res["missing"] = missing
    for m in missing:
        clause = "structural" if m["why"] else "barrier"
        viol.append((clause, "no dependency path from %s back to %s although %s" % (
            ids[m["later"]], ids[m["earlier"]],
            "; ".join(["%s on %s%s" % (k, v, (" (read in %s)" % "/".join(p)) if p else "") for k, v, p in m["why"]]
                      + m["barrier"])), m))
    # schedule clause
    res["schedule"] = None
    if want_schedule:
        ctx0 = mk_ctx(inp.get("ctx") or DEFAULT_CTX)
        verdict, detail, nsched, enumerated = schedule_check(stmts, preds, ctx0, prog_seed(inp), max_ext, nrandom)
        res["schedule"] = verdict
        res["nschedules"] = nsched
        res["enumerated"] = enumerated
        if verdict in ("differs", "cyclic"):
            viol.append(("schedule", detail, None))
    return res


def listing(stmts):
    return " | ".join("{%s} %s  <- after %s" % (s.id, str(s).replace("\n", " "), sorted(s.depends_on)) for s in stmts)


# replay and the fingerprint explore a superset of the schedules of either tier (same seed, larger caps)
REPLAY_MAX_EXT, REPLAY_NRANDOM = 600, 40


def replay(inp):
    try:
        res = analyse(inp, max_ext=REPLAY_MAX_EXT, nrandom=REPLAY_NRANDOM)
    except OutOfDomain as ex:
        return {"fails": False, "detail": "outside the domain: %s" % ex}
    except Exception as ex:
        return {"error": "cannot build/evaluate input: %s: %s" % (type(ex).__name__, ex)}
    v = res["violations"]
    return {"fails": bool(v),
            "detail": ("; ".join("[%s] %s" % (c, d) for c, d, _ in v[:6]) + "  PROGRAM: " + res["listing"]) if v else None}


# ---- fingerprints of known findings ------------------------------------------------

def fp_d8(inp):
    """D8 and nothing else: every missing ordering is between two statements whose only conflict is a
    read sitting in a left-hand-side subscript or a loop bound; every name collision is with a user name
    that so far occurred only in such positions; no guard/barrier violation; and once exactly those
    missing edges are added, all explored schedules agree with the written order."""
    try:
        res = analyse(inp, want_schedule=False)
    except Exception:
        return False
    viol = res["violations"]
    if not viol:
        return False        # a schedule difference without any missing ordering is something else
    extra = []
    for clause, _, data in viol:
        if clause == "structural" and data and data.get("d8_only"):
            extra.append((data["earlier"], data["later"]))
        elif clause == "fresh-name" and data and set(data["user_positions"]) <= HIDDEN_POSITIONS:
            pass
        else:
            return False
    try:
        res2 = analyse(inp, max_ext=REPLAY_MAX_EXT, nrandom=REPLAY_NRANDOM, extra_edges=extra)
    except Exception:
        return False
    return res2["schedule"] in ("ok", "prog-order-error")


FINGERPRINTS = {"d8_lhs_subscript_or_loop_bound_only": fp_d8}


# ---- input generation --------------------------------------------------------------

T_SCAL = ["x", "j", "n", "temp"]
P_SCAL = ["<state>y", "<p>k"]
FRESH_PREFIXES = ["temp", "temp", "<cond>", "x", "j"]


def owned(name, prefixes):
    for p in prefixes:
        if name == p or re.fullmatch(re.escape(p) + r"_\d+", name):
            return True
    return False


class Gen:
    def __init__(self, rng, alias=False):
        self.rng = rng
        self.alias = alias         # also emit plain array copies `a <- <state>v` (numpy aliasing, off by default)
        self.prefixes = set()      # prefixes given to if_/fresh_var_name so far: such names are off limits
        self.nfresh = 0

    def scal_pool(self, defd):
        pool = [v for v in P_SCAL + sorted(defd) if v.startswith("$") or not owned(v, self.prefixes)]
        return pool

    def atom(self, defd, idents=()):
        r = self.rng.random()
        if idents and r < 0.35:
            return self.rng.choice(list(idents))
        if r < 0.2:
            return self.rng.choice([2, 3, 4, 5])
        return self.rng.choice(self.scal_pool(defd))

    def sexpr(self, defd, arrs, depth=2, idents=()):
        r = self.rng.random()
        if depth <= 0 or r < 0.35:
            return self.atom(defd, idents)
        k = self.rng.choice(["+", "+", "*", "-", "[]", "[]", "min", "call", "if"])
        if k in ("+", "*", "-"):
            return [k, self.sexpr(defd, arrs, depth - 1, idents), self.sexpr(defd, arrs, depth - 1, idents)]
        if k == "[]":
            return ["[]", self.rng.choice(sorted(arrs)), self.index(defd, idents)]
        if k == "min":
            return [self.rng.choice(["min", "max"]), self.sexpr(defd, arrs, depth - 1, idents),
                    self.sexpr(defd, arrs, depth - 1, idents)]
        if k == "call":
            if self.rng.random() < 0.5:
                return ["call", "<func>f", [self.sexpr(defd, arrs, depth - 1, idents)]]
            return ["call", "<func>f", [], {"x": self.sexpr(defd, arrs, depth - 1, idents)}]
        return ["if", self.cond(defd, arrs), self.sexpr(defd, arrs, depth - 1, idents),
                self.sexpr(defd, arrs, depth - 1, idents)]

    def index(self, defd, idents=()):
        r = self.rng.random()
        if idents and r < 0.5:
            return self.rng.choice(list(idents))
        if r < 0.15:
            return self.rng.choice([0, 1, 2, 3])
        return ["%", self.atom(defd), 4]

    def cond(self, defd, arrs):
        r = self.rng.random()
        c = ["cmp", self.rng.choice(["<", ">", "<=", "==", "!="]), self.sexpr(defd, arrs, 1), self.sexpr(defd, arrs, 1)]
        if r < 0.15:
            return ["not", c]
        if r < 0.3:
            return [self.rng.choice(["and", "or"]), c,
                    ["cmp", self.rng.choice(["<", ">"]), self.atom(defd), self.atom(defd)]]
        return c

    def target(self):
        pool = [v for v in T_SCAL + P_SCAL + (["<cond>"] if self.rng.random() < 0.3 else [])
                if not owned(v, self.prefixes)]
        return self.rng.choice(pool)

    def block(self, nops, depth, defd, arrs, top):
        rng = self.rng
        defd, arrs = set(defd), set(arrs)
        ops = []
        for _ in range(nops):
            r = rng.random()
            if r < 0.27:
                t = self.target()
                ops.append(["assign", t, self.sexpr(defd, arrs)])
                defd.add(t)
            elif r < 0.42:
                rhs = self.sexpr(defd, arrs)
                if isinstance(rhs, list) and rhs[0] == "call":
                    rhs = ["+", rhs, 2]          # a bare call cannot be assigned to a subscript
                ops.append(["assign", ["[]", rng.choice(sorted(arrs)), self.index(defd)], rhs])
            elif r < 0.58:
                nl = rng.choice([1, 1, 2])
                idents = ["i", "l"][:nl]
                loops = []
                for ident in idents:
                    hi = rng.choice([2, 3, ["+", 1, ["%", self.atom(defd), 3]], ["+", 1, ["%", self.atom(defd), 3]]])
                    loops.append([ident, rng.choice([0, 0, 1]) if not isinstance(hi, list) else 0, hi])
                if rng.random() < 0.6:
                    lhs = ["[]", rng.choice(sorted(arrs)), self.index(defd, idents)]
                    rhs = self.sexpr(defd, arrs, 2, idents)
                else:
                    t = self.target()
                    lhs = t
                    rhs = ["+", t if t in defd or t in P_SCAL else 2, self.sexpr(defd, arrs, 1, idents)]
                    defd.add(t)
                ops.append(["assign", lhs, rhs, loops])
            elif r < 0.66:
                f = rng.choice(["<func>f", "<func>g", "<func>mk", "<func>mk"])
                if f == "<func>mk" and self.alias and rng.random() < 0.5:
                    ops.append(["assign", "a", "<state>v"])
                    arrs.add("a")
                elif f == "<func>mk":
                    a = rng.choice(["a", "a", "<state>v"])
                    ops.append(["call", [a], f, [self.sexpr(defd, arrs, 1)], {}])
                    arrs.add(a)
                elif f == "<func>g":
                    t1, t2 = self.target(), self.target()
                    if t1 == t2:
                        continue
                    ops.append(["call", [t1, t2], f, [self.sexpr(defd, arrs, 1)], {"y": self.atom(defd)}])
                    defd |= {t1, t2}
                else:
                    t = self.target()
                    ops.append(["call", [t], f, [], {"x": self.sexpr(defd, arrs, 1)}])
                    defd.add(t)
            elif r < 0.78 and depth > 0:
                c = self.cond(defd, arrs)
                self.prefixes.add("<cond>")
                body = self.block(rng.randint(1, 3), depth - 1, defd, arrs, False)
                els = self.block(rng.randint(1, 2), depth - 1, defd, arrs, False) if rng.random() < 0.5 else None
                ops.append(["if", c, body, els])
            elif r < 0.87:
                ops.append(["yield", self.sexpr(defd, arrs, 1) if rng.random() < 0.7 else rng.choice(sorted(arrs)),
                            rng.choice(["<t>", ["+", "<t>", "<dt>"], 0])])
            elif r < 0.91:
                k = rng.choice(["fail", "raise", "switch", "restart"])
                if top and rng.random() < 0.7:
                    self.prefixes.add("<cond>")
                    ops.append(["if", self.cond(defd, arrs), [[k] if k != "switch" else ["switch", "other"]], None])
                else:
                    ops.append([k] if k != "switch" else ["switch", "other"])
            elif r < 0.97:
                p = rng.choice(FRESH_PREFIXES)
                self.prefixes.add(p)
                ops.append(["fresh", p, self.sexpr(defd, arrs, 1)])
                defd.add("$%d" % self.nfresh)
                self.nfresh += 1
            elif r < 0.98:
                ops.append(["implicit", ["x"], ["s"], [["-", "s", ["*", "<dt>", self.sexpr(defd, arrs, 1)]]],
                            {"guess": self.atom(defd)}])
            else:
                ops.append(["assign", "<t>", ["+", "<t>", "<dt>"]])
        return ops


def random_program(rng, maxops, alias=False):
    g = Gen(rng, alias)
    return {"ops": g.block(rng.randint(2, maxops), 2, set(), {"<state>v"}, True)}


def small_pool():
    """atomic ops for the exhaustive part (temporaries x, j, n are pre-set through ctx)"""
    return [
        ["assign", "x", ["+", "j", 2]],
        ["assign", "j", ["+", "x", "n"]],
        ["assign", "n", 2],
        ["assign", "j", 3],
        ["assign", "<state>y", ["*", "x", "<state>y"]],
        ["assign", ["[]", "<state>v", ["%", "j", 4]], "x"],
        ["assign", ["[]", "<state>v", 1], ["[]", "<state>v", ["%", "n", 4]]],
        ["assign", "x", ["[]", "<state>v", ["%", "j", 4]]],
        ["assign", ["[]", "<state>v", "i"], ["+", "i", "x"], [["i", 0, ["+", 1, ["%", "n", 3]]]]],
        ["assign", "x", ["+", "x", "i"], [["i", 0, ["+", 1, ["%", "j", 3]]]]],
        ["call", ["x", "n"], "<func>g", ["j"], {}],
        ["call", ["<state>v"], "<func>mk", ["x"], {}],
        ["yield", ["+", "x", "<state>y"], "<t>"],
        ["yield", ["[]", "<state>v", 1], 0],
        ["if", ["cmp", ">", "x", "j"], [["assign", "x", "n"]], [["assign", "j", ["+", "j", 2]]]],
        ["if", ["cmp", ">", "n", 2], [["fail"]], None],
        ["if", ["cmp", "<", "j", "x"], [["assign", ["[]", "<state>v", ["%", "x", 4]], 9], ["restart"]], None],
        ["fresh", "x", ["+", "j", 2]],
        ["fresh", "n", ["+", "j", 2]],
    ]


SMALL_CTX = dict(DEFAULT_CTX, x=5, j=1, n=3)
SUBPOOL = [1, 2, 3, 5, 7, 8, 12, 14, 16, 18]     # the ops used for the longest exhaustive sequences


def bounded(payload):
    budget = payload.get("budget", {}) or {}
    seed = payload.get("seed", 0)
    tier = payload.get("tier", "quick")
    rng = random.Random(seed)
    quick = tier == "quick"
    nprog = budget.get("programs", 1500 if quick else 20000)
    maxops = budget.get("max_ops", 7)
    exh_len = budget.get("exhaustive_len", 2 if quick else 3)
    max_ext = budget.get("max_extensions", 150 if quick else 600)
    nrandom = budget.get("random_schedules", 12 if quick else 40)
    known_fps = {e.get("fingerprint") for e in payload.get("known", []) if e.get("fingerprint") in FINGERPRINTS}

    evals = 0
    distinct = set()
    new_fail, fp_fail = [], []
    samples = []
    parts = {"exhaustive_programs": 0, "random_programs": 0, "out_of_domain": 0, "statements": 0,
             "conflicting_pairs_checked": 0, "schedules_executed": 0, "schedule_clause_evaluated": 0,
             "schedule_clause_skipped_written_order_raises": 0, "all_extensions_enumerated": 0,
             "failing_programs": 0, "failing_by_clause": {}, "failing_matching_fingerprint": {},
             "suppressed_by_known": 0, "missing_orderings": 0, "missing_orderings_d8_only": 0}

    def run(inp, src):
        nonlocal evals
        try:
            res = analyse(inp, max_ext=max_ext, nrandom=nrandom)
        except OutOfDomain:
            parts["out_of_domain"] += 1
            return
        evals += 1
        parts[src] += 1
        parts["statements"] += res["n"]
        parts["conflicting_pairs_checked"] += res["conflict_pairs"]
        parts["schedules_executed"] += res.get("nschedules", 0)
        if res["schedule"] == "prog-order-error":
            parts["schedule_clause_skipped_written_order_raises"] += 1
        elif res["schedule"] in ("ok", "differs"):
            parts["schedule_clause_evaluated"] += 1
            if res.get("enumerated") and res["schedule"] == "ok":
                parts["all_extensions_enumerated"] += 1
        parts["missing_orderings"] += len(res["missing"])
        parts["missing_orderings_d8_only"] += sum(1 for m in res["missing"] if m["d8_only"])
        if res["n"] >= 2 and res["conflict_pairs"] >= 1:
            distinct.add(json.dumps(inp, sort_keys=True))
            if len(samples) < 3 and src == "random_programs" and parts[src] % 50 == 7:
                samples.append({"input": inp, "emitted": res["listing"], "schedule_clause": res["schedule"]})
        viol = res["violations"]
        if viol:
            parts["failing_programs"] += 1
            clauses = sorted({c for c, _, _ in viol})
            for c in clauses:
                parts["failing_by_clause"][c] = parts["failing_by_clause"].get(c, 0) + 1
            fp = next((nm for nm in sorted(FINGERPRINTS) if FINGERPRINTS[nm](inp)), None)
            rec = {"oracle": "+".join(clauses), "input": inp,
                   "detail": "; ".join("[%s] %s" % (c, d) for c, d, _ in viol[:4]) + "  PROGRAM: " + res["listing"],
                   "fingerprint": fp}
            if fp:
                parts["failing_matching_fingerprint"][fp] = parts["failing_matching_fingerprint"].get(fp, 0) + 1
                if fp in known_fps:
                    parts["suppressed_by_known"] += 1
                else:
                    fp_fail.append(rec)
            else:
                new_fail.append(rec)

    # temporaries allocated up front with prefixes that are themselves generated-looking (P, P, P_0, ...): the names
    # handed out must be pairwise different whatever was used in a statement so far
    for prefixes in (["rhs", "rhs", "rhs_0", "rhs"], ["temp", "temp", "temp_0"], ["<cond>", "<cond>", "<cond>_0"],
                     ["k", "k_0", "k", "k"]):
        ops = [["reserve", p_] for p_ in prefixes]
        ops += [["assign", "$%d" % i, ["+", "x", i + 1]] for i in range(len(prefixes))]
        ops.append(["assign", "<state>y", ["+", "$0", "$%d" % (len(prefixes) - 1)]])
        run({"ops": ops, "ctx": SMALL_CTX}, "exhaustive_programs")
        parts["reserved_up_front_programs"] = parts.get("reserved_up_front_programs", 0) + 1

    # an if_ whose condition is a bare variable that the block itself overwrites (the decision is the value on entry)
    for go0 in (1, 0):
        for els in (None, [["assign", "n", ["+", "n", 100]]]):
            ops = [["assign", "go", go0], ["if", "go", [["assign", "go", 0], ["assign", "n", ["+", "n", 1]]], els],
                   ["assign", "<state>y", ["+", "n", "go"]]]
            run({"ops": ops, "ctx": SMALL_CTX}, "exhaustive_programs")
            parts["bare_variable_condition_programs"] = parts.get("bare_variable_condition_programs", 0) + 1

    # attribute lookups (z.real, z.imag) on a variable that is written before and after the read
    for pos in ("rhs", "sub", "guard", "bound", "arg"):
        lk = [".", "z", "real"]
        read = {"rhs": ["assign", "re", lk], "sub": ["assign", ["[]", "a", ["%", lk, 2]], 1],
                "guard": ["if", ["cmp", ">", lk, 0], [["assign", "re", 1]], None],
                "bound": ["assign", ["[]", "a", "i"], 1, [["i", 0, ["%", lk, 3]]]],
                "arg": ["call", ["re"], "<func>f", [lk], {}]}[pos]
        ops = [["assign", "z", ["+", "x", 1]], read, ["assign", "z", ["*", "x", 3]], ["assign", "<state>y", ["+", "z", "x"]]]
        run({"ops": ops, "ctx": SMALL_CTX}, "exhaustive_programs")
        parts["attribute_lookup_programs"] = parts.get("attribute_lookup_programs", 0) + 1

    # a `with builder:` block that fails part-way (the caller catches the exception and keeps building)
    for inner in ([["assign", "<state>y", 1], ["assign", "w", 7]], [["assign", "x", ["+", "x", 1]]],
                  [["assign", "<state>y", ["+", "<state>y", 1]], ["yield", "<state>y", "<t>"]], []):
        for tail in ([["assign", "w2", 7], ["assign", "z", ["*", "<state>y", 2]]],
                     [["assign", "<state>y", ["+", "x", 2]], ["assign", "z", ["+", "<state>y", "x"]]],
                     [["if", ["cmp", ">", "x", 0], [["assign", "z", "<state>y"]], [["assign", "z", 0]]]]):
            ops = [["assign", "u", ["+", "x", 1]], ["abandon", copy.deepcopy(inner)]] + copy.deepcopy(tail)
            run({"ops": ops, "ctx": SMALL_CTX}, "exhaustive_programs")
            parts["abandoned_with_block_programs"] = parts.get("abandoned_with_block_programs", 0) + 1

    # the phase is asked for part-way (a preview), building goes on, and it is asked for again at the end
    for head in ([["assign", "<state>y", ["+", "<state>y", 1]], ["yield", "<state>y", "<t>"]], [["assign", "u", ["+", "x", 1]]], []):
        for tail in ([["assign", "<state>y", ["*", "<state>y", 10]], ["yield", "<state>y", "<t>"]],
                     [["assign", "z", ["+", "<state>y", "x"]]],
                     [["if", ["cmp", ">", "x", 0], [["assign", "z", "<state>y"]], [["assign", "z", 0]]]]):
            ops = copy.deepcopy(head) + [["preview"]] + copy.deepcopy(tail)
            run({"ops": ops, "ctx": SMALL_CTX}, "exhaustive_programs")
            parts["previewed_phase_programs"] = parts.get("previewed_phase_programs", 0) + 1

    pool = small_pool()
    sub = [pool[k] for k in SUBPOOL]
    for ln in range(1, exh_len + 1):
        for combo in itertools.product(pool, repeat=ln):
            run({"ops": [copy.deepcopy(o) for o in combo], "ctx": SMALL_CTX}, "exhaustive_programs")
    for combo in itertools.product(sub, repeat=exh_len + 1):
        run({"ops": [copy.deepcopy(o) for o in combo], "ctx": SMALL_CTX}, "exhaustive_programs")
    for _ in range(nprog):
        run(random_program(rng, maxops, bool(budget.get("aliasing", False))), "random_programs")

    known_hits = []
    for e in payload.get("known", []):
        try:
            r = replay(e["native"])
        except Exception:
            r = {}
        if r.get("fails"):
            known_hits.append("%s: %s" % (e["id"], e["what"]))
    new_fail.sort(key=lambda f: len(json.dumps(f["input"])))
    fp_fail.sort(key=lambda f: len(json.dumps(f["input"])))
    parts["failing_programs_not_matching_any_fingerprint"] = len(new_fail)
    parts["failing_programs_matching_a_fingerprint_not_in_known"] = len(fp_fail)
    return {"evaluations": evals, "distinct_nontrivial": len(distinct),
            "rule": "exhaustive: every sequence of <= %d builder calls from a pool of %d atomic ops (scalar / "
                    "subscripted / looped assignments with variable bounds, multi-result call, yields, if/else, "
                    "guarded fail and restart, fresh names) and every sequence of %d calls from a sub-pool of %d, "
                    "temporaries preset; then %d seeded random programs "
                    "(2..%d top-level calls, if/else nesting <= 2, temporaries defined before use, user names never "
                    "reuse a name the builder already handed out).  Each is built by the real CodeBuilder; access sets "
                    "come from an independent walk over the emitted statements; all linear extensions of depends_on "
                    "are executed through the real NumpyInterpreter exec_* when there are <= %d, otherwise the "
                    "anti-program-order one plus %d seeded random ones (seed = crc32 of the input).  non-trivial = >= 2 "
                    "emitted statements and >= 1 conflicting pair; distinct = distinct program JSON"
                    % (exh_len, len(pool), exh_len + 1, len(sub), nprog, maxops, max_ext, nrandom),
            "bound": "<= %d top-level builder calls (blocks of <= 3 inside if/else, depth <= 2), expression depth <= 2, "
                     "<= 2 loops per assignment with 1..3 trips, names {x, j, n, temp, <cond>, a, <state>y, <p>k, "
                     "<state>v, <t>, <dt>} + loop counters i, l; arrays of length 4" % maxops,
            "samples": samples, "failures": (new_fail + fp_fail)[:20], "known_hits": known_hits, "parts": parts,
            "exhaustive": False}
