"""C02 — recorded dependencies make every admissible schedule equal to program order.

Functions under contract (read from /repo/dagrt/language.py on every run):
  CodeBuilder._add_statement, CodeBuilder.next_statement_id, CodeBuilder.fresh_var_name,
  CodeBuilder.if_, CodeBuilder.else_
plus the spec-level lemmas C02-inv / barrier over the transition those contracts establish.
"""
import z3
from z3 import And, Or, Not, Implies, ForAll, Exists, Select, Store, If, IntSort, BoolSort

from pyvc.values import *  # noqa
from pyvc.contracts import FunctionContract, FunctionUnit, LemmaUnit, LeanUnit, call_by_contract
from .dagspec import VarName, VARNAME, Id, ID
from .c08 import Expr, EXPR, vars_, NameSet, NAMESET, union, subset, empty, single, e_name

PROP = "C02"
REL = "dagrt/language.py"

BStmt = z3.DeclareSort("BStmt")                 # the statement object handed to _add_statement
IdSet = z3.ArraySort(Id, BoolSort())
IDSET = TSet(ID)

RDS = z3.Function("declared_reads", BStmt, NameSet)       # stmt.get_read_variables()   (C08)
WRS = z3.Function("declared_writes", BStmt, NameSet)      # stmt.get_written_variables()
is_assignment = z3.Function("is_assignment", BStmt, BoolSort())   # Assign / AssignImplicit / AssignFunctionCall
is_state_var = z3.Function("is_state_variable", VarName, BoolSort())
IDX = z3.Function("stmt_id_of_index", IntSort(), Id)     # "%s_%d" % (name, k)
EXECV = z3.Const("EXEC", VarName)                          # "<exec>"
AND = z3.Function("LogicalAnd", z3.ArraySort(IntSort(), Expr), IntSort(), Expr)
CTRUE = z3.Const("cond_True", Expr)

WMAP = TDict(VARNAME, ID)
RMAP = TDict(VARNAME, IDSET)
STACK = TList(EXPR)


def base_axioms():
    i, j = z3.Ints("i j")
    a = z3.Const("a", z3.ArraySort(IntSort(), Expr))
    n = z3.Int("n")
    v = z3.Const("v", VarName)
    return [
        # A-FMT: "%s_%d" formatting of distinct integers gives distinct ids
        ForAll([i, j], Implies(IDX(i) == IDX(j), i == j)),
        vars_(CTRUE) == empty(),
        # A-DEP on LogicalAnd(children): the union of the children's variables
        ForAll([a, n, v], Select(vars_(AND(a, n)), v) ==
               Exists([i], And(0 <= i, i < n, Select(vars_(Select(a, i)), v)))),
    ]


def m_get_variables(ctx, it, args, kw):
    e = ctx.deref(args[0])
    return VSet(NAMESET, vars_(_cond_term(e)))


def m_set(ctx, it, args, kw):
    if not args:
        return ctx.alloc(empty_set(IDSET))
    v = ctx.deref(args[0])
    if isinstance(v, VSet):
        return ctx.alloc(VSet(v.ty, v.t))
    raise Unsupported("set(%r)" % (v,))


def m_frozenset(ctx, it, args, kw):
    v = ctx.deref(args[0])
    return VSet(v.ty, v.t)


def m_tuple(ctx, it, args, kw):
    return args[0]


def m_LogicalAnd(ctx, it, args, kw):
    l = ctx.deref(args[0])
    return EXPR.wrap(AND(l.a, l.n))


BSTMT = TElem("BStmt", BStmt, classes={
    "Assign": is_assignment, "AssignImplicit": is_assignment, "AssignFunctionCall": is_assignment})


class AddStatement(FunctionContract):
    prop = PROP
    relpath = REL
    qualname = "CodeBuilder._add_statement"
    prune_quantified = False

    axioms = property(lambda self: tuple(base_axioms()))

    def __init__(self):
        self.stmt = z3.Const("stmt", BStmt)
        self.n0 = z3.Int("n_statements")

    def params(self, ctx):
        W = WMAP.fresh("writer_map")
        R = RMAP.fresh("reader_map")
        stack = STACK.fresh("cond_stack")
        ctx.assume(stack.n >= 0)
        obj = VObj(TObj("CodeBuilder", {}), {
            "_writer_map": ctx.alloc(W), "_reader_map": ctx.alloc(R),
            "_seen_var_names": ctx.alloc(NAMESET.fresh("seen")),
            "_conditional_expression_stack": ctx.alloc(stack),
            "statements": ctx.alloc(VCount(self.n0)),
            "_EXECUTION_STATE": VARNAME.wrap(EXECV),
            "name": VPy("<name>"),
        })
        ctx.env["self"] = ctx.alloc(obj)
        ctx.env["stmt"] = BSTMT.wrap(self.stmt)

    def ghosts(self, ctx):
        ctx.ghost["new_id"] = z3.Const("new_id0", Id)
        ctx.ghost["new_cond"] = z3.Const("new_cond0", Expr)
        ctx.ghost["new_deps"] = z3.Const("new_deps0", IdSet)

    def requires(self, st):
        v = z3.Const("v", VarName)
        x = z3.Const("x", Id)
        k = z3.Int("k")
        W, R = st.field("self", "_writer_map"), st.field("self", "_reader_map")
        seen0 = st.field("self", "_seen_var_names").t
        return [
            ("n>=0", self.n0 >= 0),
            ("def-seen-state", ForAll([v], Select(z3.Const("seen_state0", NameSet), v) ==
                                      And(Select(seen0, v), is_state_var(v)))),
            # representation invariant of the builder: the maps mention ids of earlier statements only
            ("writer-ids-are-earlier", ForAll([v], Implies(Select(W.dom, v), Exists([k], And(0 <= k, k < self.n0, Select(W.val, v) == IDX(k)))))),
            ("reader-ids-are-earlier", ForAll([v, x], Implies(And(Select(R.dom, v), Select(Select(R.val, v), x)),
                                                             Exists([k], And(0 <= k, k < self.n0, x == IDX(k)))))),
        ]

    # ---- callee models ---------------------------------------------------------------
    def m_next_id(self, ctx, it, args, kw):
        return ID.wrap(IDX(self.n0))

    def m_reads(self, ctx, it, args, kw):
        return VSet(NAMESET, RDS(self.stmt))

    def m_writes(self, ctx, it, args, kw):
        return VSet(NAMESET, WRS(self.stmt))

    def m_is_state(self, ctx, it, args, kw):
        return VBool(is_state_var(ctx.deref(args[0]).t))

    def m_copy(self, ctx, it, args, kw):
        ctx.ghost["new_id"] = ctx.deref(kw["id"]).t
        ctx.ghost["new_cond"] = _cond_term(ctx.deref(kw["condition"]))
        ctx.ghost["new_deps"] = ctx.deref(kw["depends_on"]).t
        return BSTMT.wrap(z3.Const(fresh_name("copied"), BStmt))

    calls = property(lambda self: {
        "self.next_statement_id": self.m_next_id,
        "stmt.get_read_variables": self.m_reads,
        "stmt.get_written_variables": self.m_writes,
        "stmt.copy": self.m_copy,
    })
    names = property(lambda self: {
        "set": VFunc("set", m_set), "frozenset": VFunc("frozenset", m_frozenset), "tuple": VFunc("tuple", m_tuple),
        "get_variables": VFunc("get_variables", m_get_variables),
        "is_state_variable": VFunc("is_state_variable", self.m_is_state),
        "LogicalAnd": VFunc("LogicalAnd", m_LogicalAnd),
    })

    def equal_hook(self, ctx, it, a, b, identity):
        return None

    # ---- the augmented access sets, as the code builds them ------------------------------
    def guard_vars(self, st0):
        stack = st0.field("self", "_conditional_expression_stack")
        return If(stack.n == 0, empty(),
                  If(stack.n == 1, vars_(Select(stack.a, 0)), vars_(AND(stack.a, stack.n))))

    def RD(self, st0):
        s = self.stmt
        seen0 = st0.field("self", "_seen_var_names").t
        v = z3.Const("v", VarName)
        base = union(RDS(s), single(EXECV), self.guard_vars(st0))
        seen_state = z3.Const("seen_state0", NameSet)    # defined in `requires`
        return If(is_assignment(s), base, union(base, seen_state))

    def WR(self, st0):
        s = self.stmt
        return If(is_assignment(s), WRS(s), union(WRS(s), single(EXECV)))

    # ---- loop invariants (Appendix B5) ------------------------------------------------------
    def common(self, s):
        """facts that every loop preserves: the access sets and the new id are fixed"""
        return [("read_variables-fixed", s.read_variables.t == self.RD(s.old)),
                ("written_variables-fixed", s.written_variables.t == self.WR(s.old)),
                ("stmt_id-fixed", s.stmt_id.t == IDX(self.n0)),
                ("seen-unchanged", s.field("self", "_seen_var_names").t == s.old.field("self", "_seen_var_names").t)]

    def deps_are_earlier(self, s):
        x = z3.Const("x", Id)
        k = z3.Int("k")
        return ("recorded-dependencies-name-earlier-statements",
                ForAll([x], Implies(Select(s.depends_on.t, x), Exists([k], And(0 <= k, k < self.n0, x == IDX(k))))))

    def inv0(self, s):
        v = z3.Const("v", VarName)
        W0 = s.old.field("self", "_writer_map")
        proc = s.loop(0)["$proc"].t
        return self.common(s) + [
            ("maps-unchanged", And(_same_dict(s.field("self", "_writer_map"), W0),
                                   _same_dict(s.field("self", "_reader_map"), s.old.field("self", "_reader_map")))),
            ("iterating-reads|writes", s.loop(0)["$S"].t == union(self.RD(s.old), self.WR(s.old))),
            ("depends-on-last-writer-of-every-processed-variable",
             ForAll([v], Implies(And(Select(proc, v), Select(W0.dom, v)), Select(s.depends_on.t, Select(W0.val, v))))),
            self.deps_are_earlier(s),
        ]

    def after_loop0(self, s):
        v = z3.Const("v", VarName)
        W0 = s.old.field("self", "_writer_map")
        acc = union(self.RD(s.old), self.WR(s.old))
        return ("depends-on-last-writer-of-every-accessed-variable",
                ForAll([v], Implies(And(Select(acc, v), Select(W0.dom, v)), Select(s.depends_on.t, Select(W0.val, v)))))

    def inv1(self, s):
        v = z3.Const("v", VarName)
        x = z3.Const("x", Id)
        R0, R = s.old.field("self", "_reader_map"), s.field("self", "_reader_map")
        proc = s.loop(1)["$proc"].t
        return self.common(s) + [
            ("writer-map-unchanged", _same_dict(s.field("self", "_writer_map"), s.old.field("self", "_writer_map"))),
            ("iterating-writes", s.loop(1)["$S"].t == self.WR(s.old)),
            self.after_loop0(s),
            ("depends-on-readers-of-every-processed-written-variable",
             ForAll([v, x], Implies(And(Select(proc, v), Select(R0.dom, v), Select(Select(R0.val, v), x)),
                                    Select(s.depends_on.t, x)))),
            ("reader-map-domain-unchanged", R.dom == R0.dom),
            # (clearing is an optimisation: the contract only demands that no reader is invented)
            ("no-reader-is-added",
             ForAll([v, x], Implies(Select(Select(R.val, v), x), Select(Select(R0.val, v), x)))),
            ("readers-of-unprocessed-variables-unchanged",
             ForAll([v], Implies(Not(Select(proc, v)), Select(R.val, v) == Select(R0.val, v)))),
            self.deps_are_earlier(s),
        ]

    def after_loop1(self, s):
        v = z3.Const("v", VarName)
        x = z3.Const("x", Id)
        R0, R = s.old.field("self", "_reader_map"), s.field("self", "_reader_map")
        WRs = self.WR(s.old)
        return [
            self.after_loop0(s),
            ("depends-on-readers-of-every-written-variable",
             ForAll([v, x], Implies(And(Select(WRs, v), Select(R0.dom, v), Select(Select(R0.val, v), x)),
                                    Select(s.depends_on.t, x)))),
            self.deps_are_earlier(s),
            ("depends_on-final", s.depends_on.t == s.entry.depends_on.t),
        ]

    def reader_state_after_loop1(self, s, Rnow):
        v = z3.Const("v", VarName)
        x = z3.Const("x", Id)
        R0 = s.old.field("self", "_reader_map")
        WRs = self.WR(s.old)
        return [("reader-map-domain-unchanged", Rnow.dom == R0.dom),
                ("no-reader-is-added",
                 ForAll([v, x], Implies(Select(Select(Rnow.val, v), x), Select(Select(R0.val, v), x)))),
                ("readers-of-unwritten-variables-unchanged",
                 ForAll([v], Implies(Not(Select(WRs, v)), Select(Rnow.val, v) == Select(R0.val, v))))]

    def inv2(self, s):
        v = z3.Const("v", VarName)
        W0, W = s.old.field("self", "_writer_map"), s.field("self", "_writer_map")
        proc = s.loop(2)["$proc"].t
        return self.common(s) + self.after_loop1(s) + [
            ("iterating-writes", s.loop(2)["$S"].t == self.WR(s.old)),
            ("reader-map-unchanged", _same_dict(s.field("self", "_reader_map"), s.entry.field("self", "_reader_map"))),
            ("processed-written-variables-map-to-the-new-statement",
             ForAll([v], Implies(Select(proc, v), And(Select(W.dom, v), Select(W.val, v) == IDX(self.n0))))),
            ("other-writer-entries-unchanged",
             ForAll([v], Implies(Not(Select(proc, v)), And(Select(W.dom, v) == Select(W0.dom, v),
                                                           Implies(Select(W0.dom, v), Select(W.val, v) == Select(W0.val, v)))))),
        ] + self.reader_state_after_loop1(s, s.field("self", "_reader_map"))

    def writer_final(self, s):
        v = z3.Const("v", VarName)
        W0, W = s.old.field("self", "_writer_map"), s.field("self", "_writer_map")
        WRs = self.WR(s.old)
        return [("written-variables-map-to-the-new-statement",
                 ForAll([v], Implies(Select(WRs, v), And(Select(W.dom, v), Select(W.val, v) == IDX(self.n0))))),
                ("other-writer-entries-unchanged",
                 ForAll([v], Implies(Not(Select(WRs, v)), And(Select(W.dom, v) == Select(W0.dom, v),
                                                              Implies(Select(W0.dom, v), Select(W.val, v) == Select(W0.val, v))))))]

    def inv3(self, s):
        v = z3.Const("v", VarName)
        x = z3.Const("x", Id)
        R0, R = s.old.field("self", "_reader_map"), s.field("self", "_reader_map")
        WRs, RDs = self.WR(s.old), self.RD(s.old)
        proc = s.loop(3)["$proc"].t
        n = IDX(self.n0)
        return self.common(s) + self.after_loop1(s) + self.writer_final(s) + [
            ("iterating-reads", s.loop(3)["$S"].t == RDs),
            ("processed-read-only-variables-have-the-new-reader",
             ForAll([v], Implies(And(Select(proc, v), Not(Select(WRs, v))),
                                 And(Select(R.dom, v), Select(Select(R.val, v), n),
                                     ForAll([x], Implies(x != n, Select(Select(R.val, v), x) ==
                                                         And(Select(R0.dom, v), Select(Select(R0.val, v), x)))))))),
            ("written-variables-get-no-new-reader",
             ForAll([v, x], Implies(And(Select(WRs, v), Select(R.dom, v), Select(Select(R.val, v), x)),
                                    And(Select(R0.dom, v), Select(Select(R0.val, v), x))))),
            ("written-variables-domain-unchanged", ForAll([v], Implies(Select(WRs, v), Select(R.dom, v) == Select(R0.dom, v)))),
            ("unprocessed-and-unaccessed-unchanged",
             ForAll([v], Implies(And(Not(Select(WRs, v)), Not(Select(proc, v))),
                                 And(Select(R.dom, v) == Select(R0.dom, v), Select(R.val, v) == Select(R0.val, v))))),
        ]

    loops = property(lambda self: {
        0: dict(shape="for var in read_variables | written_variables", inv=self.inv0),
        1: dict(shape="for var in written_variables", inv=self.inv1, havoc_extra=["self._reader_map"]),
        2: dict(shape="for var in written_variables", inv=self.inv2),
        3: dict(shape="for var in read_variables", inv=self.inv3),
    })

    # ---- postcondition: the transition of the spec-level lemma ---------------------------------
    def ensures(self, st):
        v = z3.Const("v", VarName)
        x = z3.Const("x", Id)
        k, i = z3.Ints("k i")
        o = st.old
        W0, W = o.field("self", "_writer_map"), st.field("self", "_writer_map")
        R0, R = o.field("self", "_reader_map"), st.field("self", "_reader_map")
        RDs, WRs = self.RD(o), self.WR(o)
        acc = union(RDs, WRs)
        deps, n = st.g("new_deps"), IDX(self.n0)
        stack = o.field("self", "_conditional_expression_stack")
        return [
            ("new-statement-gets-the-next-id", st.g("new_id") == n),
            ("one-statement-appended", st.field("self", "statements").t == self.n0 + 1),
            ("depends-on-last-writer-of-every-variable-it-reads-or-writes",
             ForAll([v], Implies(And(Select(acc, v), Select(W0.dom, v)), Select(deps, Select(W0.val, v))))),
            ("depends-on-every-reader-since-the-last-write-of-every-variable-it-writes",
             ForAll([v, x], Implies(And(Select(WRs, v), Select(R0.dom, v), Select(Select(R0.val, v), x)), Select(deps, x)))),
            ("dependencies-name-earlier-statements-only",
             ForAll([x], Implies(Select(deps, x), Exists([k], And(0 <= k, k < self.n0, x == IDX(k)))))),
            ("it-becomes-the-last-writer-of-what-it-writes",
             ForAll([v], Implies(Select(WRs, v), And(Select(W.dom, v), Select(W.val, v) == n)))),
            ("other-last-writers-unchanged",
             ForAll([v], Implies(Not(Select(WRs, v)), And(Select(W.dom, v) == Select(W0.dom, v),
                                                          Implies(Select(W0.dom, v), Select(W.val, v) == Select(W0.val, v)))))),
            ("readers-recorded-for-what-it-writes-were-readers-before",
             ForAll([v, x], Implies(And(Select(WRs, v), Select(R.dom, v), Select(Select(R.val, v), x)),
                                    And(Select(R0.dom, v), Select(Select(R0.val, v), x))))),
            ("it-is-recorded-as-reader-of-what-it-only-reads",
             ForAll([v], Implies(And(Select(RDs, v), Not(Select(WRs, v))),
                                 And(Select(R.dom, v), Select(Select(R.val, v), n))))),
            ("earlier-readers-of-what-it-only-reads-are-kept",
             ForAll([v, x], Implies(And(Select(RDs, v), Not(Select(WRs, v)), Select(R0.dom, v), Select(Select(R0.val, v), x)),
                                    Select(Select(R.val, v), x)))),
            ("readers-of-untouched-variables-unchanged",
             ForAll([v], Implies(Not(Select(acc, v)), And(Select(R.dom, v) == Select(R0.dom, v),
                                                          Select(R.val, v) == Select(R0.val, v))))),
            ("seen-names-updated", st.field("self", "_seen_var_names").t == union(o.field("self", "_seen_var_names").t, acc)),
            ("execution-token-is-read", Select(RDs, EXECV)),
            ("non-assignment-writes-the-execution-token", Implies(Not(is_assignment(self.stmt)), Select(WRs, EXECV))),
            ("non-assignment-reads-every-seen-state-variable",
             Implies(Not(is_assignment(self.stmt)),
                     ForAll([v], Implies(And(Select(o.field("self", "_seen_var_names").t, v), is_state_var(v)), Select(RDs, v))))),
            ("declared-reads-and-guard-variables-are-read",
             And(subset(RDS(self.stmt), RDs), subset(self.guard_vars(o), RDs), subset(WRS(self.stmt), WRs))),
            ("condition-is-the-conjunction-of-the-guard-stack",
             st.g("new_cond") == If(stack.n == 0, CTRUE, If(stack.n == 1, Select(stack.a, 0), AND(stack.a, stack.n)))),
            # representation invariant re-established for the next call
            ("writer-ids-are-existing",
             ForAll([v], Implies(Select(W.dom, v), Exists([k], And(0 <= k, k < self.n0 + 1, Select(W.val, v) == IDX(k)))))),
            ("reader-ids-are-existing",
             ForAll([v, x], Implies(And(Select(R.dom, v), Select(Select(R.val, v), x)),
                                    Exists([k], And(0 <= k, k < self.n0 + 1, x == IDX(k)))))),
        ]


def _same_dict(a, b):
    return And(a.dom == b.dom, a.val == b.val)


def _cond_term(v):
    if isinstance(v, VBool) and z3.is_true(v.t):
        return CTRUE
    return v.t


# ==========================================================================
# fresh names and guards
# ==========================================================================
Prefix = z3.DeclareSort("Prefix")
has_prefix = z3.Function("has_prefix", VarName, Prefix, BoolSort())   # name generated from that prefix


class VNameGen(V):
    """A-GEN: pytools.generate_unique_names(prefix) is an infinite stream of names derived from prefix"""
    ty = None

    def __init__(self, prefix):
        self.prefix = prefix

    def for_loop(self, it, s, k, spec, ex):
        ctx = it.ctx

        def prologue():
            n = z3.Const(fresh_name("candidate"), VarName)
            ctx.assume(has_prefix(n, self.prefix))
            it.assign(s.target, VARNAME.wrap(n))

        it.run_cut_loop(s, k, spec, lambda: True, prologue, lambda: None, lambda: None)


def new_builder(ctx, n0):
    W = WMAP.fresh("writer_map")
    R = RMAP.fresh("reader_map")
    stack = STACK.fresh("cond_stack")
    ctx.assume(stack.n >= 0)
    obj = VObj(TObj("CodeBuilder", {}), {
        "_writer_map": ctx.alloc(W), "_reader_map": ctx.alloc(R),
        "_seen_var_names": ctx.alloc(NAMESET.fresh("seen")),
        "_conditional_expression_stack": ctx.alloc(stack),
        "statements": ctx.alloc(VCount(n0)),
        "_EXECUTION_STATE": VARNAME.wrap(EXECV),
        "_last_if_block_conditional_expression": NONE,
        "name": VPy("<name>"),
    })
    return ctx.alloc(obj)


class FreshVarName(FunctionContract):
    prop = PROP
    relpath = REL
    qualname = "CodeBuilder.fresh_var_name"

    def __init__(self):
        self.prefix = z3.Const("prefix", Prefix)

    def params(self, ctx):
        ctx.env["self"] = new_builder(ctx, z3.Int("n_statements"))
        ctx.env["prefix"] = TElem("Prefix", Prefix).wrap(self.prefix)

    calls = property(lambda self: {"self._var_name_generator": lambda ctx, it, a, k: VNameGen(ctx.deref(a[0]).t)})

    loops = property(lambda self: {0: dict(
        shape="for var_name in self._var_name_generator(prefix)",
        inv=lambda s: [("seen-unchanged", s.field("self", "_seen_var_names").t ==
                        s.old.field("self", "_seen_var_names").t)])})

    def ensures(self, st):
        seen0, seen = st.old.field("self", "_seen_var_names").t, st.field("self", "_seen_var_names").t
        r = st.result.t
        return [("result-was-not-seen-before", Not(Select(seen0, r))),
                ("result-is-now-seen-so-it-is-never-handed-out-again", seen == Store(seen0, r, True)),
                ("result-derives-from-the-prefix", has_prefix(r, self.prefix))]


class NextStatementId(FunctionContract):
    prop = PROP
    relpath = REL
    qualname = "CodeBuilder.next_statement_id"

    def __init__(self):
        self.n0 = z3.Int("n_statements")

    def params(self, ctx):
        ctx.env["self"] = new_builder(ctx, self.n0)

    def binop_hook(self, ctx, it, op, a, b):
        # "%s_%d" % (self.name, len(self.statements)): A-FMT, the id of that index
        import ast as pyast
        if op is pyast.Mod and isinstance(a, VPy) and isinstance(b, VTuple) and len(b.items) == 2:
            k = ctx.deref(b.items[1])
            if isinstance(k, VInt):
                return ID.wrap(IDX(k.t))
        return None

    def ensures(self, st):
        return [("id-of-the-next-index", st.result.t == IDX(self.n0))]


# ---- if_ / else_ ------------------------------------------------------------------------------
Arg = z3.Datatype("CondArg")
StrLit = z3.DeclareSort("StrLit")
Arg.declare("AStr", ("lit", StrLit))
Arg.declare("AExpr", ("expr", Expr))
Arg = Arg.create()
PARSE = z3.Function("parse", StrLit, Expr)
CMP = z3.Function("Comparison", Expr, Arg, Expr, Expr)
VAR = z3.Function("Variable", VarName, Expr)
NOT = z3.Function("LogicalNot", Expr, Expr)
ASSIGN = z3.Function("Assign", VarName, Expr, BStmt)
COND_PREFIX = z3.Const("cond_prefix", Prefix)

ARG = TElem("CondArg", Arg, classes={"str": Arg.is_AStr})


def guard_axioms():
    n = z3.Const("n", VarName)
    e = z3.Const("e", Expr)
    return [ForAll([n], vars_(VAR(n)) == single(n)),
            ForAll([n], e_name(VAR(n)) == n),
            ForAll([e], vars_(NOT(e)) == vars_(e)),
            ForAll([n, e], And(is_assignment(ASSIGN(n, e)), WRS(ASSIGN(n, e)) == single(n),
                               RDS(ASSIGN(n, e)) == vars_(e)))]


class GuardContract(FunctionContract):
    prop = PROP
    relpath = REL
    # if_ / else_ are generator functions behind @contextmanager: the contracts follow the with-protocol (the part before
    # the yield runs on entry, the part after it on exit; on_yield marks the block)
    accepted_decorators = ("contextmanager",)
    axioms = property(lambda self: tuple(base_axioms() + guard_axioms()))

    def m_parse(self, ctx, it, args, kw):
        a = ctx.deref(args[0])
        # A-PARSE: dagrt.expression.parse takes a string
        if not ctx.branch(Arg.is_AStr(a.t), "parse-arg-is-str"):
            ctx.raise_("TypeError")
        return ARG.wrap(Arg.AExpr(PARSE(Arg.lit(a.t))))

    def m_comparison(self, ctx, it, args, kw):
        l, c, r = [ctx.deref(x) for x in args]
        ok = And(Arg.is_AExpr(l.t), Arg.is_AExpr(r.t))
        if not ctx.branch(ok, "comparison-operands-are-expressions"):
            ctx.raise_("TypeError")
        return ARG.wrap(Arg.AExpr(CMP(Arg.expr(l.t), c.t, Arg.expr(r.t))))

    def m_fresh_var(self, ctx, it, args, kw):
        """fresh_var(prefix) = Variable(fresh_var_name(prefix)): enters by FreshVarName's contract"""
        selfo = ctx.deref(ctx.env["self"])
        ref = selfo.fields["_seen_var_names"]
        seen0 = ctx.deref(ref).t
        f = z3.Const(fresh_name("flag"), VarName)
        ctx.assume(Not(Select(seen0, f)))
        ctx.assume(has_prefix(f, COND_PREFIX))
        ctx.store(ref, VSet(NAMESET, Store(seen0, f, True)))
        ctx.ghost["flag"] = f
        return EXPR.wrap(VAR(f))

    def m_assign(self, ctx, it, args, kw):
        name = ctx.deref(kw["assignee"]).t
        e = ctx.deref(kw["expression"])
        ctx.oblige(it.oname("flag-assignment/expression-is-an-expression"), Arg.is_AExpr(e.t))
        return BSTMT.wrap(ASSIGN(name, Arg.expr(e.t)))

    def m_add_statement(self, ctx, it, args, kw):
        """_add_statement by (the relevant part of) its contract"""
        stmt = ctx.deref(args[0]).t
        selfo = ctx.deref(ctx.env["self"])
        ctx.ghost["added"] = stmt
        ctx.ghost["added_under"] = ctx.deref(selfo.fields["_conditional_expression_stack"])
        for fld in ("_writer_map", "_reader_map", "_seen_var_names", "statements"):
            ref = selfo.fields[fld]
            ctx.heap[ref.loc] = it.fresh_like(ctx.heap[ref.loc], "after_add_" + fld)
        return NONE

    calls = property(lambda self: {"self.fresh_var": self.m_fresh_var, "self._add_statement": self.m_add_statement})
    names = property(lambda self: {"parse": VFunc("parse", self.m_parse),
                                   "Comparison": VFunc("Comparison", self.m_comparison),
                                   "Assign": VFunc("Assign", self.m_assign),
                                   "LogicalNot": VFunc("LogicalNot", lambda ctx, it, a, k: EXPR.wrap(NOT(_as_expr(ctx, a[0]))))})


def _as_expr(ctx, v):
    v = ctx.deref(v)
    if isinstance(v, VObj) and "$expr" in v.fields:
        return v.fields["$expr"].t
    if isinstance(v, VElem) and v.ty is EXPR:
        return v.t
    raise Unsupported("not an expression: %r" % (v,))


class IfContract(GuardContract):
    qualname = "CodeBuilder.if_"

    def __init__(self, nargs):
        self.nargs = nargs
        self.variant_name = "%d-argument-form" % nargs
        self.args = [z3.Const("condition_arg_%d" % i, Arg) for i in range(nargs)]

    def params(self, ctx):
        ctx.env["self"] = new_builder(ctx, z3.Int("n_statements"))
        ctx.env["condition_arg"] = VTuple([ARG.wrap(a) for a in self.args])

    def ghosts(self, ctx):
        ctx.ghost["flag"] = z3.Const("flag0", VarName)
        ctx.ghost["added"] = z3.Const("added0", BStmt)
        ctx.ghost["added_under"] = None
        ctx.ghost["yielded"] = z3.BoolVal(False)

    def requires(self, st):
        # the comparison operator (middle argument of the 3-argument form) is a string
        return [("op-is-a-string", Arg.is_AStr(self.args[1]))] if self.nargs == 3 else []

    def list_append_expr(self):
        pass

    def wanted_condition(self):
        def as_expr(a):
            return If(Arg.is_AStr(a), PARSE(Arg.lit(a)), Arg.expr(a))
        if self.nargs == 1:
            return as_expr(self.args[0])
        return CMP(as_expr(self.args[0]), self.args[1], as_expr(self.args[2]))

    def on_yield(self, ctx, it, v):
        """the state in which the body of the `with` block runs"""
        selfo = ctx.deref(ctx.env["self"])
        stack = ctx.deref(selfo.fields["_conditional_expression_stack"])
        st0 = ctx.old
        stack0 = st0.field("self", "_conditional_expression_stack")
        seen0 = st0.field("self", "_seen_var_names").t
        f = ctx.ghost["flag"]
        j = z3.Int("j")
        O = lambda n, g: ctx.oblige(it.oname("at-block-entry/" + n), g)  # noqa
        O("flag-is-a-new-name-not-used-by-the-user-so-far", Not(Select(seen0, f)))
        O("flag-assigned-the-given-condition", ctx.ghost["added"] == ASSIGN(f, self.wanted_condition()))
        under = ctx.ghost["added_under"]
        O("flag-assignment-is-guarded-by-the-enclosing-blocks-only",
          And(under.n == stack0.n, ForAll([j], Implies(And(0 <= j, j < stack0.n), Select(under.a, j) == Select(stack0.a, j)))))
        O("guard-stack-is-the-enclosing-guards-plus-the-flag",
          And(stack.n == stack0.n + 1, Select(stack.a, stack0.n) == VAR(f),
              ForAll([j], Implies(And(0 <= j, j < stack0.n), Select(stack.a, j) == Select(stack0.a, j)))))
        ctx.ghost["yielded"] = z3.BoolVal(True)
        # the body of the block: arbitrary builder calls, which keep the stack discipline
        for fld in ("_writer_map", "_reader_map", "_seen_var_names", "statements"):
            ref = selfo.fields[fld]
            ctx.heap[ref.loc] = it.fresh_like(ctx.heap[ref.loc], "after_body_" + fld)
        # ... and may contain complete if_/else_ blocks of their own, each of which leaves its flag (or None)
        # in _last_if_block_conditional_expression
        sref = ctx.env["self"]
        so = ctx.deref(sref)
        nf = dict(so.fields)
        nf["_last_if_block_conditional_expression"] = EXPR.wrap(z3.Const(fresh_name("flag_of_a_nested_block"), Expr))
        ctx.store(sref, VObj(so.ty, nf))

    def getattr_hook(self, ctx, it, obj, name):
        return None

    def ensures(self, st):
        stack, stack0 = st.field("self", "_conditional_expression_stack"), st.old.field("self", "_conditional_expression_stack")
        j = z3.Int("j")
        last = st.field("self", "_last_if_block_conditional_expression")
        return [("the-block-was-entered", st.g("yielded")),
                ("guard-stack-restored",
                 And(stack.n == stack0.n, ForAll([j], Implies(And(0 <= j, j < stack0.n), Select(stack.a, j) == Select(stack0.a, j))))),
                ("flag-remembered-for-a-following-else",
                 _as_expr_static(last) == VAR(st.g("flag")))]

    raises = {"ValueError": lambda st: []} if False else {}


def _as_expr_static(v):
    if isinstance(v, VObj) and "$expr" in v.fields:
        return v.fields["$expr"].t
    if isinstance(v, VElem):
        return v.t
    return z3.Const("not_an_expression", Expr)


class ElseContract(GuardContract):
    qualname = "CodeBuilder.else_"

    def __init__(self):
        self.last = z3.Const("last_if_flag", VarName)

    def params(self, ctx):
        ref = new_builder(ctx, z3.Int("n_statements"))
        o = ctx.deref(ref)
        nf = dict(o.fields)
        nf["_last_if_block_conditional_expression"] = EXPR.wrap(VAR(self.last))
        ctx.store(ref, VObj(o.ty, nf))
        ctx.env["self"] = ref

    def ghosts(self, ctx):
        ctx.ghost["yielded"] = z3.BoolVal(False)

    def on_yield(self, ctx, it, v):
        selfo = ctx.deref(ctx.env["self"])
        stack = ctx.deref(selfo.fields["_conditional_expression_stack"])
        stack0 = ctx.old.field("self", "_conditional_expression_stack")
        j = z3.Int("j")
        ctx.oblige(it.oname("at-block-entry/guard-stack-is-the-enclosing-guards-plus-the-negated-flag-of-the-matching-if"),
                   And(stack.n == stack0.n + 1, Select(stack.a, stack0.n) == NOT(VAR(self.last)),
                       ForAll([j], Implies(And(0 <= j, j < stack0.n), Select(stack.a, j) == Select(stack0.a, j)))))
        ctx.ghost["yielded"] = z3.BoolVal(True)

    def equal_hook(self, ctx, it, a, b, identity):
        return None

    def ensures(self, st):
        stack, stack0 = st.field("self", "_conditional_expression_stack"), st.old.field("self", "_conditional_expression_stack")
        j = z3.Int("j")
        last = st.field("self", "_last_if_block_conditional_expression")
        return [("the-block-was-entered", st.g("yielded")),
                ("guard-stack-restored",
                 And(stack.n == stack0.n, ForAll([j], Implies(And(0 <= j, j < stack0.n), Select(stack.a, j) == Select(stack0.a, j))))),
                ("an-else-is-consumed-once", z3.BoolVal(isinstance(last, VNone)))]


# ==========================================================================
# spec-level lemmas over the transition established by _add_statement's contract
# ==========================================================================
def lemma_c02_inv():
    I = IntSort()
    reads = z3.Function("reads", I, VarName, BoolSort())
    writes = z3.Function("writes", I, VarName, BoolSort())
    dep = z3.Function("dep", I, I, BoolSort())
    path = z3.Function("path", I, I, BoolSort())
    hasW = z3.Function("hasW", VarName, BoolSort())
    W = z3.Function("W", VarName, I)
    R = z3.Function("R", VarName, I, BoolSort())
    hasW2 = z3.Function("hasW_next", VarName, BoolSort())
    W2 = z3.Function("W_next", VarName, I)
    R2 = z3.Function("R_next", VarName, I, BoolSort())
    seen = z3.Function("seen", VarName, BoolSort())
    seen2 = z3.Function("seen_next", VarName, BoolSort())
    is_asg = z3.Function("is_asg", I, BoolSort())
    N = z3.Int("N")
    i, j, k = z3.Ints("i j k")
    v = z3.Const("v", VarName)
    acc = lambda i_, v_: Or(reads(i_, v_), writes(i_, v_))  # noqa
    conflict = lambda i_, j_, v_: Or(And(writes(i_, v_), acc(j_, v_)), And(acc(i_, v_), writes(j_, v_)))  # noqa

    def INV(N_, hasW_, W_, R_, seen_):
        return {
            "a": ForAll([v], Implies(hasW_(v), And(0 <= W_(v), W_(v) < N_, writes(W_(v), v)))),
            "b": ForAll([v, i], Implies(R_(v, i), And(0 <= i, i < N_, reads(i, v)))),
            "c": ForAll([v, i], Implies(And(0 <= i, i < N_, acc(i, v)), Or(And(hasW_(v), path(W_(v), i)), R_(v, i)))),
            "d": ForAll([v, i], Implies(And(0 <= i, i < N_, writes(i, v)), And(hasW_(v), path(W_(v), i)))),
            "T": ForAll([v, i, j], Implies(And(0 <= i, i < j, j < N_, conflict(i, j, v)), path(j, i))),
            "seen": ForAll([v, i], Implies(And(0 <= i, i < N_, acc(i, v)), seen_(v))),
            "barrier": ForAll([i, j], Implies(And(0 <= i, i < j, j < N_, Or(Not(is_asg(i)), Not(is_asg(j)))), path(j, i))),
            "exec-read": ForAll([i], Implies(And(0 <= i, i < N_), reads(i, EXECV))),
            "exec-write": ForAll([i], Implies(And(0 <= i, i < N_, Not(is_asg(i))), writes(i, EXECV))),
        }

    graph = [ForAll([i, j], Implies(dep(i, j), path(i, j))),
             ForAll([i], path(i, i)),
             ForAll([i, j, k], Implies(And(path(i, j), path(j, k)), path(i, k)))]
    n = N
    # the transition: postcondition of _add_statement for the N-th statement
    trans = [
        N >= 0,
        ForAll([v], Implies(And(acc(n, v), hasW(v)), dep(n, W(v)))),
        ForAll([v, i], Implies(And(writes(n, v), R(v, i)), dep(n, i))),
        ForAll([v], Implies(writes(n, v), And(hasW2(v), W2(v) == n))),
        ForAll([v], Implies(Not(writes(n, v)), And(hasW2(v) == hasW(v), Implies(hasW(v), W2(v) == W(v))))),
        ForAll([v, i], Implies(And(writes(n, v), R2(v, i)), R(v, i))),
        ForAll([v], Implies(And(reads(n, v), Not(writes(n, v))), R2(v, n))),
        ForAll([v, i], Implies(And(reads(n, v), Not(writes(n, v))), Implies(R(v, i), R2(v, i)))),
        ForAll([v, i], Implies(And(reads(n, v), Not(writes(n, v)), R2(v, i)), Or(R(v, i), i == n))),
        ForAll([v, i], Implies(Not(acc(n, v)), R2(v, i) == R(v, i))),
        ForAll([v], seen2(v) == Or(seen(v), acc(n, v))),
        reads(n, EXECV),
        Implies(Not(is_asg(n)), writes(n, EXECV)),
        Implies(Not(is_asg(n)), ForAll([v], Implies(And(seen(v), is_state_var(v)), reads(n, v)))),
    ]
    pre = INV(N, hasW, W, R, seen)
    post = INV(N + 1, hasW2, W2, R2, seen2)
    hyps = graph + trans + list(pre.values())
    items = [("C02-inv/preserved[%s]" % name, hyps, goal) for name, goal in post.items()]
    # consequence used by the property: a non-assignment sees every earlier update of a state variable
    items.append(("barrier-sees-earlier-state-updates", graph + list(pre.values()),
                  ForAll([i, j, v], Implies(And(0 <= i, i < j, j < N, Not(is_asg(j)), is_state_var(v), writes(i, v),
                                                reads(j, v)), path(j, i)))))
    # initial state: no statement yet
    init = [N == 0, ForAll([v], Not(hasW(v))), ForAll([v, i], Not(R(v, i)))]
    for name, goal in pre.items():
        items.append(("C02-inv/initial[%s]" % name, graph + init, goal))
    return [], items


def _not_else_flag(u):
    # which flag a following else_ negates is the meaning of the written program (C01), not a matter of dependencies
    from pyvc.contracts import FilteredUnit
    return FilteredUnit(u, lambda n: "flag-remembered-for-a-following-else" not in n)


def builder_block_units():
    """if_ / else_ in full (C01: the guards are those of the written program)"""
    return [FunctionUnit(IfContract(1)), FunctionUnit(IfContract(3)), FunctionUnit(ElseContract())]


BUILDER_FIELDS = {"statements", "_writer_map", "_reader_map", "_conditional_expression_stack",
                  "_last_if_block_conditional_expression", "_seen_var_names"}


def with_block_units():
    """`with builder:` itself writes nothing: entering and leaving the block (normally or through an exception) neither
    mutates nor rebinds the builder's bookkeeping from which ids, guards and dependencies are derived (frame conditions,
    pyvc.frame).  Other attributes of the builder are not protected."""
    from pyvc.contracts import FrameUnit
    return [FrameUnit(REL, "CodeBuilder." + m, set(), "the-builder's-bookkeeping(statements,-writer/reader-maps,-guard-stack,-seen-names)",
                      field_roots=BUILDER_FIELDS) for m in ("__enter__", "__exit__")]


def units():
    # theorem T orders statements that conflict on their DECLARED sets; that the declared sets cover what a
    # statement touches is C08: its functions under contract are functions this property depends on
    from . import c08
    return c08.units() + [FunctionUnit(AddStatement()), FunctionUnit(FreshVarName()), FunctionUnit(NextStatementId()),
            _not_else_flag(FunctionUnit(IfContract(1))), _not_else_flag(FunctionUnit(IfContract(3))), FunctionUnit(ElseContract()),
            LemmaUnit("lemma:C02-inv", lemma_c02_inv),
            LeanUnit("lemma:L-PERM", "lemmas/LPerm.lean", ["run_eq_of_linear_extensions"]),
            LeanUnit("lemma:L-TOPO", "lemmas/LTopo.lean", ["pairwise_of_respects"])] \
        + __import__("contracts.c02assign", fromlist=["units"]).units() + with_block_units() \
        + __import__("contracts.stmtinit", fromlist=["units"]).units(PROP)     # depends_on is recorded as given


LEVEL = "proof"
BOUNDED = {"quick": {"timeout_s": 90}, "thorough": {"timeout_s": 900}}
TRUSTED_BASE = [
    __import__("contracts.stmtinit", fromlist=["TRUSTED"]).TRUSTED,
    "A-FMT: '%s_%d' % (name, k) is injective in k (statement ids of one builder are distinct)",
    "A-GEN: pytools.generate_unique_names(prefix) is an infinite stream; A-PARSE: dagrt.expression.parse takes a string",
    "A-DEP on LogicalAnd / LogicalNot / Variable: variables of the children (pymbolic DependencyMapper)",
    "C08: non-conflicting statements commute (declared read/write sets cover what a statement touches) - the premise `hcomm` of L-PERM",
    "Lean 4.33 + Mathlib for L-PERM (two linear extensions that order every conflicting pair the same way compute the same state) and L-TOPO",
    "the link between the z3 side and the Lean side is by reading: theorem T (lemma C02-inv[T]) is `hord`, `path` is any reflexive-transitive relation containing dep (parametricity), a schedule respecting direct dependencies is a linear extension (L-TOPO)",
    "_add_statement enters if_ through the part of its contract that if_ needs (a statement is appended under the current guard stack)",
]
ASSUMPTIONS = [
    "statement objects are abstract: declared_reads / declared_writes / is_assignment are arbitrary; every builder method that adds a statement goes through _add_statement (proved for if_, assign, yield_state, fail_step, raise_, switch_phase, restart_step)",
    "the body of a with-block is an arbitrary sequence of builder calls that keeps the guard-stack discipline (contextmanager semantics: code before `yield` on entry, after it on exit)",
    "assign / yield_state / fail_step / raise_ / switch_phase / restart_step are under provenance contracts (contracts/c02assign.py): exactly one statement, of the class and with every argument that was written (text parsed, loops in order and never dropped, all assignees of a call); python-level tags, the tuple-of-assignees case is run with two assignees; assign_implicit* are not under contract",
]
EXPLANATION = ("_add_statement is executed symbolically (54 paths, four loops over sets in arbitrary order, write-through aliasing of "
               "`readers`) and proved to establish the transition: the new statement depends on the last writer of everything it reads or "
               "writes and on every reader since the last write of everything it writes, becomes the last writer / a recorded reader, reads "
               "the execution token and all guard variables, and (non-assignments) writes the token and reads every seen state variable. "
               "Lemma C02-inv proves over that transition that every conflicting pair is ordered by a dependency path in program order "
               "(theorem T), that externally visible statements are totally ordered and see all earlier state updates. fresh_var_name, "
               "next_statement_id, if_ (both call forms) and else_ are proved to hand out unseen names, distinct ids, and to pair guards "
               "correctly. L-PERM / L-TOPO (Lean) turn T into: every schedule respecting the recorded edges equals program order.")
