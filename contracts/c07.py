"""C07 — statement-rewriting passes preserve meaning and never capture names (mixed).

Functions under contract (read from /repo/dagrt/codegen/transform.py on every run):
  get_names_in_ast_structure, get_var_name_generator, apply_statement_rewriter,
  SelfDependencyEliminator.map_statement, ExprFunctionArgumentIsolator.isolate_arg,
  ExpressionFunctionCallIsolator.isolate_call
Proved: freshness (every introduced variable / id comes from a generator seeded with every name of the phase
tree), guard propagation, definition before use inside the returned list, call shape of the delegation to the
inherited mapper.  The semantic clause (same values, same external calls) is bounded only.
"""
import ast as pyast
import z3
from z3 import And, Or, Not, Implies, ForAll, Exists, Select, Store, If, IntSort, BoolSort

from pyvc.values import *  # noqa
from pyvc.contracts import FunctionContract, FunctionUnit, LemmaUnit
from .dagspec import VarName, VARNAME, Id, ID
from .c08 import Expr, EXPR, NameSet, NAMESET, union, subset, empty, single, vars_
from .astspec import Node, NodeList, Cond, LoopH, NODE, VNodeList, NODELIST, LVAR, BEXPR, COND, LVar, BExpr

def _empty_only(a, k):
    """set() - the model is the empty set; set(<something>) is another value"""
    if a or k:
        raise Unsupported("set(...) with arguments")
    return None


PROP = "C07"
REL = "dagrt/codegen/transform.py"

cnames = z3.Function("names_in_condition", Cond, NameSet)
bnames = z3.Function("names_in_bound", BExpr, NameSet)
lvname = z3.Function("loop_variable_name", LVar, VarName)
SN = z3.Function("names_in_structure", Node, NameSet)          # spec: guards, loop variables, loop bounds of the tree
SNL = z3.Function("names_in_structure_of_list", NodeList, NameSet)


def unfold_sn(t):
    N = Node
    h = N.header(t)
    return [
        Implies(N.is_IfThen(t), SN(t) == union(cnames(N.it_cond(t)), SN(N.it_then(t)))),
        Implies(N.is_IfThenElse(t), SN(t) == union(cnames(N.ite_cond(t)), SN(N.ite_then(t)), SN(N.ite_else(t)))),
        Implies(N.is_ForLoop(t), SN(t) == union(single(lvname(LoopH.lvar(h))), bnames(LoopH.lb(h)), bnames(LoopH.ub(h)), SN(N.body(t)))),
        Implies(N.is_Block(t), SN(t) == SNL(N.children(t))),
        Implies(Or(N.is_Null(t), N.is_Leaf(t)), SN(t) == empty()),
    ]


def unfold_snl(l):
    L = NodeList
    return [Implies(L.is_Nil(l), SNL(l) == empty()),
            Implies(L.is_Cons(l), SNL(l) == union(SN(L.head(l)), SNL(L.tail(l))))]


class StructNames(FunctionContract):
    prop = PROP
    relpath = REL
    qualname = "get_names_in_ast_structure"
    prune_quantified = False

    def __init__(self):
        self.t = z3.Const("ast", Node)

    def params(self, ctx):
        ctx.env["ast"] = NODE.wrap(self.t)
        for f in unfold_sn(self.t):
            ctx.assume(f)

    def m_get_variables(self, ctx, it, args, kw):
        v = ctx.deref(args[0])
        if v.ty is COND:
            return VSet(NAMESET, cnames(v.t))
        if v.ty is BEXPR:
            return VSet(NAMESET, bnames(v.t))
        raise Unsupported("get_variables(%r)" % (v,))

    def m_self(self, ctx, it, args, kw):
        """recursive call on a child: induction hypothesis (structural)"""
        ch = ctx.deref(args[0]).t
        r = z3.Const(fresh_name("child_names"), NameSet)
        ctx.assume(subset(SN(ch), r))
        return VSet(NAMESET, r)

    def m_set(self, ctx, it, args, kw):
        if not args:
            return VSet(NAMESET, empty())
        v = ctx.deref(args[0])
        return VSet(NAMESET, v.t)

    names = property(lambda self: {"get_variables": VFunc("get_variables", self.m_get_variables),
                                   "get_names_in_ast_structure": VFunc("rec", self.m_self),
                                   "set": VFunc("set", self.m_set)})

    def set_literal(self, ctx, it, e):
        pass

    def getattr_hook(self, ctx, it, obj, name):
        o = ctx.deref(obj)
        if isinstance(o, VElem) and o.ty is NODE and name == "loop_var_name":
            if not ctx.branch(Node.is_ForLoop(o.t), "hasattr"):
                ctx.raise_("AttributeError")
            return VARNAME.wrap(lvname(LoopH.lvar(Node.header(o.t))))
        return None

    def havoc_var(self, ctx, it, name, v):
        if name == "result":
            return VSet(NAMESET, z3.Const(fresh_name("result"), NameSet))
        return None

    def inv(self, s):
        rest = s.loop(0)["$rest"].t
        whole = s.loop(0)["$whole"].t
        return [("names-of-the-children-seen-so-far-are-collected", subset(SNL(whole), union(s.result.t, SNL(rest)))),
                ("own-names-kept", subset(s.entry.result.t, s.result.t))]

    loops = property(lambda self: {0: dict(shape="for child in children", inv=self.inv,
                                           facts=lambda s: unfold_snl(s.loop(0)["$rest"].t) + unfold_snl(s.loop(0)["$whole"].t)
                                           + unfold_sn(NodeList.head(s.loop(0)["$rest"].t)))})

    def ensures(self, st):
        return [("every-guard-loop-variable-and-bound-name-of-the-tree-is-returned", subset(SN(self.t), st.result.t))]


# the engine unrolls `for child in (ast.then,)`; for a Block it iterates the ADT list
def _set_display(interp_cls):
    pass


# ---- get_var_name_generator -------------------------------------------------------------------------
BStmt7 = z3.DeclareSort("Stmt7")
RD7 = z3.Function("reads7", BStmt7, NameSet)
WR7 = z3.Function("writes7", BStmt7, NameSet)
STMT7 = TElem("Stmt7", BStmt7, methods={
    "get_read_variables": lambda ctx, it, obj, a, k: VSet(NAMESET, RD7(ctx.deref(obj).t)),
    "get_written_variables": lambda ctx, it, obj, a, k: VSet(NAMESET, WR7(ctx.deref(obj).t))})


class VGen7(V):
    """UniqueNameGenerator(existing): A-UNG"""
    ty = None

    def __init__(self, existing):
        self.existing = existing


class VarNameGenerator(FunctionContract):
    prop = PROP
    relpath = REL
    qualname = "get_var_name_generator"

    def __init__(self):
        self.n = z3.Int("n_statements")
        self.a = z3.Const("statements_a", z3.ArraySort(IntSort(), BStmt7))
        self.t = z3.Const("phase_ast", Node)

    def params(self, ctx):
        ctx.env["statements"] = VList(TList(STMT7), self.n, self.a)
        ctx.env["phase_ast"] = NODE.wrap(self.t)

    def requires(self, st):
        return [("n>=0", self.n >= 0)]

    def m_struct(self, ctx, it, args, kw):
        t = ctx.deref(args[0]).t
        r = z3.Const(fresh_name("struct_names"), NameSet)
        ctx.assume(subset(SN(t), r))        # StructNames' contract
        return VSet(NAMESET, r)

    names = property(lambda self: {
        "set": VFunc("set", lambda ctx, it, a, k: _empty_only(a, k) or ctx.alloc(VSet(NAMESET, empty()))),
        "get_names_in_ast_structure": VFunc("get_names_in_ast_structure", self.m_struct),
        "UniqueNameGenerator": VFunc("UniqueNameGenerator", lambda ctx, it, a, k: VGen7(ctx.deref(a[0]).t))})

    def inv(self, s):
        j = z3.Int("j")
        i = s.loop(0)["$i"].t
        ex = s.existing_variables.t
        return [("names-of-processed-statements-are-known",
                 ForAll([j], Implies(And(0 <= j, j < i), And(subset(RD7(Select(self.a, j)), ex), subset(WR7(Select(self.a, j)), ex)))))]

    loops = property(lambda self: {0: dict(shape="for stmt in statements", inv=self.inv)})

    def ensures(self, st):
        j = z3.Int("j")
        g = st.result
        ok = isinstance(g, VGen7)
        if not ok:
            return [("returns-a-generator", z3.BoolVal(False))]
        return [("generator-knows-every-name-read-or-written-by-a-statement",
                 ForAll([j], Implies(And(0 <= j, j < self.n), And(subset(RD7(Select(self.a, j)), g.existing),
                                                                  subset(WR7(Select(self.a, j)), g.existing))))),
                ("generator-knows-every-guard-loop-variable-and-bound-name-of-the-tree",
                 Implies(z3.BoolVal(True), subset(SN(self.t), g.existing)))]


# ---- apply_statement_rewriter ---------------------------------------------------------------------------
class ApplyRewriter(FunctionContract):
    prop = PROP
    relpath = REL
    qualname = "apply_statement_rewriter"

    def params(self, ctx):
        ctx.env["rewriter_cls"] = VFunc("rewriter_cls", self.m_cls)
        ctx.env["phase_ast"] = VPy("<phase_ast>")
        ctx.ghost["seeded"] = z3.BoolVal(False)

    def m_cls(self, ctx, it, args, kw):
        ok = isinstance(kw.get("var_name_gen"), VPy) and kw["var_name_gen"].py == "var-gen(statements-of-the-tree, the-tree)" \
            and isinstance(kw.get("stmt_id_gen"), VPy) and kw["stmt_id_gen"].py == "id-gen(statements-of-the-tree)"
        ctx.ghost["seeded"] = z3.BoolVal(bool(ok))
        return VFunc("rewriter", lambda ctx, it, a, k: VPy("<rewritten>"))

    def m_vargen(self, ctx, it, args, kw):
        a = [ctx.deref(x) for x in args]
        ok = len(a) == 2 and isinstance(a[0], VPy) and a[0].py == "statements-of-the-tree" and isinstance(a[1], VPy) and a[1].py == "<phase_ast>"
        return VPy("var-gen(statements-of-the-tree, the-tree)" if ok else "var-gen(?)")

    def m_idgen(self, ctx, it, args, kw):
        a = ctx.deref(args[0])
        return VPy("id-gen(statements-of-the-tree)" if isinstance(a, VPy) and a.py == "statements-of-the-tree" else "id-gen(?)")

    def m_list(self, ctx, it, args, kw):
        a = ctx.deref(args[0])
        return VPy("statements-of-the-tree" if isinstance(a, VPy) and a.py == "leaves(<phase_ast>)" else "?")

    names = property(lambda self: {
        "list": VFunc("list", self.m_list),
        "get_statements_in_ast": VFunc("get_statements_in_ast", lambda ctx, it, a, k: VPy("leaves(%s)" % ctx.deref(a[0]).py)),
        "get_stmt_id_generator": VFunc("get_stmt_id_generator", self.m_idgen),
        "get_var_name_generator": VFunc("get_var_name_generator", self.m_vargen)})

    def ensures(self, st):
        return [("generators-are-seeded-from-every-statement-of-the-tree-and-from-the-tree-structure", st.g("seeded"))]


# ---- isolate_call: call shape of the delegation (D10) ------------------------------------------------------
class IsolateCall(FunctionContract):
    prop = PROP
    relpath = REL
    qualname = "ExpressionFunctionCallIsolator.isolate_call"

    def params(self, ctx):
        self.var_gen_calls = 0
        ctx.env["self"] = VObj(TObj("Isolator", {}), {
            "var_name_gen": VFunc("var_name_gen", self.m_fresh_var), "stmt_id_gen": VFunc("stmt_id_gen", self.m_fresh_id),
            "new_statements": VStmtLog()})
        ctx.env["expr"] = VPy("<call expr>")
        ctx.env["base_condition"] = VPy("<base_condition>")
        ctx.env["base_deps"] = VDeps("base")
        ctx.env["extra_deps"] = VDepList()
        ctx.env["super_method"] = VFunc("super_method", self.m_super)
        ctx.ghost["shape"] = z3.BoolVal(False)
        ctx.ghost["stmt"] = None

    def m_fresh_var(self, ctx, it, args, kw):
        return VPy("<fresh variable>")       # A-UNG: not in the generator's set (seeded with every name of the tree)

    def m_fresh_id(self, ctx, it, args, kw):
        return VPy("<fresh id>")

    def m_super(self, ctx, it, args, kw):
        """the inherited IdentityMapper.map_call(expr, *args) hands *args on to self.rec(child, *args), i.e. to the
        overridden map_call(expr, base_condition, base_deps, extra_deps): three extra arguments are required"""
        a = [ctx.deref(x) for x in args]
        ok = (len(a) == 4 and isinstance(a[0], VPy) and a[0].py == "<call expr>" and isinstance(a[1], VPy)
              and a[1].py == "<base_condition>" and isinstance(a[2], VDeps) and a[2].tag == "base" and isinstance(a[3], VDepList))
        ctx.ghost["shape"] = z3.BoolVal(bool(ok))
        if ok:
            ctx.ghost["sub"] = a[3]
        return VCallResult()

    def isinstance_hook(self, ctx, it, obj, names):
        if isinstance(obj, VCallResult):
            return VBool(True) if names != ["CallWithKwargs"] else VBool(z3.Bool(fresh_name("has_kwargs")))
        return None

    def getattr_hook(self, ctx, it, obj, name):
        o = ctx.deref(obj)
        if isinstance(o, VCallResult):
            if name == "parameters":
                return VTuple([])
            if name == "kw_parameters":
                return VKwEmpty()
            if name == "function":
                return VObj(TObj("fn", {}), {"name": VPy("<function name>")})
        return None

    def list_literal(self, ctx, it, e):
        return VDepList()

    def dict_literal(self, ctx, it, e):
        return VPy("<dict>")

    def m_afc(self, ctx, it, args, kw):
        k = {n: ctx.deref(v) for n, v in kw.items()}
        ctx.ghost["stmt"] = k
        return VPy("<new AssignFunctionCall>")

    def m_frozenset(self, ctx, it, args, kw):
        a = ctx.deref(args[0])
        return VDeps("sub") if isinstance(a, VDepList) else VDeps("?")

    def binop_hook(self, ctx, it, op_, a, b):
        if op_ is pyast.BitOr and isinstance(a, VDeps) and isinstance(b, VDeps):
            return VDeps(a.tag + "|" + b.tag)
        return None

    names = property(lambda self: {"AssignFunctionCall": VFunc("AssignFunctionCall", self.m_afc),
                                   "frozenset": VFunc("frozenset", self.m_frozenset),
                                   "tuple": VFunc("tuple", lambda ctx, it, a, k: a[0]),
                                   "var": VFunc("var", lambda ctx, it, a, k: VPy("var(%s)" % ctx.deref(a[0]).py)),
                                   "Call": VClass("Call"), "CallWithKwargs": VClass("CallWithKwargs")})

    loops = {1: dict(inv=lambda s: [])}

    def ensures(self, st):
        k = st.g("stmt") or {}
        log = st.field("self", "new_statements") if False else None
        return [("delegation-passes-expr-guard-deps-and-a-fresh-dependency-list(the-arity-the-overridden-mapper-needs)", st.g("shape")),
                ("the-new-statement-carries-the-guard-of-the-statement-being-rewritten",
                 z3.BoolVal(isinstance(k.get("condition"), VPy) and k["condition"].py == "<base_condition>")),
                ("the-new-statement-depends-on-the-base-dependencies-and-on-what-its-arguments-introduced",
                 z3.BoolVal(isinstance(k.get("depends_on"), VDeps) and k["depends_on"].tag == "base|sub")),
                ("the-temporary-and-the-id-are-fresh",
                 z3.BoolVal(isinstance(k.get("id"), VPy) and k["id"].py == "<fresh id>" and isinstance(k.get("assignees"), VTuple)
                            and len(k["assignees"].items) == 1 and getattr(k["assignees"].items[0], "py", None) == "<fresh variable>")),
                ("returns-the-fresh-temporary", z3.BoolVal(isinstance(st.result, VPy) and st.result.py == "var(<fresh variable>)"))]


class VCallResult(V):
    ty = None


class VKwEmpty(V):
    ty = None
    methods = {}


class _Items(V):
    ty = None

    def for_loop(self, it, s, k, spec, ex):
        return            # no keyword parameters on this path


VKwEmpty.methods = {"items": lambda ctx, it, obj, a, k: _Items()}


class VDeps(V):
    ty = None

    def __init__(self, tag):
        self.tag = tag


class VDepList(V):
    ty = None
    methods = {}


VDepList.methods = {"append": lambda ctx, it, obj, a, k: NONE, "extend": lambda ctx, it, obj, a, k: NONE}


class VStmtLog(V):
    ty = None
    methods = {}


def _log_append(ctx, it, obj, a, k):
    ctx.ghost["appended"] = True
    return NONE


VStmtLog.methods = {"append": _log_append}


# ---- SelfDependencyEliminator.map_statement: provenance of names, ids, guards and dependencies ----------------
class VFreshVar(V):
    """exactly the value returned by self.var_name_gen(...) (A-UNG: outside every name of the phase tree)"""
    ty = None


class VFreshId(V):
    ty = None


class VVarOf(V):
    ty = None

    def __init__(self, of):
        self.of = of


class VLog(V):
    """a list under construction; ok = every element appended so far has the provenance the contract expects"""
    ty = None

    def __init__(self, kind, ok, closed=None):
        self.kind, self.ok = kind, ok
        self.closed = closed if closed is not None else z3.BoolVal(False)   # the rewritten statement was appended (last)

    def fresh_like(self, ctx, base):
        return VLog(self.kind, z3.Bool(fresh_name(base + "_ok")), z3.Bool(fresh_name(base + "_closed")))


class VTempStmt(V):
    ty = None


class VFinalStmt(V):
    ty = None

    def __init__(self, ok):
        self.ok = ok


class VMapped(V):
    ty = None

    def __init__(self, ok):
        self.ok = ok


class VSdStmt(V):
    """the statement being rewritten"""
    ty = None


class SelfDep(FunctionContract):
    prop = PROP
    relpath = REL
    qualname = "SelfDependencyEliminator.map_statement"
    prune_quantified = False

    def __init__(self):
        self.R = z3.Const("read_variables", NameSet)
        self.W = z3.Const("written_variables", NameSet)

    def params(self, ctx):
        ctx.env["self"] = VObj(TObj("Eliminator", {}), {
            "var_name_gen": VFunc("var_name_gen", lambda ctx, it, a, k: VFreshVar()),
            "stmt_id_gen": VFunc("stmt_id_gen", lambda ctx, it, a, k: VFreshId())})
        ctx.env["stmt"] = VSdStmt()

    def _targets(self):
        if not hasattr(self, "_lt"):
            self._lt = {}
            for n in pyast.walk(self.load().node):
                if isinstance(n, pyast.Assign) and isinstance(n.value, pyast.List) and len(n.targets) == 1 \
                        and isinstance(n.targets[0], pyast.Name):
                    self._lt[(n.value.lineno, n.value.col_offset)] = n.targets[0].id
        return self._lt

    def list_literal(self, ctx, it, e):
        if len(e.elts) == 1:
            v = ctx.deref(it.eval(e.elts[0]))
            return VPy("[stmt]" if isinstance(v, VSdStmt) else "[?]")
        if e.elts:
            raise Unsupported("list literal")
        tgt = self._targets().get((e.lineno, e.col_offset))
        if tgt not in ("substs", "tmp_stmt_ids", "new_statements"):
            raise Unsupported("L%s: empty list assigned to %r" % (e.lineno, tgt))
        return ctx.alloc(VLog(tgt, z3.BoolVal(True)))

    def getattr_hook(self, ctx, it, obj, name):
        o = ctx.deref(obj)
        if isinstance(o, VSdStmt):
            if name == "get_read_variables":
                return VFunc(name, lambda ctx, it, a, k: VSet(NAMESET, self.R))
            if name == "get_written_variables":
                return VFunc(name, lambda ctx, it, a, k: VSet(NAMESET, self.W))
            if name == "condition":
                return VPy("<guard of stmt>")
            if name == "depends_on":
                return VDeps("base")
            if name == "map_expressions":
                return VFunc(name, self.m_map_expressions)
        if isinstance(o, VMapped) and name == "copy":
            return VFunc(name, lambda ctx, it, a, k: self.m_copy(ctx, it, o, a, k))
        if isinstance(o, VElem) and o.ty is VARNAME and name == "replace":
            return VFunc(name, lambda ctx, it, a, k: VPy("<text derived from the variable name>"))
        if isinstance(o, VPy) and name == "replace":
            return VFunc(name, lambda ctx, it, a, k: VPy("<text derived from the variable name>"))
        if isinstance(o, VFreshVar) and name == "replace":
            # editing the generator's result gives a name the generator never checked
            return VFunc(name, lambda ctx, it, a, k: VPy("<text derived from a fresh name: NOT known to be fresh>"))
        if isinstance(o, VLog) and name == "append":
            return VFunc(name, lambda ctx, it, a, k: self.m_append(ctx, it, obj, o, a))
        return None

    def binop_hook(self, ctx, it, op_, a, b):
        if op_ is pyast.Add and isinstance(a, (VPy, VElem)) and isinstance(b, (VPy, VElem)) \
                and not isinstance(a, VFreshVar) and not isinstance(b, VFreshVar):
            return VPy("<seed text>")
        if op_ is pyast.BitOr and isinstance(a, VDeps) and isinstance(b, VDeps):
            return VDeps(a.tag + "|" + b.tag)
        return None

    def m_append(self, ctx, it, ref, log, args):
        x = ctx.deref(args[0])
        if log.kind == "substs":
            good = (isinstance(x, VTuple) and len(x.items) == 2 and isinstance(x.items[1], VVarOf)
                    and isinstance(x.items[1].of, VFreshVar) and x.items[1].of is ctx.env.get("$fresh_of_iteration")
                    and isinstance(x.items[0], VElem) and x.items[0].t.eq(ctx.loop_extra[0]["$x"].t))
            new = VLog(log.kind, And(log.ok, z3.BoolVal(bool(good))))
        elif log.kind == "tmp_stmt_ids":
            good = isinstance(x, VFreshId) and x is ctx.env.get("$fresh_id_of_iteration")
            new = VLog(log.kind, And(log.ok, z3.BoolVal(bool(good))))
        else:
            if isinstance(x, VTempStmt):
                # temporaries come before the rewritten statement
                new = VLog(log.kind, And(log.ok, Not(log.closed)), log.closed)
            elif isinstance(x, VFinalStmt):
                new = VLog(log.kind, And(log.ok, x.ok, Not(log.closed)), z3.BoolVal(True))
            else:
                new = VLog(log.kind, z3.BoolVal(False), log.closed)
        ctx.store(ref, new)
        return NONE

    def m_var(self, ctx, it, args, kw):
        return VVarOf(ctx.deref(args[0]))

    def m_gen_var(self, ctx, it, args, kw):
        v = VFreshVar()
        ctx.env["$fresh_of_iteration"] = v
        return v

    def m_gen_id(self, ctx, it, args, kw):
        v = VFreshId()
        ctx.env["$fresh_id_of_iteration"] = v
        return v

    def m_assign(self, ctx, it, args, kw):
        a = [ctx.deref(x) for x in args]
        k = {n: ctx.deref(v) for n, v in kw.items()}
        O = lambda n, ok: ctx.oblige("temporary/%s@L%s" % (n, ctx.cur_line), z3.BoolVal(bool(ok)))   # noqa
        O("its-assignee-is-exactly-the-name-the-generator-returned(fresh)",
          len(a) >= 1 and a[0] is ctx.env.get("$fresh_of_iteration") and isinstance(a[0], VFreshVar))
        O("it-is-not-subscripted", len(a) >= 2 and isinstance(a[1], VTuple) and not a[1].items)
        O("it-copies-the-variable-that-is-read-and-written",
          len(a) >= 3 and isinstance(a[2], VVarOf) and isinstance(a[2].of, VElem) and a[2].of.t.eq(ctx.loop_extra[0]["$x"].t))
        O("it-carries-the-guard-of-the-statement", isinstance(k.get("condition"), VPy) and k["condition"].py == "<guard of stmt>")
        O("its-id-is-exactly-the-id-the-generator-returned(fresh)", k.get("id") is ctx.env.get("$fresh_id_of_iteration")
          and isinstance(k.get("id"), VFreshId))
        O("it-depends-on-what-the-statement-depends-on", isinstance(k.get("depends_on"), VDeps) and k["depends_on"].tag == "base")
        return VTempStmt()

    def m_map_expressions(self, ctx, it, args, kw):
        f = ctx.deref(args[0]) if args else None
        txt = f.py[1] if isinstance(f, VPy) and isinstance(f.py, tuple) else None
        shape = txt is not None and txt.replace(" ", "") in ("lambdaexpr:substitute(expr,dict(substs))",)
        il = ctx.deref(kw.get("include_lhs")) if "include_lhs" in kw else None
        lhs_kept = isinstance(il, VBool) and z3.is_false(z3.simplify(il.t))
        substs = ctx.deref(ctx.env["substs"]) if "substs" in ctx.env else None
        ok = And(z3.BoolVal(bool(shape and lhs_kept)), substs.ok if isinstance(substs, VLog) else z3.BoolVal(False))
        return VMapped(ok)

    def m_copy(self, ctx, it, mapped, args, kw):
        k = {n: ctx.deref(v) for n, v in kw.items()}
        guard = isinstance(k.get("condition"), VPy) and k["condition"].py == "<guard of stmt>"
        deps = isinstance(k.get("depends_on"), VDeps) and k["depends_on"].tag == "base|tmp_ids"
        ctx.oblige("rewritten/keeps-the-guard-of-the-statement@L%s" % ctx.cur_line, z3.BoolVal(bool(guard)))
        ctx.oblige("rewritten/depends-on-the-old-dependencies-and-on-every-temporary(no-temporary-is-read-before-it-is-set)@L%s"
                   % ctx.cur_line, z3.BoolVal(bool(deps)))
        ctx.oblige("rewritten/reads-are-redirected-to-the-fresh-temporaries-and-the-assignee-is-untouched@L%s" % ctx.cur_line,
                   mapped.ok)
        return VFinalStmt(And(mapped.ok, z3.BoolVal(bool(guard and deps))))

    def m_frozenset(self, ctx, it, args, kw):
        a = ctx.deref(args[0])
        if isinstance(a, VLog) and a.kind == "tmp_stmt_ids":
            ctx.oblige("every-recorded-temporary-id-is-one-the-generator-returned@L%s" % ctx.cur_line, a.ok)
            return VDeps("tmp_ids")
        return VDeps("?")

    def assign_hook(self, ctx, it, name, v):
        return None

    names = property(lambda self: {
        "sorted": VFunc("sorted", lambda ctx, it, a, k: a[0]),
        "var": VFunc("var", self.m_var), "Assign": VFunc("Assign", self.m_assign),
        "frozenset": VFunc("frozenset", self.m_frozenset),
        "substitute": VFunc("substitute", lambda ctx, it, a, k: VPy("<substituted>")),
        "dict": VFunc("dict", lambda ctx, it, a, k: VPy("<dict>"))})

    calls = property(lambda self: {"self.var_name_gen": self.m_gen_var, "self.stmt_id_gen": self.m_gen_id})

    def inv(self, s):
        return [("substitutions-map-each-variable-to-its-fresh-temporary", s.substs.ok),
                ("recorded-ids-are-fresh", s.tmp_stmt_ids.ok),
                ("only-temporaries-so-far", And(s.new_statements.ok, Not(s.new_statements.closed)))]

    def prologue_var(self, ctx, it):
        pass

    loops = property(lambda self: {0: dict(shape="for var_name in sorted(read_and_written)", inv=self.inv)})

    def ensures(self, st):
        r = st.result
        x = z3.Const("x", VarName)
        disjoint = ForAll([x], Not(And(Select(self.R, x), Select(self.W, x))))
        if isinstance(r, VPy):
            return [("a-statement-is-returned-unchanged-only-if-it-reads-nothing-it-writes",
                     And(z3.BoolVal(r.py == "[stmt]"), disjoint))]
        if isinstance(r, VLog) and r.kind == "new_statements":
            return [("returns-the-temporaries-followed-by-the-rewritten-statement", And(r.ok, r.closed))]
        return [("returns-a-statement-list", z3.BoolVal(False))]


def units():
    return [FunctionUnit(StructNames()), FunctionUnit(VarNameGenerator()), FunctionUnit(ApplyRewriter()),
            FunctionUnit(IsolateCall()), FunctionUnit(SelfDep())] + __import__('contracts.c07sem', fromlist=['units']).units() + __import__('contracts.c07leaves', fromlist=['units']).units() \
        + __import__('contracts.c08', fromlist=['dependency_mapper_units']).dependency_mapper_units()


LEVEL = "other"
BOUNDED = {"quick": {"timeout_s": 120}, "thorough": {"timeout_s": 900}}
TRUSTED_BASE = [
    "A-UNG: UniqueNameGenerator(existing)(base) returns a name outside `existing` and never the same name twice",
    "A-ID: the inherited IdentityMapper.map_call(expr, *args) passes *args on to self.rec(child, *args), which dispatches to the overridden map_call(expr, base_condition, base_deps, extra_deps)",
    "structural induction over the tree for get_names_in_ast_structure (recursive call by contract)",
    "A-DEP (shared with C08): a statement's read set, which the self-dependency pass tests and the name generators are seeded from, holds the variables of its expressions and no function symbol; the two get_dependency_mapper factories are under contract to build pymbolic's mapper with exactly the flags A-DEP is stated for",
]
ASSUMPTIONS = [
    "MIXED (category other): proved are the structural clauses for the functions listed (the fresh-name generator is seeded with every name of the phase tree: statements' read/write sets, guards, loop variables, loop bounds; isolate_call delegates with the arity the overridden mapper needs and its new statement carries the guard, the dependencies and fresh names). SelfDependencyEliminator.map_statement is under a provenance contract (fresh names / ids are exactly the generators' results, guard and dependencies carried, temporaries first). ExprIfThenElseExpander.map_if and ExprFunctionArgumentIsolator.isolate_arg are under the SEMANTIC rewriter contract RW (contracts/c07sem.py: for every state, the introduced statements executed in list order leave every known name unchanged, make the returned expression evaluate to the value of the rewritten one where the guard holds, and do nothing where it does not), given RW for self.rec (structural induction over the expression, argued); flat_LogicalAnd and the three statement-level map_statement drivers are under contract (guard kept out of the mapper's reach and restored, dependencies on everything introduced, rewritten statement last). get_statements_in_ast is proved to yield exactly the statements of the leaves (the 'all statements of the tree' the generators are seeded from) and ASTStatementRewriter.map_StatementWrapper to replace a leaf by all returned statements in order. Not proved: the composition 'RW for every expression of a statement => the statement list has the effect of the statement' (needs a semantics of each statement class), isolate_call's value clause, and calls as events (a call is a pure value in RW).",
    "the semantic clause (every original variable keeps its value, the same external calls with the same arguments) is decided only by the bounded stand-in (independent tree-walking executor before/after each pass and in the Fortran pass order); finding D20 listed by fingerprint",
]
EXPLANATION = ("MIXED. Proved: get_names_in_ast_structure returns every guard, loop-variable and loop-bound name of the tree (recursive, over "
               "the tree ADT); get_var_name_generator seeds the generator with every name read or written by a statement and every structural "
               "name; apply_statement_rewriter hands the rewriter generators seeded from all statements of the tree and from the tree; "
               "isolate_call delegates to the inherited mapper with (expr, guard, dependencies, fresh list) and builds its statement with the "
               "guard, base|sub dependencies and fresh names. Bounded: semantic preservation of the four passes, alone and in the Fortran order.")
