#!/usr/bin/env python3
"""Regenerate MANIFEST.json from the table below (keeps it valid at all times)."""
import json, os
HERE = os.path.dirname(os.path.dirname(os.path.abspath(__file__)))

CLAIMED = {
 "C14": dict(cat="proof",
    text="unify is symbolically executed from the real source over an ADT of kinds (user-type identifiers uninterpreted, no bound); its exits, proved exclusive and exhaustive, are folded into the outcome function U and idempotence, commutativity and both directions of associativity are discharged over U by z3. SymbolKindTable.set is proved against a whole-table postcondition (flag raised iff the table changed; join commutes / is inflationary), and the driver SymbolKindFinder.__call__ is proved to return only a table that is a common fixed point of all statement steps (every statement processed successfully in a sweep in which the table did not change), for every work-list order and every outcome of every inference attempt; L-CHAOTIC (Lean) turns fixed point + join laws into order independence.",
    note="Trusted: pyvc engine and its Python encoding, z3/cvc5, structural record equality. Assumed, not proved: one statement's transfer step is monotone in the table; termination of the driver; the z3 side and the Lean side are linked by reading. Work lists are abstracted to multisets, the table to a version counter. Bounded stand-in (labelled): programs and refinement chains inferred in permuted presentation orders; known finding D5 (non-unifiable kinds for one name) is excluded by fingerprint.",
    technique="contract-based deductive verification: ast->z3 VC generation from the real unify, lattice lemmas over its outcome function",
    ref="6/C14"),

 "C10": dict(cat="proof",
    text="The four verifier passes and verify_code are symbolically executed from analysis.py against contracts: each pass adds a message iff its defect exists (witness ghosts one way, quantified loop invariants the other), the cycle detector is proved sound (error branch unreachable under any height function) and complete (ghost finishing order is a height function), and verify_code, using only those contracts, returns normally iff the method is well-formed and otherwise raises CodeGenerationError with >= 1 message; an escaping KeyError is proved unreachable; the cycle detector is proved to terminate (lexicographic variant: ids not yet visited, stack length; finite-set cardinality facts = L-CARD, checked by Lean). All inputs, no bound.",
    note="Assumes unique statement ids per phase, structural reading of statement attributes, engine + solvers. Bounded stand-in (labelled): exhaustive small DAGs + random tail on the real verify_code and its consumers.",
    technique="contract-based deductive verification: ast->z3 VC generation from the real verifier passes, loop invariants with ghost witnesses, modular callee contracts",
    ref="6/C10"),
 "C04": dict(cat="proof",
    text="ExecutionPhase.depends_on (sink set), ExecutionController.reset, update_plan with its recursive nested add_with_deps, and the dispatch loop __call__ are symbolically executed from language.py; the plan invariant (duplicate-free plan in position view, planned = set(plan), every dependency executed or earlier in the plan) is proved inductive, every dispatch/guard evaluation is proved to happen at most once per step, after the statement is marked visited and after all its dependencies; requested statements and their unvisited dependencies are proved to come before anything else planned; lemma A-SINK (step proved by z3) gives that every statement of the phase is visited.",
    note="Trusted: Rule IND for A-SINK, engine, solvers; target callbacks are arbitrary callees. Preconditions are verify_code's postcondition (C10). Bounded stand-in (labelled): scripted controller runs on small phases.",
    technique="contract-based deductive verification: ast->z3 VC generation, position-view invariants, recursion by contract with decreases clause",
    ref="6/C04"),

 "C06": dict(cat="proof",
    text="Every map_* of ASTIdentityMapper, ASTPreSimplifyMapper, ASTSimplifyMapper (incl. nested flat_Block), ASTPostSimplifyMapper and simplify_ast is symbolically executed from dag_ast.py over a recursive tree ADT; each is proved to return a tree whose executed-leaf trace (continuation-passing encoding, arbitrary valuation of condition atoms) equals the input's and to raise no exception, with `self.rec` entering by the same contract (structural induction); termination: variants for the loops of map_IfThenElse and map_Block, and every recursive call is proved to be on a strictly smaller node. Trees of any size and depth.",
    note="Trusted: pymbolic IdentityMapper dispatch (A-ID), the structural induction rule, deque/reduce models, engine + solvers.  Bounded stand-in (labelled): exhaustive trees up to 5-6 nodes + random tail on the real simplify_ast under all valuations.",
    technique="contract-based deductive verification: ast->z3 VC generation over a tree ADT, CPS trace semantics, loop invariants on the deque algorithm",
    ref="6/C06"),

 "C05": dict(cat="proof",
    text="create_ast_from_phase (iterative DFS + wrapping loop), loop_to_ast_node, conditional_to_ast and statement_to_ast are symbolically executed from dag_ast.py: the DFS invariant gives a duplicate-free topological order containing every sink (with A-SINK: every statement); the wrappers are proved against the property-level trace spec (statement inside exactly its declared loops, outermost first, guard innermost); the main block's trace is proved to be the guarded execution of that order without Nops, and by C06's contract so is the returned tree's. Storage-order independence holds by construction (no unordered iteration is executed; sorted() is a function of the set).",
    note="Trusted: A-SORT, Record.copy, C06's contract for simplify_ast, induction rule for the loop nest. lower_node/get_statements_in_ast only in the bounded stand-in (exhaustive phases <= 3-4 statements in all storage orders + random tail).",
    technique="contract-based deductive verification: ast->z3 VC generation, DFS invariant with ghost positions, CPS trace spec",
    ref="6/C05"),

 "C08": dict(cat="proof",
    text="Both sides are under contract: the get_read_variables / get_written_variables methods along the class chains of Assign, AssignFunctionCall, YieldState (super() by contract, MRO computed from the source) are proved to cover rhs, guard, lhs subscripts, loop bounds, call arguments, yielded value and time; the interpreter's evaluate_condition / exec_Assign (with nested generator implement_loops) / exec_AssignFunctionCall / exec_YieldState are executed with a recording context and on every normal and exceptional exit the ghost read/write sets are proved to lie inside the declared sets (loop counters aside). All statements and states.",
    note="Relative to A-DEP / A-EVAL (pymbolic mappers touch exactly vars(e)); aliasing of array values not modelled; identity-map clause decided under C16's map_expressions contracts. Bounded stand-in (labelled): instrumented context on ~14k real statements.",
    technique="contract-based deductive verification: ast->z3 VC generation with ghost read/write sets, modular super() contracts along the MRO",
    ref="6/C08"),

 "C02": dict(cat="proof",
    text="CodeBuilder._add_statement is symbolically executed from language.py (54 paths; four loops over sets in arbitrary order; write-through aliasing of `readers`) and proved to establish the dependency transition (last writer of every accessed variable, every reader since the last write of every written variable, execution token, guard variables, state variables for non-assignments). Lemma C02-inv (z3) proves over that transition that every conflicting pair is ordered by a dependency path in program order, externally visible statements are totally ordered and see earlier state updates. fresh_var_name / next_statement_id / if_ (both forms) / else_ are proved to hand out unseen names and distinct ids and to pair guards. L-PERM and L-TOPO (Lean 4 + Mathlib, re-checked every run) conclude that every schedule respecting the recorded edges computes what program order computes.",
    note="Premise `non-conflicting statements commute` is C08. The z3-to-Lean link (T is hord, path parametricity) is by reading. Thin wrapper methods (assign, yield_state, ...) are only in the bounded stand-in (exhaustive <=2-3 builder calls + random programs executed in all/sampled linear extensions).",
    technique="contract-based deductive verification: ast->z3 VC generation with set-iteration in arbitrary order and alias tracking; spec-level invariant lemma; Lean meta-lemmas",
    ref="6/C02"),

 "C20": dict(cat="proof",
    text="wrap_line_base is symbolically executed over an abstract token list of any length (lines tracked as length + token range, every `+=` carrying the obligation that a whole next token is appended): each token is placed exactly once and in order, and each emitted line with >= 2 tokens fits the width after padding; pad_python / pad_fortran are proved with z3 strings to satisfy the pad contract the wrapper assumes. Relative to the lexer contract A-LEX; a second contract variant covers the call without a lexer and pins the default to functools.partial(shlex.split, posix=False), the lexer A-LEX is stated for.",
    note="A-LEX (a quoted string lies within one token) is false for shlex in known cases: findings D19, D27, D28 are reported by the bounded stand-in (exhaustive small token sequences x widths x levels on both real wrap_line functions, ast.parse comparison) and listed in known_findings.json by fingerprint.",
    technique="contract-based deductive verification: ast->z3 VC generation with linear integer length reasoning and ghost token ranges; z3 strings for the pad functions",
    ref="6/C20"),

 "C13": dict(cat="proof",
    text="The sanitiser is proved over code-point arrays (any name) to produce a non-empty [A-Za-z0-9_]* string not starting with '_'; KeyToUniqueNameMap.get_or_make_name_for_key is proved to keep injectivity, return the stored identifier on every later lookup and touch no other key (relative to A-UNG); is_state_variable is proved to be exactly the tag-prefix predicate and both __getitem__ methods to route persistent names to instance/state storage and others to locals; name-space prefixes are proved pairwise disjoint (z3 strings) and disjoint from the identifiers the Python templates use (collected mechanically).",
    note="Relative to pytools.UniqueNameGenerator (A-UNG). Fortran case-insensitive distinctness, the 63-character limit, and legality of untagged function ids are NOT satisfied by the code: known findings D15, D16, D29, D30 (bounded stand-in: lookup sequences on the real managers, exhaustive short names + adversarial names).",
    technique="contract-based deductive verification: ast->z3 VC generation over code-point arrays, map representation invariant, z3 string prefix lemmas",
    ref="6/C13"),

 "C01": dict(cat="other",
    text="PARTIAL. Decided deductively: the step protocol (NumpyInterpreter.run and the emitted `run` template proved against ONE contract: events forwarded, StepFailed/StepCompleted contents, next phase, stopping conditions, exception propagation), both run_single_step implementations, resolve_args == Python call binding, exec_Assign raises no spurious exception, builtin signatures agree with the registry. NOT decided: that emitted statement/expression text means what exec_* does (assumption A-EMIT) - only the bounded stand-in compares interpreter, generated class and a program-order reference executor on builder programs.",
    note="Category other because the end-to-end statement (equality of two backends on all programs) is not within reach of function contracts: a contract on a text printer cannot say what the text computes. Known differences (D22, D31 ...) listed by fingerprint.",
    technique="contract-based deductive verification of the protocol layer (one contract, two implementations incl. mechanically extracted code templates) + bounded differential stand-in",
    ref="6/C01"),
 "C11": dict(cat="proof",
    text="run_single_step of the interpreter is proved, for an arbitrary phase body and every exit (normal or any exception), to leave only persistent keys in the context, to keep every persistent entry as the body left it and to let the exception through unchanged; reset -> update_plan -> controller is proved to be the first thing every step does; both `run` implementations are proved to catch only the stepper's own two signals; the emitted run_single_step catches nothing. With C08 (who writes the context, and when) and C04 (dependents never run before a failed dependency) this gives the clauses on values and resumability.",
    note="Generated phase bodies are assumed (A-EMIT) to keep temporaries in Python locals; storage classes of names are proved under C13. StopIteration from a user function is converted by PEP 479 (finding D32). Bounded stand-in: fault injection at every call site of generated programs in both backends.",
    technique="contract-based deductive verification: exceptional postconditions (try/finally, generator delegation) on the real stepper functions and extracted templates",
    ref="6/C11"),

 "C16": dict(cat="proof",
    text="map_expressions along the class chains of Assign, YieldState, AssignFunctionCall (chains recomputed from the source) is proved, for an arbitrary mapper, to map guard, lhs, rhs, loop identifiers and bounds, yielded value/time, function id, arguments and assignees and to leave every other field unchanged (so a renaming reaches every occurrence; with the identity nothing changes); fuse_two_phases / fuse_two_dags are proved to pass the caller's name predicate on (default: persistent names, <t>, <dt> stay shared), fuse phases of equal name over the union of names, copy one-sided phases and raise ValueError exactly when default successors or initial phases differ. Relative to A-FUSE for pymbolic's disambiguate_and_fuse.",
    note="Unique ids, intact internal dependencies and fresh names for clashing temporaries come from the assumed contract A-FUSE (external pymbolic code). Non-interference at run time is argued through C02/L-PERM and sampled by the bounded stand-in (fused vs separate runs).",
    technique="contract-based deductive verification: ast->z3 VC generation along MRO chains with an uninterpreted mapper; assumed contract on the external fusion routine",
    ref="6/C16"),

 "C09": dict(cat="other",
    text="MIXED. Proved deductively: every KindInferenceMapper.map_* returns a SymbolKind, never None, on every normal exit (induction hypothesis on rec; unify / registry by their contracts). Also proved: the table's set (flag iff changed) and the driver SymbolKindFinder.__call__ (returns only a common fixed point of all statement steps; contracts shared with C14); every built-in's get_result_kinds returns upper bounds of IMPL_f(argument kinds), the kind of the value its NumPy implementation returns (IMPL_f: an assumed contract on builtins_python.py + NumPy dtype rules, exercised by the bounded catalogue). NOT proved: that every assigned variable receives a table entry (D23 shows the clause is false for subscript-only assignments) and value-vs-kind agreement of programs: decided only by the bounded stand-in (random builder programs and refinement chains executed on the real interpreter with a kind monitor).",
    note="Category other: the property relates static kinds to numpy run-time values (floating point, numpy result types), which no contract on the inference functions can state. Known disagreements D5, D12, D13, D23, D37, D38, D39 are listed by fingerprint.",
    technique="contract-based deductive verification of the inference mapper's methods + bounded run-time kind monitor",
    ref="6/C09"),
 "C19": dict(cat="exploration",
    text="Bounded contract check only (as planned in DESIGN.md): the round-trip contract parse(str(e)) prints identically / mentions the same variables / has the same value is evaluated on all expressions to depth 2-3 over the property's operator set and a random tail, with exact rational arithmetic. One dagrt function that carries the backtick clause (parse.remove_backticks) is under deductive contract with z3 strings; it is not counted as deciding the property.",
    note="parse and str are pymbolic's table-driven parser and stringifier: no function within reach has a contract implying the round trip. Known printer/parser defects D18, D33-D36 listed by fingerprint.",
    technique="bounded contract check (exploration); one helper under contract-based deductive verification",
    ref="6/C19"),

 "C17": dict(cat="proof",
    text="RELATIVE to the soundness of pymbolic's UnidirectionalUnifier (A-UNIF). _ExtendedUnifier.map_call is proved to return only records that extend an input record and unify the function symbols and every aligned positional/keyword argument pair (hence the calls), and to return no record for class, arity or keyword-name mismatches; map_modulo_identity is proved sound (the target is replaced by op(identity, target), of equal value); map_sum / map_product are proved to pass the inherited mapper of the same operator and its identity 0 / 1; match() is proved to run the unifier with exactly the declared candidates on the flattened (parsed) arguments from nothing or from one record holding exactly the pre_match equations, to return the equations of a record the unifier returned, and to raise ValueError when there is none.",
    note="Records and `unifies` are abstract (uninterpreted); A-UNIF, A-FLATTEN and parse() are covered only by the bounded stand-in (substitute back and evaluate at random rational points under random function tables; 3.4k matches checked in the quick tier).",
    technique="contract-based deductive verification relative to an assumed contract on the external unifier; loop invariant over argument pairs",
    ref="6/C17"),
 "C18": dict(cat="proof",
    text="RELATIVE to A-COMBINE / A-ID (pymbolic's CombineMapper / IdentityMapper traversal). The constant finder's six own methods are proved against a method contract (stack discipline, sound table, result => no free variable) and __call__ to return a sound table; a class-shape obligation pins the set of overridden methods; collapse_constants and the mapper's __call__ are proved to hand every recorded assignment to assign_func exactly once. _ExpressionCollapsingMapper.rec and map_commut_assoc are proved, over an abstract value semantics with + / * as one commutative-associative operator (AC identities decided in (Z,+)), to return an expression that has the value of the input once hoisted variables denote their assigned expressions; every recorded assignment is proved to be a constant expression assigned exactly once to a variable freshly obtained from new_var_func; combine_func never receives an empty operand list; map_sum / map_product delegate with their own constructor.",
    note="Assumed: inherited CombineMapper / IdentityMapper methods traverse every direct subexpression and preserve value; the induction from the own methods to the inherited ones is argued. Bounded stand-in (labelled): 6k expressions x free-variable subsets on the real collapse_constants.",
    technique="contract-based deductive verification with an abstract AC value semantics and ghost accumulators",
    ref="6/C18"),

 "C15": dict(cat="other",
    text="PARTIAL. Decided from the real source of the six anchored files on every run: all iteration sites are enumerated (175), iterables classified by a conservative taint analysis, and for every site iterating an unordered collection one obligation - its effect is order-insensitive (set/dict comprehension, order-free consumer, a loop body that only grows sets / stores under the element, or a function whose pyvc contract was proved with set iteration in arbitrary order); plus a scan that the generators write no module-level state other than ArrayType.INDEX_VAR_COUNTER; L-PERM (Lean) turns pairwise commutation into order independence. NOT decided: byte identity of the emitted text across processes, hash seeds and generator histories (bounded stand-in with subprocesses under different PYTHONHASHSEED).",
    note="Category other: cross-process byte identity is an observation about whole runs, not a function contract. The site classifier is a mechanical effect analysis, not an SMT proof; its source list and commuting patterns are trusted and stated.",
    technique="site-classification completeness + commutation obligations per unordered iteration site (ast effect patterns, contracts proved under arbitrary set order, L-PERM) + bounded cross-process stand-in",
    ref="6/C15"),

 "C07": dict(cat="other",
    text="MIXED. Proved deductively (structural clauses): get_names_in_ast_structure returns every guard, loop-variable and loop-bound name of the phase tree (recursive, over the tree ADT); get_var_name_generator seeds the fresh-name generator with every name read or written by a statement and every structural name; apply_statement_rewriter hands the rewriter generators seeded from all statements of the tree and from the tree itself (so, with A-UNG, no introduced name captures a user name); isolate_call delegates to the inherited mapper with the arity the overridden mapper needs and builds its statement with the guard, base|sub dependencies and fresh names. Proved semantically (rewriter contract RW, for every state: the introduced statements executed in list order leave every known name unchanged, make the returned expression evaluate to the value of the rewritten one where the guard holds, and do nothing where it does not): ExprIfThenElseExpander.map_if and ExprFunctionArgumentIsolator.isolate_arg, given RW for self.rec; flat_LogicalAnd; provenance contracts (fresh names / ids are exactly the generators' results, guard out of the mapper's reach and restored, dependencies on everything introduced, rewritten statement last) for SelfDependencyEliminator.map_statement and the three statement-level drivers. NOT proved: the composition from expressions to whole statements and phases, isolate_call's value clause, calls as events - the bounded stand-in decides those (independent executor before/after each pass and in the Fortran pass order).",
    note="Category other: semantic preservation of program transformations over all programs is not within reach of the per-function contracts built here. Known findings D20 (calls hoisted out of untaken conditional-expression branches), D41, D42 (consequences of flatten() in Assign.__init__) listed by fingerprint.",
    technique="contract-based deductive verification: freshness / guard / call-shape clauses, a state-based semantic contract (arrays as states, frame axiom) for two expression rewriters + bounded semantic stand-in",
    ref="6/C07"),
}

NOT_APPLICABLE = {
 "C03": "about the behaviour of gfortran-compiled emitted text; no contract on the Python printer functions can express it without a Fortran semantics (translation validation, a different family)",
 "C12": "allocation/release happen in the compiled Fortran program; a contract on the printing functions cannot state exactly-once release on every path of the printed program",
}
NOT_BUILT = []

def main():
    checks = []
    for pid, c in sorted(CLAIMED.items()):
        checks.append({
            "property_id": pid,
            "quick_cmd": "./check %s --tier quick" % pid,
            "thorough_cmd": "./check %s --tier thorough" % pid,
            "evidence_file": "/verif/evidence/%s.json" % pid,
            "replay_cmd_template": "./check %s --replay {path}" % pid,
            "engine": "pyvc",
            "level_claimed": {"category": c["cat"], "text": c["text"], "design_ref": "DESIGN.md section " + c["ref"]},
            "level_note": c["note"],
            "technique": c["technique"],
        })
    na = [{"property_id": k, "reason": v} for k, v in sorted(NOT_APPLICABLE.items())]
    for pid in NOT_BUILT:
        if pid not in CLAIMED:
            na.append({"property_id": pid, "reason": "check not built yet in this round (planned, see DESIGN.md section 8); not claimed"})
    m = {
        "version": 1,
        "setup_cmd": "./setup.sh",
        "hooks": {"guard": "DAGRT_VERIF", "enable": "no source hooks: contracts are sidecar files under /verif/contracts keyed by (path, qualified name); checks read /repo's working tree directly",
                  "baseline_off_cmd": "cd /repo && /venv/bin/python -m pytest -ra -q -p no:cacheprovider --timeout=900 --continue-on-collection-errors",
                  "source_commits": [], "add_only": True},
        "engines": [{"name": "pyvc", "path": "/verif/pyvc", "serves_properties": sorted(CLAIMED),
                     "kind_free_text": "verification-condition generator for a Python subset: symbolic execution of the real functions' ast against sidecar contracts (pre/post, loop invariants, ghost state), obligations discharged by z3 (API) with cvc5 as second opinion; native replay + bounded stand-in under /venv/bin/python"}],
        "checks": checks,
        "not_applicable": sorted(na, key=lambda d: d["property_id"]),
        "notes": "Exit codes of ./check: 0 held, 1 violation (VIOLATION line), 2 undecided, 3 engine/assumption failure. fix: commits in /repo are listed in known_findings.json under 'fixed'.",
    }
    with open(os.path.join(HERE, "MANIFEST.json"), "w") as f:
        json.dump(m, f, indent=1)
    print("wrote MANIFEST.json with", len(checks), "checks")

if __name__ == "__main__":
    main()
