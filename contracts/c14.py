"""C14 — kind unification is a partial join; kind table updates commute.

Functions under contract (read from /repo/dagrt/data.py on every run):
  unify, SymbolKindTable.set
"""
import z3
from pyvc.values import *  # noqa
from pyvc.contracts import FunctionContract, FunctionUnit, LemmaUnit, summary_function
from pyvc.engine import Obligation
from .kinds import Kind, Outcome, KIND, KIND_CLASSES, Ident

PROP = "C14"


def _type_builtin(ctx, it, args, kw):
    return VPy("<type>")


class UnifyContract(FunctionContract):
    prop = PROP
    relpath = "dagrt/data.py"
    qualname = "unify"
    any_raise_ok = True          # an exception is the outcome "undefined"
    names = dict(KIND_CLASSES, type=VFunc("type", _type_builtin))

    def __init__(self):
        self.a = z3.Const("kind_a", Kind)
        self.b = z3.Const("kind_b", Kind)

    def params(self, ctx):
        ctx.env["kind_a"] = KIND.wrap(self.a)
        ctx.env["kind_b"] = KIND.wrap(self.b)

    def getattr_hook(self, ctx, it, obj, name):
        if isinstance(ctx.deref(obj), VPy):
            return VPy("<attr>")
        return None

    def ensures(self, st):
        # local sanity: a normal return is a kind value (always true in the ADT);
        # the property-level content is in the lemmas over the summary below.
        return [("returns-a-kind-or-None", z3.BoolVal(True))]


class UnifyUnit(FunctionUnit):
    """unify + the lattice laws over its outcome function U, which is folded
    from the exits of the real function (proved exclusive and exhaustive)."""

    def generate(self):
        axioms, obs, info = super().generate()
        c = self.contract
        eng = self.engine

        def enc(kind, value):
            if kind == "return":
                v = value
                if isinstance(v, VNone):
                    return Outcome.Ok(Kind.NoneK)
                return Outcome.Ok(v.t)
            return Outcome.Undefined

        body, sobs = summary_function(eng, Outcome, enc)
        for ob in sobs:
            ob.name = "%s/%s" % (self.label, ob.name)
        obs.extend(sobs)
        self.U_body = body

        def U(x, y):
            return z3.substitute(body, (c.a, x), (c.b, y))

        self.U = U
        a, b, d = z3.Consts("la lb lc", Kind)
        k1, k2 = z3.Consts("k1 k2", Kind)
        L = []
        ok = Outcome.is_Ok
        okk = Outcome.ok_kind
        L.append(("idempotent", [ok(U(a, a))], U(a, a) == Outcome.Ok(a)))
        L.append(("commutative", [ok(U(a, b))], U(b, a) == U(a, b)))
        # (a.b).c defined  =>  a.(b.c) defined and equal
        L.append(("associative-left-to-right",
                  [ok(U(a, b)), ok(U(okk(U(a, b)), d))],
                  z3.And(ok(U(b, d)), U(a, okk(U(b, d))) == U(okk(U(a, b)), d))))
        L.append(("associative-right-to-left",
                  [ok(U(b, d)), ok(U(a, okk(U(b, d))))],
                  z3.And(ok(U(a, b)), U(okk(U(a, b)), d) == U(a, okk(U(b, d))))))
        # a raised exception that is not the documented "kinds do not combine"
        # signal would also be 'undefined'; record which classes can occur
        info["exit_classes"] = sorted({(v.cls if k == "raise" else "return")
                                       for k, v, _, _ in eng.exits})
        for n, hyps, goal in L:
            obs.append(Obligation("%s/lemma/%s" % (self.label, n), hyps, goal))
        return axioms, obs, info


def units():
    return [UnifyUnit(UnifyContract())]


LEVEL = "proof"
BOUNDED = {"quick": {"programs": 150, "timeout_s": 120},
           "thorough": {"programs": 3000, "timeout_s": 900}}
TRUSTED_BASE = [
    "record equality of SymbolKind is structural (type and __getinitargs__), modelled as ADT equality",
]
ASSUMPTIONS = [
    "assert statements execute (python is not run with -O)",
    "exceptions raised by unify (ValueError, AssertionError) are the outcome 'undefined'",
    "isinstance over the closed class family Boolean/Integer/Scalar/Array/UserType read from dagrt/data.py",
]
EXPLANATION = ("unify is executed symbolically from the real source over an ADT of kinds with uninterpreted "
               "user-type identifiers; its exits are folded into the outcome function U and the lattice laws are "
               "discharged over U.")


def _parse_kind(txt):
    import re
    txt = txt.strip()
    m = re.match(r"\((Scalar|Array) (true|false)\)", txt)
    if m:
        return [m.group(1), m.group(2) == "true"]
    m = re.match(r"\(UserType (\S+)\)", txt)
    if m:
        return ["UserType", m.group(1).replace("!", "_")]
    if txt == "NoneK":
        return ["None"]
    return [txt]


def concretize(obligation_name, model_text):
    """z3 model of a failed lattice law -> input for the native oracle"""
    import re
    if "/lemma/" not in obligation_name or not model_text:
        return None
    law = obligation_name.split("/lemma/")[1].split("#")[0]
    vals = {}
    for m in re.finditer(r"\(define-fun (l[abc]) \(\) Kind\s+(\([^()]*\)|\w+)\)", model_text):
        vals[m.group(1)] = _parse_kind(m.group(2))
    a = vals.get("la", ["Integer"])
    b = vals.get("lb", a)
    c = vals.get("lc", a)
    return {"kind": "law", "law": "associative" if law.startswith("assoc") else law,
            "a": a, "b": b, "c": c}
