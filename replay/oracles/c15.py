"""Native oracle for C15 (generated source text is a pure function of the method description).

Drives the REAL generators: dagrt.codegen.python.CodeGenerator and dagrt.codegen.fortran.CodeGenerator
(text only, nothing is compiled), and the real NumpyInterpreter.

Input (JSON):
  {"program": <builder program in the format of replay/oracles/c01.py>,
   "fortran": null | {"types": {"y": 10, ...},              # user type name -> array length
                      "rhs": {"<func>f": "y", ...},          # ODE right-hand sides f(t, <type>) -> <type>
                      "pairs": {"<func>g": "y", ...},        # g(a, b) -> (ra, rb), all of user type <type>
                      "instrumentation": bool},
   "other": <another input of this form, without "other">}  # the method a previous generator object produced
The method description is the sequence of builder calls (+ the Fortran type map and function registry).
From it the real CodeBuilder produces the DAGCode; the description is then *presented* in several ways
that must not matter:
  canon     phases as the builder returns them (`statements` a frozenset)
  list      `statements` a list in call order
  shuffle-k `statements` a list shuffled with seed k, every `depends_on` frozenset rebuilt from a shuffled list
  revdict   as `list`, but the `phases` dict filled in reverse order        (clause "...:phase-dict-order")
and generated in sub-processes with PYTHONHASHSEED in HASHSEEDS (sys.executable; every second one goes
through the batch in the opposite order); in each of them all presentations are generated, and the
description once more after separate generator objects produced "other".  All Python texts must be
byte-identical, all Fortran texts must be byte-identical (or generation must fail identically), and the
interpreter's events/states must be identical -- within each process and between the processes.  Nothing
is generated in the calling process, so the verdict does not depend on its own hash seed.
"""
import json
import os
import random
import subprocess
import sys
import time

from dagrt import language as lang
from dagrt.codegen.python import CodeGenerator as PyCodeGenerator
import dagrt.codegen.fortran as F
from dagrt.function_registry import base_function_registry, register_ode_rhs, register_function
from dagrt.data import UserType
from pytools import natsorted

from replay.oracles import c01 as B

HASHSEEDS = ["0", "1", "2", "12345"]


def _refusal(ex):
    """a refusal is compared by exception class and message; the repr of a set inside the message (its element order is
    not source text and follows the hash seed) is put in sorted order"""
    import re
    msg = re.sub(r"\{([^{}]*)\}", lambda m: "{" + ", ".join(sorted(x.strip() for x in m.group(1).split(","))) + "}", str(ex))
    return "ERROR %s: %s" % (type(ex).__name__, msg)


# ---- presentations of one description -----------------------------------------------------------------------

def present(code, how):
    """the same method, its containers filled in another order"""
    if how == "canon":
        return code
    items = list(code.phases.items())
    if how == "revdict":
        items.reverse()
    phases = {}
    for name, ph in items:
        stmts = natsorted(ph.statements, key=lambda s: s.id)
        if how.startswith("shuffle-"):
            rng = random.Random("%s/%s" % (how, name))
            rng.shuffle(stmts)
            new = []
            for s in stmts:
                deps = sorted(s.depends_on)
                rng.shuffle(deps)
                new.append(s.copy(depends_on=frozenset(deps)))
            stmts = new
        phases[name] = lang.ExecutionPhase(name=name, next_phase=ph.next_phase, statements=stmts)
    return lang.DAGCode(phases=phases, initial_phase=code.initial_phase)


# ---- the three producers -----------------------------------------------------------------------------------

def python_text(code):
    try:
        return PyCodeGenerator("Method")(code)
    except Exception as ex:     # noqa: BLE001
        return _refusal(ex)


_REG = {}


def registry(fspec):
    """the function registry part of the description (built once per distinct spec: compiling the mako
    templates of CallCode is slow and is not what is under test)"""
    k = json.dumps([fspec.get("rhs", {}), fspec.get("pairs", {})], sort_keys=True)
    if k not in _REG:
        _REG[k] = _registry(fspec)
    return _REG[k]


def _registry(fspec):
    freg = base_function_registry
    for fname in sorted(fspec.get("rhs", {})):
        ty = fspec["rhs"][fname]
        freg = register_ode_rhs(freg, ty, identifier=fname, input_names=("y",))
        freg = freg.register_codegen(fname, "fortran", F.CallCode("""
                ${result} = -0.5d0*${y} + ${t}
                """))
    for fname in sorted(fspec.get("pairs", {})):
        ty = fspec["pairs"][fname]
        freg = register_function(freg, fname, ("a", "b"), result_names=("ra", "rb"),
                                 result_kinds=(UserType(ty), UserType(ty)))
        freg = freg.register_codegen(fname, "fortran", F.CallCode("""
                ${ra} = ${a} + ${b}
                ${rb} = ${a} - ${b}
                """))
    return freg


def fortran_text(code, fspec, implicit_index_vars=False):
    try:
        tmap = {}
        for ty in sorted(fspec["types"]):
            if implicit_index_vars:
                tmap[ty] = F.ArrayType((fspec["types"][ty],), F.BuiltinType("real*8"))
            else:
                tmap[ty] = F.ArrayType((fspec["types"][ty],), F.BuiltinType("real*8"), index_vars="idx")
        kw = {}
        if fspec.get("instrumentation"):
            kw = dict(emit_instrumentation=True, timing_function="second")
        if fspec.get("callbacks"):
            kw.update(call_before_state_update="notify_pre_state_update", call_after_state_update="notify_post_state_update")
        cg = F.CodeGenerator("method", function_registry=registry(fspec), user_type_map=tmap, **kw)
        return cg(code)
    except Exception as ex:     # noqa: BLE001
        return _refusal(ex)


def interp_trace(code, prog):
    try:
        st = B.Stepper("interp", code, B.function_map(prog))
        st.set_up(prog["t0"], prog["dt"], prog["state"])
        return json.dumps(B.drive(st, prog["run"], prog.get("cap", 24)), sort_keys=True, default=str)
    except Exception as ex:     # noqa: BLE001
        return _refusal(ex)


def confusable_ids(code):
    """the same method with statement ids that collide under 'natural' / case-folding comparisons
    (s_1 / s_01, s_2 / s_02, ...): ids are arbitrary distinct strings as far as the property is concerned"""
    phases = {}
    for k, (name, ph) in enumerate(code.phases.items()):
        old = [s.id for s in natsorted(ph.statements, key=lambda s: s.id)]
        ren = {o: "p%ds_%s%d" % (k, "0" if i % 2 else "", i // 2 + 1) for i, o in enumerate(old)}
        stmts = [s.copy(id=ren[s.id], depends_on=frozenset(ren.get(d, d) for d in s.depends_on))
                 for s in ph.statements]
        phases[name] = lang.ExecutionPhase(name=name, next_phase=ph.next_phase, statements=stmts)
    return lang.DAGCode(phases=phases, initial_phase=code.initial_phase)


def produce(inp, hows):
    """{how: {"py": text, "f": text|None, "run": trace-json}}"""
    out = {}
    code = B.build_code(inp["program"])
    if inp.get("ids") == "confusable":
        code = confusable_ids(code)
    for how in hows:
        c = present(code, how)
        r = {"py": python_text(c), "f": None, "run": interp_trace(c, inp["program"])}
        if inp.get("fortran"):
            r["f"] = fortran_text(c, inp["fortran"])
        out[how] = r
    return out


# ---- sub-process worker ----------------------------------------------------------------------------------------
# Everything that is compared is produced in sub-processes with a FIXED hash seed, so that the verdict
# does not depend on the (possibly randomised) hash seed of the process that runs this oracle.

KEYS = (("py", "text-python"), ("f", "text-fortran"), ("run", "interpreter"))
FULL_HOWS = ["canon", "list", "shuffle-1", "shuffle-2", "shuffle-3", "revdict"]     # replay, thorough tier
QUICK_HOWS = ["canon", "shuffle-1", "revdict"]


def worker_one(inp, hows):
    here = produce(inp, hows)
    base = here["canon"]
    res = {"canon": base, "differs": {}, "again": {}}
    for how in hows[1:]:
        for key, _ in KEYS:
            if here[how][key] != base[key]:
                res["differs"].setdefault(how, {})[key] = here[how][key]
    # history: separate generator objects produce another method, then this one again
    if inp.get("other"):
        produce(inp["other"], ["canon"])
    again = produce(inp, ["canon"])["canon"]
    for key, _ in KEYS:
        if again[key] != base[key]:
            res["again"][key] = again[key]
    # history on ONE method object: a separate generator object with another configuration (instrumented, with state-update
    # callbacks) generates from the same DAGCode object in between
    if inp.get("fortran") and "f" not in res["again"]:
        code = B.build_code(inp["program"])
        if inp.get("ids") == "confusable":
            code = confusable_ids(code)
        c = present(code, "canon")
        for own in (inp["fortran"], dict(inp["fortran"], instrumentation=True)):
            f1 = fortran_text(c, own)
            fortran_text(c, dict(inp["fortran"], instrumentation=True, callbacks=True))
            f2 = fortran_text(c, own)
            if f1 != f2:
                res["again"]["f"] = f2
                break
    return res


def worker_main():
    real = sys.stdout
    sys.stdout = sys.stderr
    req = json.loads(sys.stdin.read())
    res = [None] * len(req["inputs"])
    order = list(range(len(req["inputs"])))
    if req.get("reverse"):
        order.reverse()
    for i in order:
        try:
            res[i] = worker_one(req["inputs"][i], req["hows"])
        except Exception as ex:     # noqa: BLE001
            res[i] = {"error": "%s: %s" % (type(ex).__name__, ex)}
    real.write(json.dumps({"hashseed": os.environ.get("PYTHONHASHSEED"), "results": res}))
    real.flush()


def start_workers(inputs, hows, seeds=HASHSEEDS):
    """one sub-process per hash seed, all inputs in one batch"""
    import threading
    env_base = dict(os.environ)
    env_base["PYTHONPATH"] = os.pathsep.join(p for p in sys.path if p)
    results = {}
    threads = []

    def talk(seed, p, data):
        o, _ = p.communicate(data.encode())
        results[seed] = o

    for n, seed in enumerate(seeds):
        env = dict(env_base, PYTHONHASHSEED=seed)
        p = subprocess.Popen([sys.executable, "-c", "from replay.oracles import c15; c15.worker_main()"],
                             stdin=subprocess.PIPE, stdout=subprocess.PIPE, stderr=subprocess.DEVNULL, env=env)
        data = json.dumps({"inputs": inputs, "hows": hows, "reverse": n % 2 == 1})
        t = threading.Thread(target=talk, args=(seed, p, data))
        t.start()
        threads.append(t)
    return seeds, threads, results


def finish_workers(handle):
    """-> {seed: [per-input results]}"""
    seeds, threads, results = handle
    for t in threads:
        t.join()
    out = {}
    for seed in seeds:
        try:
            out[seed] = json.loads(results[seed].decode())["results"]
        except Exception as ex:     # noqa: BLE001
            raise RuntimeError("worker with PYTHONHASHSEED=%s failed: %r" % (seed, ex))
    return out


def run_workers(inputs, hows, seeds=HASHSEEDS):
    return finish_workers(start_workers(inputs, hows, seeds))


# ---- the oracle ------------------------------------------------------------------------------------------------

def text_diff(a, b):
    if a is None or b is None:
        return "%s vs %s" % ("text" if a is not None else None, "text" if b is not None else None)
    la, lb = a.split("\n"), b.split("\n")
    for i, (x, y) in enumerate(zip(la, lb)):
        if x != y:
            return "line %d: %r vs %r" % (i + 1, x.strip()[:100], y.strip()[:100])
    return "lengths %d vs %d lines" % (len(la), len(lb))


def evaluate(wres):
    """wres: {seed: worker_one result} for one input.
    -> {"status", "clauses": {clause: detail}, "pairs": {clause: (text a, text b)}, ...}"""
    clauses, pairs = {}, {}

    def note(clause, what, a, b):
        if clause not in clauses:
            clauses[clause] = "%s: %s" % (what, text_diff(a, b))
            pairs[clause] = (a, b)

    seeds = sorted(wres, key=lambda s: HASHSEEDS.index(s) if s in HASHSEEDS else 99)
    for seed in seeds:
        if "error" in wres[seed]:
            return {"status": "error", "clauses": {"worker": "PYTHONHASHSEED=%s: %s" % (seed, wres[seed]["error"])},
                    "pairs": {}, "fortran_ok": False, "python_ok": False, "fortran_error": None}
    first = wres[seeds[0]]["canon"]
    labels = dict(KEYS)
    for seed in seeds:
        r = wres[seed]
        # (a) container orders, within one process
        for how in sorted(r["differs"]):
            for key in sorted(r["differs"][how]):
                cl = "%s:%s" % (labels[key], "phase-dict-order" if how == "revdict" else "container-order")
                note(cl, "as built vs %s (PYTHONHASHSEED=%s)" % (how, seed), r["canon"][key], r["differs"][how][key])
        # (c) history, within one process
        for key in sorted(r["again"]):
            note("%s:history" % labels[key], "first vs second generation in one process (PYTHONHASHSEED=%s)" % seed,
                 r["canon"][key], r["again"][key])
        # (b) hash seeds (the workers also go through the batch in different orders)
        for key, label in KEYS:
            if r["canon"][key] != first[key]:
                note("%s:hashseed" % label, "PYTHONHASHSEED=%s vs %s" % (seeds[0], seed), first[key], r["canon"][key])
    f = first["f"]
    return {"status": "fail" if clauses else "ok", "clauses": clauses, "pairs": pairs,
            "fortran_ok": bool(f) and not f.startswith("ERROR"),
            "python_ok": not first["py"].startswith("ERROR"),
            "fortran_error": f if f and f.startswith("ERROR") else None}


# ---- fingerprints -----------------------------------------------------------------------------------------------

_LAST = {}      # key_of(inp) -> evaluation (so that fingerprints do not launch sub-processes again)


def evaluation_of(inp):
    k = B.key_of(inp)
    if k not in _LAST:
        w = run_workers([inp], FULL_HOWS)
        _LAST[k] = evaluate({s: w[s][0] for s in w})
    return _LAST[k]


def _release_or_copy_line(ln):
    s = ln.strip()
    return (s == "" or s.startswith("call dagrt_deinit_") or s.startswith("! {{{ temp_") or s == "! }}}"
            or s.startswith("lploc_temp_") or s.startswith("dagrt_refcnt_temp_")
            or s.startswith("call dagrt_alloc_check_") and "temp_" in s
            or s.startswith("lploc_") and "temp_" in s or s.startswith("&") or s.endswith("&"))


def fp_d17(inp):
    """D17: copy-in temporaries of a statement that reads and writes >= 2 names
    (SelfDependencyEliminator) and the release calls after the last use of >= 2 names
    (emit_deinit_for_last_usage_of_vars) come out in set-iteration order.  Narrow: only the Fortran text
    differs, only between hash seeds, the two texts consist of the same lines, and every line that is at
    a different position is a release call or belongs to a `temp_...` copy-in statement."""
    v = evaluation_of(inp)
    if v["status"] != "fail" or set(v["clauses"]) != {"text-fortran:hashseed"}:
        return False
    a, b = v["pairs"]["text-fortran:hashseed"]
    la, lb = a.split("\n"), b.split("\n")
    if len(la) != len(lb) or sorted(la) != sorted(lb):
        return False
    return all(_release_or_copy_line(x) and _release_or_copy_line(y) for x, y in zip(la, lb) if x != y)


def fp_d25(inp):
    """D25: the Python generator emits the phase functions and the transition table in `dag.phases`
    dict order.  Narrow: only the Python text differs and only for the presentation whose phases dict
    was filled in another order."""
    v = evaluation_of(inp)
    return v["status"] == "fail" and set(v["clauses"]) == {"text-python:phase-dict-order"} \
        and len(inp["program"]["phases"]) >= 2


def fp_d17_d25(inp):
    v = evaluation_of(inp)
    if v["status"] != "fail" or set(v["clauses"]) != {"text-fortran:hashseed", "text-python:phase-dict-order"}:
        return False
    a, b = v["pairs"]["text-fortran:hashseed"]
    la, lb = a.split("\n"), b.split("\n")
    return len(la) == len(lb) and sorted(la) == sorted(lb) and len(inp["program"]["phases"]) >= 2 and \
        all(_release_or_copy_line(x) and _release_or_copy_line(y) for x, y in zip(la, lb) if x != y)


FINGERPRINTS = {"D17": fp_d17, "D25": fp_d25}


def explain(inp):
    if fp_d17(inp):
        return ["D17"]
    if fp_d25(inp):
        return ["D25"]
    if fp_d17_d25(inp):
        return ["D17", "D25"]
    return None


# ---- input generation ------------------------------------------------------------------------------------------

class OdeGen:
    """method descriptions in the style of real time integrators (usable by the Fortran generator):
    a user-type state <state>y, right-hand side calls, vector temporaries, norms, scalar step-size logic"""

    def __init__(self, rng, multi=False):
        self.rng = rng
        self.multi = multi      # several ODE components (<state>y, <state>z, <state>w, each yielded) and dense linear algebra

    def t_expr(self):
        return self.rng.choice(["<t>", ["+", "<t>", "<dt>"], ["+", "<t>", ["*", 0.5, "<dt>"]]])

    def vec_atom(self, env):
        return self.rng.choice(sorted(env["vecs"]))

    def vec_expr(self, env, depth=0):
        rng = self.rng
        r = rng.random()
        if depth >= 2 or r < 0.25:
            return self.vec_atom(env)
        if r < 0.6:
            return ["+", self.vec_expr(env, depth + 1), ["*", self.scal_expr(env, 1), self.vec_atom(env)]]
        if r < 0.75:
            return ["*", rng.choice([0.5, 2, "<dt>"]), self.vec_atom(env)]
        if r < 0.9:
            return ["+", self.vec_atom(env), self.vec_atom(env)]
        f = rng.choice(sorted(self.rhs))
        if rng.random() < 0.3:
            return ["call", f, [], {"t": self.t_expr(), "y": self.vec_expr(env, depth + 1)}]
        return ["call", f, [self.t_expr(), self.vec_expr(env, depth + 1)], {}]

    def scal_expr(self, env, depth=0):
        rng = self.rng
        r = rng.random()
        if depth >= 2 or r < 0.4:
            if rng.random() < 0.4:
                return rng.choice([0.5, 1, 2, 0.25])
            return rng.choice(sorted(env["scals"]))
        if r < 0.7:
            return [rng.choice(["+", "*", "-"]), self.scal_expr(env, depth + 1), self.scal_expr(env, 2)]
        if r < 0.8:
            return ["/", self.scal_expr(env, depth + 1), 2]
        return ["call", "<builtin>norm_2", [self.vec_atom(env)], {}]

    def fresh(self, env, prefix):
        i = 0
        while "%s%d" % (prefix, i) in env["used"]:
            i += 1
        env["used"].add("%s%d" % (prefix, i))
        return "%s%d" % (prefix, i)

    def block(self, env, n, depth):
        rng = self.rng
        out = []
        for _ in range(n):
            r = rng.random()
            temps = sorted(v for v in env["vecs"] if not v.startswith("<"))
            if self.multi and r >= 0.88 and not env.get("in_if"):
                # dense linear algebra built-ins (their Fortran templates are module-level CallCode objects)
                n_el = rng.choice([2, 3])
                m = self.fresh(env, "m")
                out.append(["assign", m, ["call", "<builtin>array", [n_el * n_el], {}]])
                out.append(["assign_sub", m, "i", ["+", "i", self.scal_expr(env, 2)], [["i", 0, n_el * n_el]]])
                which = rng.choice(["matmul", "transpose", "linear_solve", "matmul+transpose"])
                res = self.fresh(env, "m")
                if which == "transpose":
                    out.append(["assign", res, ["call", "<builtin>transpose", [m, n_el], {}]])
                elif which == "linear_solve":
                    out.append(["assign_sub", m, ["+", ["*", "i", n_el], "i"], 5, [["i", 0, n_el]]])
                    out.append(["assign", res, ["call", "<builtin>linear_solve", [m, m, n_el, n_el], {}]])
                else:
                    out.append(["assign", res, ["call", "<builtin>matmul", [m, m, n_el, n_el], {}]])
                    if which.endswith("transpose"):
                        r2_ = self.fresh(env, "m")
                        out.append(["assign", r2_, ["call", "<builtin>transpose", [res, n_el], {}]])
                        res = r2_
                sc = self.fresh(env, "s")
                out.append(["assign", sc, ["[]", res, rng.randrange(n_el * n_el)]])
                env["scals"].add(sc)
            elif r < 0.2:
                k = self.fresh(env, "k")
                out.append(["call", [k], rng.choice(sorted(self.rhs)), [self.t_expr(), self.vec_expr(env, 1)], {}])
                env["vecs"].add(k)
            elif r < 0.4:
                u = self.fresh(env, "u")
                out.append(["assign", u, self.vec_expr(env)])
                env["vecs"].add(u)
            elif r < 0.52 and self.pairs and len(temps) >= 2:
                a, b = rng.sample(temps, 2)
                g = rng.choice(sorted(self.pairs))
                if rng.random() < 0.6:
                    out.append(["call", [a, b], g, [a, b], {}])          # reads and writes both
                else:
                    p, q = self.fresh(env, "w"), self.fresh(env, "w")
                    out.append(["call", [p, q], g, [a, b], {}])
                    env["vecs"].update([p, q])
            elif r < 0.62:
                s = self.fresh(env, "s")
                out.append(["assign", s, self.scal_expr(env)])
                env["scals"].add(s)
            elif r < 0.74:
                out.append(["assign", "<state>y", self.vec_expr(env)])
            elif r < 0.8:
                out.append(["assign", "<p>h", self.scal_expr(env)])
            elif r < 0.86 and not env.get("in_if"):
                a = self.fresh(env, "a")
                n_el = rng.randint(2, 4)
                out.append(["assign", a, ["call", "<builtin>array", [n_el], {}]])
                out.append(["assign_sub", a, "i", ["*", "i", self.scal_expr(env, 1)], [["i", 0, n_el]]])
                s = self.fresh(env, "s")
                out.append(["assign", s, ["[]", a, rng.randrange(n_el)]])
                if rng.random() < 0.5:
                    out.append(["assign", s, ["+", s, ["[]", a, "i"]], [["i", 0, n_el]]])
                env["scals"].add(s)
            elif depth < 2:
                c = ["cmp", rng.choice(["<", ">", "<=", ">="]), self.scal_expr(env), rng.choice([0.5, 1, 2])]
                e1 = self.branch(env)
                then = self.block(e1, rng.randint(1, 2), depth + 1)
                r2 = rng.random()
                if r2 < 0.2:
                    then.append(["fail"])
                elif r2 < 0.35:
                    then.append(["switch", rng.choice(self.phase_names)])
                elif r2 < 0.42:
                    then.append(["raise", "MethodError", "no convergence"])
                elif r2 < 0.6:
                    then.append(["assign", "<dt>", ["/", "<dt>", 2]])
                els = None
                if rng.random() < 0.4:
                    els = self.block(self.branch(env), rng.randint(1, 2), depth + 1)
                out.append(["if", c, then, els])
            else:
                out.append(["assign", "<state>y", self.vec_expr(env)])
        return out

    def branch(self, env):
        e = dict(env)
        e["vecs"] = set(env["vecs"])
        e["scals"] = set(env["scals"])
        e["in_if"] = True
        return e

    def description(self):
        rng = self.rng
        nph = rng.choice([1, 2, 2, 3])
        self.phase_names = ["p%d" % i for i in range(nph)]
        self.rhs = {"<func>f": "y"}
        if rng.random() < 0.4:
            self.rhs["<func>f2"] = "y"
        self.pairs = {"<func>g": "y"} if rng.random() < 0.7 else {}
        initial = rng.choice(self.phase_names)
        phases = []
        comps = ["y"]
        if self.multi:
            comps = rng.choice([["y", "z"], ["y", "z", "w"], ["y", "pos", "vel", "chem"], ["y", "z", "w", "v"]])
        for name in self.phase_names:
            env = {"vecs": {"<state>y"}, "scals": {"<t>", "<dt>", "<p>h"}, "used": {"i"}}
            body = []
            if name == initial:
                body.append(["assign", "<p>h", rng.choice([0.5, 1])])
            body += self.block(env, rng.randint(3, 7), 0)
            # the state update uses a right-hand-side value (this is also what lets the Fortran
            # generator's kind inference find the type of <state>y)
            ks = sorted(v for v in env["vecs"] if v.startswith("k"))
            if not ks:
                k = self.fresh(env, "k")
                body.append(["call", [k], rng.choice(sorted(self.rhs)), [self.t_expr(), "<state>y"], {}])
                env["vecs"].add(k)
                ks = [k]
            temps = sorted(v for v in env["vecs"] if not v.startswith("<"))
            a = rng.choice(temps + ["<state>y"])
            body.append(["assign", "<state>y", ["+", a, ["*", self.scal_expr(env, 1), rng.choice(ks)]]])
            for c in comps[1:]:
                # every further component has a user type and a right-hand side of its own
                kc = self.fresh(env, "k" + c)
                body.append(["call", [kc], "<func>f_" + c, [self.t_expr(), "<state>" + c], {}])
                body.append(["assign", "<state>" + c, ["+", "<state>" + c, ["*", self.scal_expr(env, 1), kc]]])
            body.append(["assign", "<t>", ["+", "<t>", "<dt>"]])
            if self.multi:
                for c in comps:
                    body.append(["yield", "<state>" + c, c, "<t>", rng.choice(["final", "stage"])])
            else:
                body.append(["yield", "<state>y", "y", "<t>", rng.choice(["final", "stage"])])
            phases.append({"name": name, "next": rng.choice(self.phase_names), "body": body})
        funcs = {f: ["rhs"] for f in self.rhs}
        funcs.update({g: ["vpair"] for g in self.pairs})
        all_rhs = dict(self.rhs)
        for c in comps[1:]:
            funcs["<func>f_" + c] = ["rhs"]
            all_rhs["<func>f_" + c] = c
        prog = {"phases": phases, "initial": initial, "funcs": funcs,
                "state": ({c: [rng.choice([0.5, 1, -2]) for _ in range(3)] for c in comps} if self.multi else
                          {"y": [rng.choice([0.5, 1, -2]) for _ in range(3)]}), "t0": 0, "dt": 0.25,
                "run": {"max_steps": 3, "t_end": None}, "cap": 24}
        return {"program": prog,
                "fortran": {"types": dict({"y": rng.choice([3, 10])}, **{c: 3 for c in comps[1:]}), "rhs": all_rhs,
                            "pairs": self.pairs,
                            "instrumentation": rng.random() < 0.3}}


def builder_description(rng):
    """a general builder program (c01 generator): Python text and interpreter only"""
    g = B.Gen(rng, zero_trip=False, ret_names=False, guarded_bounds=False, printer_stress=False,
              builtin_kwargs=False)
    while True:
        prog = g.program()
        try:
            B.build_code(prog)
        except (ValueError, TypeError):     # the builder refuses the call sequence: not a description
            continue
        return {"program": prog, "fortran": None}


# ---- entry points --------------------------------------------------------------------------------------------------

def strip_other(inp):
    return {k: v for k, v in inp.items() if k != "other"}


def failure_detail(v):
    return "; ".join("[%s] %s" % (c, d) for c, d in sorted(v["clauses"].items()))


def replay(inp):
    try:
        w = run_workers([inp], FULL_HOWS)
        v = evaluate({s: w[s][0] for s in w})
    except Exception as ex:     # noqa: BLE001
        return {"error": "%s: %s" % (type(ex).__name__, ex)}
    if v["status"] == "error":
        return {"error": failure_detail(v)}
    _LAST[B.key_of(inp)] = v
    if v["status"] == "ok":
        return {"fails": False, "detail": None}
    ex = explain(inp)
    return {"fails": True, "detail": failure_detail(v), "matches_fingerprint": "+".join(ex) if ex else None}


def bounded(payload):
    t0 = time.time()
    budget = payload.get("budget", {}) or {}
    tier = payload.get("tier", "quick")
    seed = payload.get("seed", 0)
    rng = random.Random(seed)
    n_ode = budget.get("ode_methods", 60 if tier == "quick" else 500)
    n_gen = budget.get("builder_programs", 60 if tier == "quick" else 500)
    chunk = budget.get("chunk", 200)
    wall = budget.get("wall_s", 20 if tier == "quick" else 280)
    hows = QUICK_HOWS if tier == "quick" else FULL_HOWS
    active = {e.get("fingerprint") for e in payload.get("known", []) if e.get("fingerprint") in FINGERPRINTS}

    og = OdeGen(rng)
    odes = [og.description() for _ in range(n_ode)]
    gens = [builder_description(rng) for _ in range(n_gen)]
    # third population (own random stream): several ODE components, dense linear algebra built-ins
    n_multi = budget.get("multi_component_methods", 24 if tier == "quick" else 200)
    om = OdeGen(random.Random("multi/%s" % seed), multi=True)
    multis = [om.description() for _ in range(n_multi)]
    for m_ in multis:
        m_["population"] = "multi"
    base = []                         # interleaved, so that a cut-off run still covers all populations
    for i in range(max(n_ode, n_gen)):
        base += odes[i:i + 1] + gens[i:i + 1]
    for pop in (base, multis):
        for i, inp in enumerate(pop):
            if i % 3 == 2:
                inp["ids"] = "confusable"        # statement ids that tie under natural-sort / numeric-suffix keys
        for i, inp in enumerate(pop):
            inp["other"] = strip_other(pop[i - 1]) if i else strip_other(pop[-1])
    inputs = []
    stride = max(1, len(base) // max(1, len(multis)))
    for i, inp in enumerate(base):
        inputs.append(inp)
        if i % stride == stride - 1 and i // stride < len(multis):
            inputs.append(multis[i // stride])
    inputs += [m_ for m_ in multis if not any(m_ is x for x in inputs)]

    failures, known_hits = [], []
    per_class = {}
    parts = {"ode_methods": 0, "builder_programs": 0, "multi_component_linalg_methods": 0, "fortran_text_generated": 0, "fortran_generation_refused": 0,
             "subprocess_launches": 0, "failing_inputs": 0, "fingerprint_hits": {},
             "suppressed_by_active_fingerprint": 0, "clauses_failed": {}, "texts_compared": 0}
    refusals = {}
    distinct = set()
    evals = 0
    complete = True
    for c0 in range(0, len(inputs), chunk):
        if time.time() - t0 > wall * 0.8:
            complete = False
            break
        batch = inputs[c0:c0 + chunk]
        w = run_workers(batch, hows)
        parts["subprocess_launches"] += len(w)
        for j, inp in enumerate(batch):
            v = evaluate({s: w[s][j] for s in w})
            if v["status"] == "error":
                parts["worker_errors"] = parts.get("worker_errors", 0) + 1
                continue
            _LAST.clear()
            _LAST[B.key_of(inp)] = v
            evals += 1
            parts["multi_component_linalg_methods" if inp.get("population") == "multi" else
                  "ode_methods" if inp["fortran"] else "builder_programs"] += 1
            parts["texts_compared"] += len(w) * (len(hows) + 1) * (2 if inp["fortran"] else 1)
            if inp["fortran"]:
                if v["fortran_ok"]:
                    parts["fortran_text_generated"] += 1
                else:
                    parts["fortran_generation_refused"] += 1
                    k = (v["fortran_error"] or "")[:80]
                    refusals[k] = refusals.get(k, 0) + 1
            if v["python_ok"] and (v["fortran_ok"] or not inp["fortran"]):
                distinct.add(B.key_of(strip_other(inp)))
            if v["status"] != "fail":
                continue
            parts["failing_inputs"] += 1
            for c in v["clauses"]:
                parts["clauses_failed"][c] = parts["clauses_failed"].get(c, 0) + 1
            ex = explain(inp)
            fp = "+".join(ex) if ex else None
            if fp:
                parts["fingerprint_hits"][fp] = parts["fingerprint_hits"].get(fp, 0) + 1
                if set(ex) <= active:
                    parts["suppressed_by_active_fingerprint"] += 1
                    continue
            sig = (fp, tuple(sorted(v["clauses"])))
            per_class[sig] = per_class.get(sig, 0) + 1
            if per_class[sig] <= 2:
                f = {"oracle": sorted(v["clauses"])[0], "input": inp, "detail": failure_detail(v)}
                if fp:
                    f["matches_fingerprint"] = fp
                failures.append(f)
    parts["fortran_refusal_reasons"] = refusals

    # the process-global counter behind ArrayType's default index names (an assumption on the inputs in
    # DESIGN.md, reported as an observation only)
    probe = next((i for i in inputs if i["fortran"]), None)
    if probe is not None:
        code = B.build_code(probe["program"])
        a = fortran_text(code, probe["fortran"], implicit_index_vars=True)
        b = fortran_text(code, probe["fortran"], implicit_index_vars=True)
        parts["observation_type_map_rebuilt_without_index_vars_changes_text"] = a != b

    for e in payload.get("known", []):
        try:
            r = replay(e["native"])
        except Exception:       # noqa: BLE001
            continue
        if r.get("fails"):
            known_hits.append("%s: %s" % (e["id"], e["what"]))
    parts["failure_classes"] = {json.dumps([k[0], list(k[1])]): n for k, n in sorted(per_class.items(), key=str)}
    samples = [strip_other(x) for x in (odes[:1] + gens[:1])]
    return {"evaluations": evals, "distinct_nontrivial": len(distinct),
            "rule": "seeded random method descriptions: (i) integrator-style methods over a user-type state "
                    "(right-hand-side calls incl. nested and keyword form, vector temporaries, two-result "
                    "functions incl. ones that overwrite their arguments, norms, arrays with loops, "
                    "step-size logic with if_/else_, fail_step, switch_phase, raise_; 1-3 phases) given to "
                    "the Python AND the Fortran generator and the interpreter; (ii) general builder programs "
                    "of the C01 generator given to the Python generator and the interpreter; every third description with its "
                    "statement ids renamed to strings that tie under natural-sort keys (s_1 / s_01).  Each is "
                    "generated as built, with list-valued and shuffled `statements` / rebuilt `depends_on` "
                    "(1 shuffle in the quick tier, list + 3 shuffles otherwise), with the phases dict in "
                    "reverse order, and a second time after separate generator objects produced another "
                    "method -- all of this in each of 4 sub-processes (PYTHONHASHSEED 0, 1, 2, 12345; batch "
                    "order reversed in two of them), compared within and between the processes.  "
                    "Non-trivial = all applicable generators produced text; distinct = distinct descriptions.",
            "bound": "<= 3 phases, <= ~20 builder calls per phase, if-nesting <= 2; 4 hash seeds, 3-6 container "
                     "presentations, 1 preceding method; runs of 3 steps for the interpreter clause",
            "samples": samples, "failures": failures[:20], "known_hits": known_hits,
            "parts": parts, "exhaustive": False}


if __name__ == "__main__":
    worker_main()
