"""Symbolic values and type descriptors for the pyvc engine.

Every symbolic value is immutable; mutable Python containers live in heap
cells (`VRef`) so that aliasing inside one function is followed exactly.
"""
import itertools
import z3

_counter = itertools.count()


def fresh_name(base):
    return "%s!%d" % (base, next(_counter))


class Unsupported(Exception):
    """The construct is outside the modelled subset: function is *undecided*."""


# --------------------------------------------------------------------------
# type descriptors
# --------------------------------------------------------------------------

class Ty:
    sort = None

    def wrap(self, term):
        raise NotImplementedError

    def fresh(self, base="v"):
        return self.wrap(z3.Const(fresh_name(base), self.sort))

    def wf(self, term):
        """well-formedness facts that hold for every Python value of the type"""
        return []


class TInt(Ty):
    sort = z3.IntSort()

    def wrap(self, term):
        return VInt(term)


class TBool(Ty):
    sort = z3.BoolSort()

    def wrap(self, term):
        return VBool(term)


class TStr(Ty):
    sort = z3.StringSort()

    def wrap(self, term):
        return VStr(term)


class TElem(Ty):
    """Element of an uninterpreted sort or an ADT, with field accessors and a
    class test.  `fields[name] = (z3 function, result Ty)`;
    `classes[name] = lambda term: Bool` (isinstance test)."""

    def __init__(self, name, sort, fields=None, classes=None, none_test=None,
                 methods=None, truth=None, eq=None):
        self.name = name
        self.sort = sort
        self.fields = fields if fields is not None else {}
        self.classes = classes if classes is not None else {}
        self.none_test = none_test
        self.methods = methods if methods is not None else {}
        self.truth = truth
        self.eq = eq

    def wrap(self, term):
        return VElem(self, term)


class TSet(Ty):
    def __init__(self, elem):
        self.elem = elem
        self.sort = z3.ArraySort(elem.sort, z3.BoolSort())

    def wrap(self, term):
        return VSet(self, term)


class TList(Ty):
    """list / tuple / deque under index invariants: (length, Array Int->T)"""

    def __init__(self, elem):
        self.elem = elem
        self.asort = z3.ArraySort(z3.IntSort(), elem.sort)
        self.sort = None

    def wrap(self, term):
        raise Unsupported("TList has two components")

    def fresh(self, base="l"):
        n = z3.Int(fresh_name(base + "_n"))
        a = z3.Const(fresh_name(base + "_a"), self.asort)
        return VList(self, n, a)

    def make(self, n, a):
        return VList(self, n, a)


class TDict(Ty):
    def __init__(self, key, val):
        self.key = key
        self.val = val
        self.dsort = z3.ArraySort(key.sort, z3.BoolSort())
        self.vsort = z3.ArraySort(key.sort, val.sort) if val.sort is not None else None
        self.sort = None

    def fresh(self, base="d"):
        dom = z3.Const(fresh_name(base + "_dom"), self.dsort)
        val = z3.Const(fresh_name(base + "_val"), self.vsort)
        return VDict(self, dom, val)

    def make(self, dom, val):
        return VDict(self, dom, val)


class TObj(Ty):
    """A Python object with a fixed set of named fields (self, records)."""

    def __init__(self, name, fields, methods=None):
        self.name = name
        self.fields = fields  # name -> Ty
        self.methods = methods or {}

    def fresh(self, base="o"):
        return VObj(self, {k: t.fresh(base + "_" + k) for k, t in self.fields.items()})


INT = TInt()
BOOL = TBool()
STR = TStr()


# --------------------------------------------------------------------------
# values
# --------------------------------------------------------------------------

class V:
    ty = None


class VInt(V):
    ty = INT

    def __init__(self, t):
        self.t = z3.IntVal(t) if isinstance(t, int) else t

    def __repr__(self):
        return "VInt(%s)" % self.t


class VBool(V):
    ty = BOOL

    def __init__(self, t):
        self.t = z3.BoolVal(t) if isinstance(t, bool) else t

    def __repr__(self):
        return "VBool(%s)" % self.t


class VStr(V):
    ty = STR

    def __init__(self, t):
        self.t = z3.StringVal(t) if isinstance(t, str) else t

    def __repr__(self):
        return "VStr(%s)" % self.t


class VNone(V):
    def __repr__(self):
        return "VNone"


NONE = VNone()


class VTuple(V):
    def __init__(self, items):
        self.items = list(items)

    def __repr__(self):
        return "VTuple(%r)" % (self.items,)


class VElem(V):
    def __init__(self, ty, t):
        self.ty = ty
        self.t = t

    def __repr__(self):
        return "VElem(%s:%s)" % (self.ty.name, self.t)


class VSet(V):
    def __init__(self, ty, t):
        self.ty = ty
        self.t = t

    def __repr__(self):
        return "VSet(%s)" % self.t


class VList(V):
    def __init__(self, ty, n, a):
        self.ty = ty
        self.n = n
        self.a = a

    def __repr__(self):
        return "VList(%s,%s)" % (self.n, self.a)


class VDict(V):
    def __init__(self, ty, dom, val):
        self.ty = ty
        self.dom = dom
        self.val = val

    def __repr__(self):
        return "VDict(%s,%s)" % (self.dom, self.val)


class VObj(V):
    def __init__(self, ty, fields):
        self.ty = ty
        self.fields = dict(fields)

    def __repr__(self):
        return "VObj(%s)" % self.ty.name


class VRef(V):
    """pointer to a heap cell holding an immutable container value"""

    def __init__(self, loc):
        self.loc = loc

    def __repr__(self):
        return "VRef(%d)" % self.loc


class VExc(V):
    def __init__(self, cls, args=(), payload=None):
        self.cls = cls
        self.args = list(args)
        self.payload = payload or {}

    def __repr__(self):
        return "VExc(%s)" % self.cls


class VClass(V):
    """a class object: used in isinstance(), as constructor, in except clauses"""

    def __init__(self, name, construct=None):
        self.name = name
        self.construct = construct

    def __repr__(self):
        return "VClass(%s)" % self.name


class VFunc(V):
    """callable modelled by `fn(ctx, args, kwargs) -> V`"""

    def __init__(self, name, fn):
        self.name = name
        self.fn = fn

    def __repr__(self):
        return "VFunc(%s)" % self.name


class VPy(V):
    """opaque concrete Python constant (e.g. a format string) whose value is never inspected"""

    def __init__(self, py):
        self.py = py

    def __repr__(self):
        return "VPy(%r)" % (self.py,)


def empty_set(ty):
    return VSet(ty, z3.K(ty.elem.sort, z3.BoolVal(False)))


def empty_list(ty):
    return VList(ty, z3.IntVal(0), z3.Const(fresh_name("nil_a"), ty.asort))


def empty_dict(ty):
    return VDict(ty, z3.K(ty.key.sort, z3.BoolVal(False)),
                 z3.Const(fresh_name("nil_val"), ty.vsort))


class TCount(Ty):
    """a list of which only the length is tracked (e.g. lists of messages or of statements
    that are only counted): sort Int"""
    sort = z3.IntSort()
    mutable = True

    def wrap(self, term):
        return VCount(term)


class VCount(V):
    ty = None

    def __init__(self, t):
        self.t = z3.IntVal(t) if isinstance(t, int) else t
        self.ty = COUNT

    def __repr__(self):
        return "VCount(%s)" % self.t


COUNT = TCount()


class VStar(V):
    """a *starred call argument"""

    def __init__(self, value):
        self.value = value
