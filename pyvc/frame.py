"""Frame conditions ("modifies nothing reachable from R") on real functions, decided by a conservative effect analysis of the
function's AST.

What is proved for a function f and a set R of protected roots (parameters such as `self`, module-level objects, class
attributes that are shared between instances): no statement of f, of a function nested in f, or of a callee covered by a
stated summary stores into, deletes from, or calls a mutating method on an object that MAY be reachable from a root.

Every expression gets one of three levels (flow-insensitive, least fixpoint over all bindings of the function):
    0  fresh        nothing protected is reachable except through immutable values
    1  holder       a new container / object created in f that may hold references to protected objects
    2  interior     may BE a protected object or a part of one
A store `x.a = v`, `x[k] = v`, `del x[k]`, an augmented assignment to such a target, or a call of a mutating method
(MUTATORS) with an interior receiver is a violated frame condition.  A call that hands an interior or holder value to code
this analysis has no summary for is outside the analysis (Unsupported -> undecided), as is any statement form it does not
know.  Read-only library methods are listed in READONLY (assumptions, reported in the evidence).

The analysis is sound for the stated subset in the usual may-alias sense: a name is interior as soon as ONE of its bindings may
be; containers built from interior values are holders, and everything taken out of a holder is interior again.
It is a proof about the text of f only: callees are covered by their own obligation (same class / listed summary) or by a
stated assumption.
"""
import ast

from .values import Unsupported

FRESH_FUNCS = {"len", "str", "repr", "int", "float", "bool", "complex", "isinstance", "issubclass", "hasattr", "type", "id",
               "hash", "any", "all", "abs", "round", "ord", "chr", "format", "print", "callable", "range", "sum", "intern",
               "NotImplementedError", "ValueError", "TypeError", "KeyError", "RuntimeError", "AssertionError",
               "FunctionNotFound", "AttributeError", "IndexError", "Exception"}
HOLDER_FUNCS = {"list", "tuple", "dict", "set", "frozenset", "sorted", "zip", "enumerate", "reversed", "map", "filter",
                "iter", "chain", "natsorted"}
PASS_FUNCS = {"getattr", "next", "max", "min"}          # may return (a part of) an argument
MUTATORS = {"append", "extend", "insert", "remove", "pop", "popitem", "clear", "update", "setdefault", "add", "discard",
            "sort", "reverse", "__setitem__", "__delitem__", "__setattr__", "__delattr__", "appendleft", "popleft",
            "extendleft", "rotate", "difference_update", "intersection_update", "symmetric_difference_update",
            "move_to_end", "__iadd__", "__ior__", "send", "throw", "close", "write", "writelines", "truncate", "seek"}
# read-only methods of built-in containers / strings / pytools.Record / mako.Template (assumptions, see frame_assumptions())
READONLY = {"copy": 1, "keys": 1, "values": 1, "items": 1, "get": 2, "index": 0, "count": 0, "format": 0, "join": 0,
            "startswith": 0, "endswith": 0, "lower": 0, "upper": 0, "strip": 0, "lstrip": 0, "rstrip": 0, "split": 1,
            "replace": 0, "render": 0, "union": 1, "intersection": 1, "difference": 1, "issubset": 0, "issuperset": 0,
            "isdisjoint": 0, "__contains__": 0, "__getitem__": 2, "__len__": 0, "__iter__": 2, "get_copy_kwargs": 1,
            "encode": 0, "decode": 0, "find": 0, "rfind": 0, "isidentifier": 0, "isdigit": 0, "splitlines": 1, "expandtabs": 0,
            "partition": 1, "rpartition": 1, "title": 0, "center": 0, "ljust": 0, "rjust": 0, "zfill": 0}
# methods of built-in containers that only hash / compare their argument
KEY_ONLY = {"pop", "remove", "discard", "index", "count", "get", "__contains__", "__getitem__", "__delitem__"}
# methods that store their arguments into the receiver (receiver becomes a holder) without touching the arguments
STORING = {"append", "extend", "insert", "update", "add", "setdefault", "appendleft", "extendleft", "__setitem__"}


def frame_assumptions():
    return ["A-FRAME-LIB: the methods %s of built-in containers, strings, pytools.Record (copy, get_copy_kwargs) and "
            "mako.template.Template (render) modify neither their receiver nor their arguments (Template.render runs the "
            "template's own text, which in dagrt is a module-level string literal calling only the callables handed to it)"
            % ", ".join(sorted(READONLY)),
            "A-FRAME-ALIAS: objects are protected through the names and attribute paths of the analysed function only; a "
            "reference to a protected object that was stored in an unprotected object BEFORE the call (aliasing set up by "
            "callers) is not seen"]


class Finding:
    def __init__(self, line, what):
        self.line, self.what = line, what

    def __str__(self):
        return "L%s: %s" % (self.line, self.what)


class FrameAnalysis:
    """roots: names that are interior on entry.  attr_roots: {attr}: `<anything>.attr` is interior (class attributes shared by
    all instances).  own_methods: methods with their own frame obligation (callable on an interior `self`).
    summaries: {function name: set of protected parameter positions/names}: callees with their own obligation."""

    def __init__(self, fn, roots, attr_roots=(), own_methods=(), summaries=None, module_roots=(), interior_methods=(),
                 pure_constructors=(), field_roots=()):
        self.field_roots = set(field_roots)     # instance fields `<obj>.f`: neither mutated nor rebound
        self.fn = fn
        self.roots = set(roots)
        self.attr_roots = set(attr_roots)
        self.own_methods = set(own_methods)
        self.summaries = dict(summaries or {})
        self.module_roots = set(module_roots)
        self.interior_methods = set(interior_methods)      # callable on any interior object: each has its own obligation
        self.pure_constructors = set(pure_constructors)    # classes whose constructor only stores its arguments
        self.bound_levels = {r: {2} for r in self.roots}
        self.env = {r: 2 for r in self.roots}
        self.violations = []
        self.unsupported = []
        self.local_defs = {}
        self.mentions = 0

    # ---- levels ------------------------------------------------------------------------------------------------
    def level(self, e):
        m = getattr(self, "lv_" + type(e).__name__, None)
        if m is None:
            self.unsupported.append(Finding(getattr(e, "lineno", "?"), "expression form %s" % type(e).__name__))
            return 2
        return m(e)

    def lv_Name(self, e):
        if e.id in self.roots:
            self.mentions += 1
        return self.env.get(e.id, 0)

    def lv_Constant(self, e):
        return 0

    def lv_JoinedStr(self, e):
        for v in e.values:
            self.level(v)
        return 0

    def lv_FormattedValue(self, e):
        self.level(e.value)
        return 0

    def lv_Attribute(self, e):
        v = self.level(e.value)
        if e.attr in self.attr_roots or e.attr in self.field_roots:
            self.mentions += 1
            return 2
        if e.attr == "__dict__" and v:
            self.unsupported.append(Finding(e.lineno, "__dict__ of a protected object"))
        return 2 if v else 0

    def lv_Subscript(self, e):
        v = self.level(e.value)
        self.level(e.slice)
        return 2 if v else 0

    def lv_Slice(self, e):
        for x in (e.lower, e.upper, e.step):
            if x is not None:
                self.level(x)
        return 0

    def lv_Starred(self, e):
        return self.level(e.value)

    def _seq(self, elts):
        ls = [self.level(x) for x in elts if x is not None]
        return 1 if any(ls) else 0

    def lv_Tuple(self, e):
        return self._seq(e.elts)

    lv_List = lv_Set = lv_Tuple

    def lv_Dict(self, e):
        return self._seq(list(e.keys) + list(e.values))

    def lv_BinOp(self, e):
        return 1 if (self.level(e.left) | self.level(e.right)) else 0

    def lv_UnaryOp(self, e):
        self.level(e.operand)
        return 0

    def lv_Compare(self, e):
        self.level(e.left)
        for c in e.comparators:
            self.level(c)
        return 0

    def lv_BoolOp(self, e):
        return max(self.level(v) for v in e.values)

    def lv_IfExp(self, e):
        self.level(e.test)
        return max(self.level(e.body), self.level(e.orelse))

    def lv_NamedExpr(self, e):
        v = self.level(e.value)
        self.bind(e.target, v, e.lineno)
        return v

    def lv_Lambda(self, e):
        for a in e.args.args + e.args.kwonlyargs:
            self.env.setdefault(a.arg, 0)
        self.level(e.body)
        return 0

    def _comp(self, e, elts):
        for g in e.generators:
            src = self.level(g.iter)
            self.bind(g.target, 2 if src else 0, e.lineno)
            for c in g.ifs:
                self.level(c)
        return 1 if any(self.level(x) for x in elts) else 0

    def lv_ListComp(self, e):
        return self._comp(e, [e.elt])

    lv_SetComp = lv_GeneratorExp = lv_ListComp

    def lv_DictComp(self, e):
        return self._comp(e, [e.key, e.value])

    def lv_Call(self, e):
        args = list(e.args) + [k.value for k in e.keywords]
        levels = [self.level(a) for a in args]
        hot = max(levels) if levels else 0
        f = e.func
        if isinstance(f, ast.Attribute):
            # super().m(...): the receiver is self
            if (isinstance(f.value, ast.Call) and isinstance(f.value.func, ast.Name) and f.value.func.id == "super"
                    and not f.value.args):
                recv = self.env.get("self", 0)
                is_self = True
            else:
                recv = self.level(f.value)
                is_self = isinstance(f.value, ast.Name) and f.value.id == "self"
            m = f.attr
            if recv == 2:
                if m in MUTATORS:
                    self.violate(e.lineno, "calls the mutating method .%s() on %s, which may be (part of) a "
                                 "protected object" % (m, ast.unparse(f.value)), f.value)
                    return 2
                if m in READONLY:
                    return READONLY[m] if READONLY[m] != 2 else 2
                if (is_self and m in self.own_methods) or m in self.interior_methods:
                    return 2            # covered by that method's own frame obligation; may return a part of the object
                self.unsupported.append(Finding(e.lineno, "calls .%s() on %s (may be protected); no summary for that method"
                                                % (m, ast.unparse(f.value))))
                return 2
            # receiver is not protected itself
            if hot:
                if m in STORING:
                    if isinstance(f.value, ast.Name) and f.value.id not in self.params:
                        self.raise_env(f.value.id, 1)
                    else:
                        self.unsupported.append(Finding(e.lineno, "a protected object escapes into %s through .%s()"
                                                        % (ast.unparse(f.value), m)))
                    return 0
                if m in READONLY:
                    return 1 if recv or hot else 0
                if m in KEY_ONLY:
                    return 2 if recv else 0     # the argument is only compared / hashed; a holder may give a reference out
                if recv == 1 and m in MUTATORS:
                    return 2            # e.g. holder.pop(): takes a reference out
                self.unsupported.append(Finding(e.lineno, "hands a protected object (or a container holding one) to .%s() of %s"
                                                % (m, ast.unparse(f.value))))
                return 2
            if recv == 1:
                if m in READONLY:
                    return READONLY[m] if READONLY[m] < 2 else 2
                if m in MUTATORS:
                    return 2 if m in ("pop", "popitem", "popleft", "setdefault") else 0
                return 2
            return 0
        if isinstance(f, ast.Name):
            n = f.id
            if n in self.local_defs:
                d = self.local_defs[n]
                params = [a.arg for a in d.args.args]
                for p, lv in zip(params, levels[:len(e.args)]):
                    self.raise_env(p, lv)
                for k in e.keywords:
                    if k.arg:
                        self.raise_env(k.arg, self.level(k.value))
                return 2 if hot else 0
            if n in ("setattr", "delattr") and levels and levels[0] == 2:
                self.violate(e.lineno, "%s() on %s, which may be (part of) a protected object" % (n, ast.unparse(e.args[0])),
                             e.args[0])
                return 0
            if n in FRESH_FUNCS:
                return 0
            if n in HOLDER_FUNCS or n in self.pure_constructors:
                return 1 if hot else 0
            if n in PASS_FUNCS:
                return 2 if hot else 0
            if n == "vars":
                return 2 if hot else 0
            if n == "super":
                return self.env.get("self", 0)
            if hot:
                if n in self.summaries:
                    prot = self.summaries[n]
                    bad = [i for i, lv in enumerate(levels[:len(e.args)]) if lv and i not in prot]
                    bad += [k.arg for k in e.keywords if self.level(k.value) and k.arg not in prot]
                    if not bad:
                        return 2
                self.unsupported.append(Finding(e.lineno, "hands a protected object (or a container holding one) to %s(), "
                                                "for which there is no frame summary" % n))
                return 2
            return 0
        # computed callee
        self.level(f)
        if hot:
            self.unsupported.append(Finding(e.lineno, "hands a protected object to a computed callee %s" % ast.unparse(f)))
            return 2
        return 0

    # ---- bindings ------------------------------------------------------------------------------------------------
    def ambiguous(self, e):
        """the object named by e is interior only on some bindings of its root name (the analysis is flow-insensitive)"""
        while isinstance(e, (ast.Attribute, ast.Subscript)):
            if isinstance(e, ast.Attribute) and (e.attr in self.attr_roots or e.attr in self.field_roots):
                return False
            e = e.value
        return isinstance(e, ast.Name) and len(self.bound_levels.get(e.id, ())) > 1

    def violate(self, line, what, base):
        if self.ambiguous(base):
            self.unsupported.append(Finding(line, what + " (on some bindings of the name only: the analysis is flow-insensitive)"))
        else:
            self.violations.append(Finding(line, what))

    def raise_env(self, name, lv):
        self.bound_levels.setdefault(name, set()).add(lv)
        if lv > self.env.get(name, 0):
            self.env[name] = lv
            self.changed = True
        else:
            self.env.setdefault(name, 0)

    def bind(self, target, lv, line):
        """target receives a value of level lv (a store when the target is an attribute / item)"""
        if isinstance(target, ast.Name):
            if target.id in self.module_roots and target.id in self.declared_global:
                self.violations.append(Finding(line, "rebinds the module-level object %s" % target.id))
            self.raise_env(target.id, lv)
        elif isinstance(target, (ast.Tuple, ast.List)):
            for t in target.elts:
                self.bind(t, 2 if lv else 0, line)
        elif isinstance(target, ast.Starred):
            self.bind(target.value, 1 if lv else 0, line)
        elif isinstance(target, (ast.Attribute, ast.Subscript)):
            self.store(target, lv, line)
        else:
            self.unsupported.append(Finding(line, "assignment target %s" % type(target).__name__))

    def store(self, target, lv, line, what="stores into"):
        base = target.value
        b = self.level(base)
        if isinstance(target, ast.Subscript):
            self.level(target.slice)
        if isinstance(target, ast.Attribute) and target.attr in self.field_roots:
            self.violations.append(Finding(line, "%s the protected field %s" % ("rebinds" if what == "stores into" else what,
                                                                              ast.unparse(target))))
            return
        if isinstance(target, ast.Attribute) and target.attr in self.attr_roots and what == "stores into":
            # `self.attr = v` creates / rebinds the INSTANCE attribute; the shared class attribute is untouched
            # (unless the base is the class itself)
            if isinstance(base, ast.Name) and base.id in ("self",) and self.env.get("self", 0) < 2:
                return
        if b == 2:
            self.violate(line, "%s %s, and %s may be (part of) a protected object"
                         % (what, ast.unparse(target), ast.unparse(base)), base)
        elif lv:
            root = base
            while isinstance(root, (ast.Attribute, ast.Subscript)):
                root = root.value
            if isinstance(root, ast.Name) and root.id not in self.params:
                self.raise_env(root.id, 1)
            else:
                self.unsupported.append(Finding(line, "a protected object escapes into %s (an object that outlives the call)"
                                                % ast.unparse(base)))

    # ---- statements ------------------------------------------------------------------------------------------------
    def run(self):
        self.declared_global = set()
        for n in ast.walk(self.fn):
            if isinstance(n, ast.Global):
                self.declared_global.update(n.names)
                for name in n.names:
                    if name in self.module_roots:
                        self.mentions += 1
            if isinstance(n, (ast.FunctionDef, ast.AsyncFunctionDef)) and n is not self.fn:
                self.local_defs[n.name] = n
        a = self.fn.args
        self.params = set()
        for d in [self.fn] + list(self.local_defs.values()):
            aa = d.args
            for p in aa.posonlyargs + aa.args + aa.kwonlyargs + ([aa.vararg] if aa.vararg else []) + ([aa.kwarg] if aa.kwarg else []):
                self.params.add(p.arg)
        for p in a.posonlyargs + a.args + a.kwonlyargs + ([a.vararg] if a.vararg else []) + ([a.kwarg] if a.kwarg else []):
            self.env.setdefault(p.arg, 2 if p.arg in self.roots else 0)
        # names assigned locally shadow module-level roots (Python scoping), unless declared global
        assigned = set()
        for n in ast.walk(self.fn):
            if isinstance(n, ast.Name) and isinstance(n.ctx, ast.Store):
                assigned.add(n.id)
        for r in list(self.roots):
            if r in self.module_roots and r in assigned and r not in self.declared_global:
                self.roots.discard(r)
                self.env[r] = 0
        for it in range(50):
            self.changed = False
            self.violations, self.unsupported, self.mentions = [], [], 0
            self.block(self.fn.body)
            if not self.changed:
                break
        else:
            raise Unsupported("frame analysis did not reach a fixpoint")
        return self

    def block(self, body):
        for s in body:
            m = getattr(self, "st_" + type(s).__name__, None)
            if m is None:
                self.unsupported.append(Finding(s.lineno, "statement form %s" % type(s).__name__))
                continue
            m(s)

    def st_Expr(self, s):
        self.level(s.value)

    def st_Assign(self, s):
        v = self.level(s.value)
        for t in s.targets:
            self.bind(t, v, s.lineno)

    def st_AnnAssign(self, s):
        if s.value is not None:
            self.bind(s.target, self.level(s.value), s.lineno)

    def st_AugAssign(self, s):
        v = self.level(s.value)
        t = s.target
        if isinstance(t, ast.Name):
            # x += v mutates x in place when x is a list / set / dict
            if self.env.get(t.id, 0) == 2 or t.id in self.roots:
                self.violate(s.lineno, "augmented assignment to %s, which may be a protected object (in-place for containers)"
                             % t.id, t)
            self.raise_env(t.id, 1 if v else 0)
        else:
            self.store(t, v, s.lineno, "updates in place")
            if self.level(t) == 2:
                pass

    def st_Delete(self, s):
        for t in s.targets:
            if isinstance(t, (ast.Attribute, ast.Subscript)):
                self.store(t, 0, s.lineno, "deletes")

    def st_Return(self, s):
        if s.value is not None:
            self.level(s.value)

    def st_Raise(self, s):
        for x in (s.exc, s.cause):
            if x is not None:
                self.level(x)

    def st_Assert(self, s):
        self.level(s.test)
        if s.msg is not None:
            self.level(s.msg)

    def st_Pass(self, s):
        pass

    st_Break = st_Continue = st_Import = st_ImportFrom = st_Pass

    def st_Global(self, s):
        pass        # handled in run()

    st_Nonlocal = st_Global

    def st_If(self, s):
        self.level(s.test)
        self.block(s.body)
        self.block(s.orelse)

    def st_While(self, s):
        self.level(s.test)
        self.block(s.body)
        self.block(s.orelse)

    def st_For(self, s):
        src = self.level(s.iter)
        self.bind(s.target, 2 if src else 0, s.lineno)
        self.block(s.body)
        self.block(s.orelse)

    def st_With(self, s):
        for it in s.items:
            v = self.level(it.context_expr)
            if v == 2:
                self.unsupported.append(Finding(s.lineno, "a protected object used as a context manager"))
            if it.optional_vars is not None:
                self.bind(it.optional_vars, 2 if v else 0, s.lineno)
        self.block(s.body)

    def st_Try(self, s):
        self.block(s.body)
        for h in s.handlers:
            if h.type is not None:
                self.level(h.type)
            if h.name:
                self.env.setdefault(h.name, 0)
            self.block(h.body)
        self.block(s.orelse)
        self.block(s.finalbody)

    def st_FunctionDef(self, s):
        a = s.args
        for p in a.posonlyargs + a.args + a.kwonlyargs + ([a.vararg] if a.vararg else []) + ([a.kwarg] if a.kwarg else []):
            self.env.setdefault(p.arg, 0)
        for d in a.defaults + [d for d in a.kw_defaults if d is not None]:
            self.level(d)
        self.block(s.body)

    def st_ClassDef(self, s):
        self.unsupported.append(Finding(s.lineno, "nested class"))

    def lv_Yield(self, e):
        if e.value is not None:
            self.level(e.value)
        return 0

    def lv_YieldFrom(self, e):
        self.level(e.value)
        return 0


def mutable_default_params(fn):
    """parameters whose default value is a mutable object created once, at definition time"""
    a = fn.args
    out = []
    pos = a.posonlyargs + a.args
    for p, d in list(zip(pos[len(pos) - len(a.defaults):], a.defaults)) + [(p, d) for p, d in zip(a.kwonlyargs, a.kw_defaults)
                                                                             if d is not None]:
        if isinstance(d, (ast.List, ast.Dict, ast.Set, ast.ListComp, ast.DictComp, ast.SetComp)):
            out.append(p.arg)
        elif isinstance(d, ast.Call) and not (isinstance(d.func, ast.Name) and d.func.id in ("tuple", "frozenset", "object")):
            out.append(p.arg)
    return out
