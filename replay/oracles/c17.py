"""Native oracle for C17 (runs the real dagrt.expression.match).

Input (JSON):
  {"template": tree, "target": tree, "free": [names] | null, "bound": [names] | null,
   "pre_match": {name: tree} | null, "as_strings": bool (pass str() of the trees, and of the pre-matches)}
tree ::= ["var", name] | ["int", n] | ["float", "repr"] | ["sum", t...] | ["prod", t...] | ["quot", t, t]
       | ["pow", t, t] | ["call", t, [t...], {kw: t}] | ["sub", t, [t...]] | ["and", t...] | ["or", t...] | ["not", t]
"lenient_errors": true  -> any exception counts as "no match reported" (logical nodes: pymbolic's own handler raises TypeError)

Clauses (the property statement; *not* finding a match that exists is not a violation):
  binds-only-free     the returned substitution has a key that is not a declared free variable
  agrees-with-prematch  a pre-supplied binding is missing from / changed in the returned substitution
  genuine             template with the substitution applied and the target differ in value at a random
                      rational point under a random (hash) interpretation of the function symbols
  error-kind          match raised something other than ValueError (the only error its code raises:
                      "Cannot unify expressions." / pre_match name "is not a candidate for matching")
  prematch-not-candidate  a pre_match name that is not free did not raise ValueError
"""
import itertools
import json
import random
import warnings
from fractions import Fraction

import pymbolic.primitives as p

from dagrt.expression import match, parse
from dagrt.utils import get_variables


# {{{ JSON <-> pymbolic

def build(t):
    k = t[0]
    if k == "var":
        return p.Variable(t[1])
    if k == "int":
        return int(t[1])
    if k == "float":
        return float(t[1])
    if k == "sum":
        return p.Sum(tuple(build(c) for c in t[1:]))
    if k == "prod":
        return p.Product(tuple(build(c) for c in t[1:]))
    if k == "quot":
        return p.Quotient(build(t[1]), build(t[2]))
    if k == "pow":
        return p.Power(build(t[1]), build(t[2]))
    if k == "call":
        f = build(t[1])
        args = tuple(build(c) for c in t[2])
        kw = t[3] if len(t) > 3 else {}
        if kw:
            from constantdict import constantdict
            return p.CallWithKwargs(f, args, constantdict({n: build(v) for n, v in kw.items()}))
        return p.Call(f, args)
    if k == "sub":
        return p.Subscript(build(t[1]), tuple(build(c) for c in t[2]))
    if k == "and":
        return p.LogicalAnd(tuple(build(c) for c in t[1:]))
    if k == "or":
        return p.LogicalOr(tuple(build(c) for c in t[1:]))
    if k == "not":
        return p.LogicalNot(build(t[1]))
    raise ValueError("unknown node %r" % (k,))


def subst_tree(t, s):
    """syntactic substitution on trees (input generation only)"""
    k = t[0]
    if k == "var":
        return s.get(t[1], t)
    if k in ("int", "float"):
        return t
    if k == "call":
        return [k, subst_tree(t[1], s), [subst_tree(c, s) for c in t[2]],
                {n: subst_tree(v, s) for n, v in (t[3] if len(t) > 3 else {}).items()}]
    if k == "sub":
        return [k, subst_tree(t[1], s), [subst_tree(c, s) for c in t[2]]]
    return [k] + [subst_tree(c, s) for c in t[1:]]


def names_in(t):
    k = t[0]
    if k == "var":
        return {t[1]}
    if k in ("int", "float"):
        return set()
    out = set()
    if k == "call":
        cs = [t[1]] + list(t[2]) + list((t[3] if len(t) > 3 else {}).values())
    elif k == "sub":
        cs = [t[1]] + list(t[2])
    else:
        cs = t[1:]
    for c in cs:
        out |= names_in(c)
    return out

# }}}


# {{{ evaluator with semantic substitution

class Skip(Exception):
    pass


class Unsupported(Exception):
    pass


def _h(*key):
    import hashlib
    d = hashlib.sha256(repr(key).encode()).digest()
    return Fraction(int.from_bytes(d[:2], "big") % 11 - 5, int.from_bytes(d[2:4], "big") % 3 + 1)


def _key(v):
    v = Fraction(v)
    return (v.numerator, v.denominator)


def ev(e, env, subst=None):
    """value of e with the variables in `subst` (name -> expression over the target's variables)
    replaced -- also in function and aggregate position -- and every other name looked up in env =
    (seed, values); calls and subscripts are pure hash tables of (value of the function / aggregate
    expression, argument values, keyword argument values)"""
    seed, vals = env
    if isinstance(e, bool):
        return Fraction(int(e))
    if isinstance(e, (int, Fraction)):
        return Fraction(e)
    if isinstance(e, float):
        return Fraction(e)
    if isinstance(e, p.Variable):
        if subst is not None and e.name in subst:
            return ev(subst[e.name], env, None)
        if e.name in vals:
            return vals[e.name]
        return _h(seed, "var", e.name)
    if isinstance(e, p.Sum):
        r = Fraction(0)
        for c in e.children:
            r += ev(c, env, subst)
        return r
    if isinstance(e, p.Product):
        r = Fraction(1)
        for c in e.children:
            r *= ev(c, env, subst)
        return r
    if isinstance(e, p.Quotient):
        a, b = ev(e.numerator, env, subst), ev(e.denominator, env, subst)
        if b == 0:
            raise Skip
        return a / b
    if isinstance(e, p.Power):
        a, b = ev(e.base, env, subst), ev(e.exponent, env, subst)
        if b.denominator != 1 or abs(b) > 8:
            raise Skip
        if a == 0 and b < 0:
            raise Skip
        return a ** int(b)
    if isinstance(e, p.LogicalAnd):
        return Fraction(int(all(ev(c, env, subst) != 0 for c in e.children)))
    if isinstance(e, p.LogicalOr):
        return Fraction(int(any(ev(c, env, subst) != 0 for c in e.children)))
    if isinstance(e, p.LogicalNot):
        return Fraction(int(ev(e.child, env, subst) == 0))
    if isinstance(e, (p.Call, p.CallWithKwargs, p.Subscript)):
        if isinstance(e, p.Subscript):
            head = e.aggregate
            idx = e.index if isinstance(e.index, tuple) else (e.index,)
            args = tuple(_key(ev(i, env, subst)) for i in idx)
            kw = ()
            tag = "sub"
        else:
            head = e.function
            args = tuple(_key(ev(a, env, subst)) for a in e.parameters)
            kw = ()
            if isinstance(e, p.CallWithKwargs):
                kw = tuple(sorted((n, _key(ev(v, env, subst))) for n, v in e.kw_parameters.items()))
            tag = "call"
        # the function / aggregate is a value like any other (so that (1*r)[p] and r[p], which match()
        # identifies by flattening, are the same thing); results are a pure table of that value
        hkey = _key(ev(head, env, subst))
        return _h(seed, tag, hkey, args, kw)
    raise Unsupported(type(e).__name__)


def points(names, n=4):
    names = sorted(names)
    out = []
    for s in range(n):
        rng = random.Random("c17-%d" % s)
        out.append((s, {nm: Fraction(rng.randint(-6, 6), rng.randint(1, 4)) for nm in names}))
    return out

# }}}


def ac_width(t):
    """largest number of operands of a sum / product after flattening nested ones (the matcher's
    cost is exponential in it: a free variable may take any subset of the operands)"""
    k = t[0]
    if k in ("var", "int", "float"):
        return 1
    if k == "call":
        cs = [t[1]] + list(t[2]) + list((t[3] if len(t) > 3 else {}).values())
    elif k == "sub":
        cs = [t[1]] + list(t[2])
    else:
        cs = t[1:]
    best = max([ac_width(c) for c in cs] or [1])
    if k in ("sum", "prod"):
        def flat(u):
            return sum(flat(c) for c in u[1:]) if u[0] == k else 1
        best = max(best, flat(t))
    return best


class _Timeout(BaseException):
    pass


def _call_with_alarm(fn, seconds):
    """run fn(); a call that takes longer (AC matching is exponential; the property says nothing about
    time) raises _Timeout.  Uses SIGALRM when available, restored afterwards."""
    import signal
    import threading
    if not hasattr(signal, "SIGALRM") or threading.current_thread() is not threading.main_thread():
        return fn()

    def handler(signum, frame):
        raise _Timeout()
    old = signal.signal(signal.SIGALRM, handler)
    signal.setitimer(signal.ITIMER_REAL, seconds)
    try:
        return fn()
    finally:
        signal.setitimer(signal.ITIMER_REAL, 0)
        signal.signal(signal.SIGALRM, old)


def _viol(clause, detail):
    return {"clause": clause, "detail": detail}


def _as_expr(x):
    return parse(x) if isinstance(x, str) else x


def check(inp):
    T, E = build(inp["template"]), build(inp["target"])
    free = inp.get("free")
    bound = inp.get("bound")
    pm_trees = inp.get("pre_match")
    as_strings = bool(inp.get("as_strings"))
    pre = None
    if pm_trees is not None:
        pre = {n: build(v) for n, v in pm_trees.items()}
    if as_strings:
        # the meaning of a string argument is what dagrt's parser makes of it (C19 is about that)
        try:
            sT, sE = str(T), str(E)
            T, E = parse(sT), parse(sE)
            spre = None
            if pre is not None:
                spre = {n: str(v) for n, v in pre.items()}
                pre = {n: parse(s) for n, s in spre.items()}
        except Exception:
            return None
        args = (sT, sE)
        pre_arg = spre
    else:
        args = (T, E)
        pre_arg = pre
    # declared free variables
    if free is not None:
        declared = set(free)
    else:
        declared = set(get_variables(T, include_function_symbols=True)) - set(bound or ())
    kwargs = {}
    if bound is not None:
        kwargs["bound_variable_names"] = list(bound)
    if pre_arg is not None:
        kwargs["pre_match"] = pre_arg
    bad_pre = sorted(n for n in (pre or {}) if n not in declared)
    with warnings.catch_warnings():
        warnings.simplefilter("ignore")
        try:
            result = _call_with_alarm(
                lambda: match(args[0], args[1], list(free) if free is not None else None, **kwargs),
                inp.get("timeout_s", 2.0))
        except _Timeout:
            return {"outcome": "timeout", "viols": []}
        except ValueError:
            return {"outcome": "ValueError", "viols": []}
        except RecursionError:
            return None
        except Exception as ex:
            if inp.get("lenient_errors"):
                return {"outcome": "raise", "viols": []}
            return {"outcome": "raise", "viols": [
                _viol("error-kind", "match raised %s: %s" % (type(ex).__name__, ex))]}
    viols = []
    if bad_pre:
        viols.append(_viol("prematch-not-candidate", "pre_match names %s are not free, yet match returned %r"
                           % (bad_pre, result)))
    if not isinstance(result, dict):
        return {"outcome": "match", "viols": [_viol("genuine", "result is not a mapping: %r" % (result,))]}
    extra = sorted(k for k in result if k not in declared)
    if extra:
        viols.append(_viol("binds-only-free", "substitution binds %s; declared free: %s" % (extra, sorted(declared))))
    all_names = names_in(inp["template"]) | names_in(inp["target"])
    for v in (pm_trees or {}).values():
        all_names |= names_in(v)
    pts = points(all_names)
    if any(tag in json.dumps([inp["template"], inp["target"]]) for tag in ('"and"', '"or"', '"not"')):
        # truth values matter: every 0 / 1 valuation of up to five names (plus the rational points)
        nm = sorted(all_names)[:5]
        pts = [(100 + i, dict({n_: Fraction(1) for n_ in all_names}, **{n_: Fraction(b) for n_, b in zip(nm, bits)}))
               for i, bits in enumerate(itertools.product((0, 1), repeat=len(nm)))] + pts
    for n, v in (pre or {}).items():
        if n not in result:
            viols.append(_viol("agrees-with-prematch", "pre-matched %s is missing from %r" % (n, result)))
            continue
        if result[n] != v:
            # equal in value is agreement as well
            try:
                same = all(ev(result[n], pt) == ev(v, pt) for pt in pts)
            except (Skip, Unsupported):
                same = False
            if not same:
                viols.append(_viol("agrees-with-prematch", "pre-matched %s = %s, returned %s" % (n, v, result[n])))
    decided = 0
    for pt in pts:
        try:
            lhs = ev(T, pt, result)
            rhs = ev(E, pt)
        except Skip:
            continue
        except Unsupported as ex:
            return None
        decided += 1
        if lhs != rhs:
            viols.append(_viol("genuine", "match(%s, %s, free=%s, pre_match=%s) = %s; at %s template gives %s, target %s"
                               % (T, E, sorted(declared), pre, {k: str(v) for k, v in result.items()},
                                  {k: str(v) for k, v in sorted(pt[1].items())}, lhs, rhs)))
            break
    return {"outcome": "match", "decided_points": decided, "viols": viols}


def replay(inp):
    r = check(inp)
    if r is None:
        return {"fails": False, "detail": "outside the domain"}
    vs = r["viols"]
    if inp.get("clause"):
        vs = [v for v in vs if v["clause"] == inp["clause"]]
    return {"fails": bool(vs), "detail": "; ".join(v["detail"] for v in vs[:2]) if vs else None}


FINGERPRINTS = {}


# {{{ generation

T_VARS = ["a", "b", "c"]
T_FUNCS = ["f", "g"]
E_VARS = ["a", "p", "q", "r"]
E_FUNCS = ["f", "ff", "h"]


def rand_tree(rng, depth, variables, funcs, consts):
    r = rng.random()
    if depth <= 0 or r < 0.3:
        if rng.random() < 0.75:
            return ["var", rng.choice(variables)]
        return rng.choice(consts)
    if r < 0.5:
        return ["sum"] + [rand_tree(rng, depth - 1, variables, funcs, consts) for i in range(rng.choice([2, 2, 3]))]
    if r < 0.7:
        return ["prod"] + [rand_tree(rng, depth - 1, variables, funcs, consts) for i in range(rng.choice([2, 2, 3]))]
    if r < 0.9:
        kw = {}
        for n in rng.sample(["t", "y"], rng.choice([0, 0, 1, 2])):
            kw[n] = rand_tree(rng, depth - 1, variables, funcs, consts)
        return ["call", ["var", rng.choice(funcs)],
                [rand_tree(rng, depth - 1, variables, funcs, consts) for i in range(rng.randint(0, 2))], kw]
    if r < 0.94:
        return ["quot", rand_tree(rng, depth - 1, variables, funcs, consts),
                rand_tree(rng, depth - 1, variables, funcs, consts)]
    if r < 0.97:
        return ["pow", rand_tree(rng, depth - 1, variables, funcs, consts), ["int", rng.choice([2, 3])]]
    return ["sub", ["var", rng.choice(variables)], [rand_tree(rng, depth - 1, variables, funcs, consts)]]


CONSTS = [["int", 0], ["int", 1], ["int", 2], ["int", -1], ["float", "0.5"]]


def shuffle_ac(rng, t):
    """commute the children of sums and products (the target is matched modulo AC)"""
    k = t[0]
    if k in ("var", "int", "float"):
        return t
    if k in ("sum", "prod"):
        cs = [shuffle_ac(rng, c) for c in t[1:]]
        rng.shuffle(cs)
        return [k] + cs
    if k == "call":
        # keyword arguments are matched by name: the target may list them in another order
        items = list((t[3] if len(t) > 3 else {}).items())
        rng.shuffle(items)
        return [k, t[1], [shuffle_ac(rng, c) for c in t[2]],
                {n: shuffle_ac(rng, v) for n, v in items}]
    if k == "sub":
        return [k, t[1], [shuffle_ac(rng, c) for c in t[2]]]
    return [k] + [shuffle_ac(rng, c) for c in t[1:]]


def drop_identities(t):
    """x + 0 -> x, x * 1 -> x for binary sums / products (what 'modulo identity' undoes)"""
    k = t[0]
    if k in ("var", "int", "float"):
        return t
    if k in ("sum", "prod"):
        ident = ["int", 0] if k == "sum" else ["int", 1]
        cs = [drop_identities(c) for c in t[1:]]
        if len(cs) == 2 and ident in cs:
            rest = [c for c in cs if c != ident]
            return rest[0] if rest else ident
        return [k] + cs
    if k == "call":
        return [k, t[1], [drop_identities(c) for c in t[2]],
                {n: drop_identities(v) for n, v in (t[3] if len(t) > 3 else {}).items()}]
    if k == "sub":
        return [k, t[1], [drop_identities(c) for c in t[2]]]
    return [k] + [drop_identities(c) for c in t[1:]]


def random_input(rng):
    T = rand_tree(rng, rng.randint(1, 3), T_VARS, T_FUNCS, CONSTS)
    tn = sorted(names_in(T))
    mode = rng.random()
    free = None
    bound = None
    if tn and rng.random() < 0.8:
        free = rng.sample(tn, rng.randint(0, len(tn)))
        if rng.random() < 0.15:
            free.append(rng.choice(["z", "p"]))          # declared free, not in the template
    elif tn and rng.random() < 0.5:
        bound = rng.sample(tn, rng.randint(0, len(tn)))
    fset = set(free) if free is not None else set(tn) - set(bound or ())
    if mode < 0.6:
        # a match exists by construction
        s0 = {}
        for n in sorted(fset):
            r = rng.random()
            if n in T_FUNCS:
                s0[n] = ["var", rng.choice(E_FUNCS)]
            elif r < 0.2:
                s0[n] = rng.choice([["int", 0], ["int", 1]])
            elif r < 0.7:
                s0[n] = ["var", rng.choice(E_VARS)]
            else:
                s0[n] = rand_tree(rng, 1, E_VARS, E_FUNCS, CONSTS)
        E = shuffle_ac(rng, subst_tree(T, s0))
        if rng.random() < 0.5:
            E = drop_identities(E)
        if mode < 0.12:
            # near miss: change one leaf of the target
            E = subst_tree(E, {rng.choice(sorted(names_in(E)) or ["a"]): rng.choice([["var", "zz"], ["int", 2]])})
    else:
        s0 = {}
        E = rand_tree(rng, rng.randint(0, 3), E_VARS + T_VARS[:2], E_FUNCS, CONSTS)
    pre = None
    r = rng.random()
    if fset and r < 0.25:
        n = rng.choice(sorted(fset))
        if n in s0 and rng.random() < 0.6:
            pre = {n: s0[n]}
        else:
            pre = {n: rand_tree(rng, 1, E_VARS, E_FUNCS, CONSTS)}
    elif r < 0.29:
        cand = sorted(set(tn) - fset) or ["zz"]
        pre = {rng.choice(cand): ["var", "p"]}
    inp = {"template": T, "target": E, "free": free, "bound": bound, "pre_match": pre}
    if rng.random() < 0.08:
        inp["as_strings"] = True
    return inp


def small_trees(atoms, with_kwargs=True):
    out = list(atoms)
    f = ["var", "f"]
    for a, b in itertools.product(atoms, atoms):
        out.append(["sum", a, b])
        out.append(["prod", a, b])
        if with_kwargs:
            out.append(["call", f, [a], {"t": b}])
    for a in atoms:
        out.append(["call", f, [a]])
    return out

# }}}


def bounded(payload):
    budget = payload.get("budget") or {}
    seed = payload.get("seed", 0)
    tier = payload.get("tier", "quick")
    rng = random.Random(seed)
    n_random = budget.get("random_pairs", 4000 if tier == "quick" else 60000)
    max_fail = budget.get("max_failures", 20)
    max_t_width = budget.get("max_template_ac_width", 4)
    max_e_width = budget.get("max_target_ac_width", 6)
    active = {}
    for e in payload.get("known", []):
        fp = e.get("fingerprint")
        if fp in FINGERPRINTS:
            active[fp] = FINGERPRINTS[fp]

    evals = 0
    distinct = set()
    failures = []
    outcomes = {"match": 0, "ValueError": 0, "raise": 0, "timeout": 0, "skipped": 0, "too_wide": 0}
    decided_points = 0
    suppressed = {}
    classes = {}
    samples = []
    parts = {}

    def run(inp):
        nonlocal evals, decided_points
        if ac_width(inp["template"]) > max_t_width or ac_width(inp["target"]) > max_e_width:
            outcomes["too_wide"] += 1
            return
        r = check(inp)
        if r is None:
            outcomes["skipped"] += 1
            return
        evals += 1
        outcomes[r["outcome"]] += 1
        if r["outcome"] == "match":
            decided_points += r.get("decided_points", 0)
            distinct.add(json.dumps(inp, sort_keys=True))
        for clause in sorted(set(v["clause"] for v in r["viols"])):
            classes[clause] = classes.get(clause, 0) + 1
            finp = dict(inp, clause=clause)
            hit = [n for n, fp in sorted(active.items()) if fp(finp)]
            if hit:
                suppressed[hit[0]] = suppressed.get(hit[0], 0) + 1
                continue
            if sum(1 for f in failures if f["oracle"] == clause) < 5:
                failures.append({"oracle": clause, "input": finp, "detail": replay(finp).get("detail")})

    # ---- logical nodes: an `and` / `or` template against and / or / sum / product targets of the same and of other arity ----
    n_l = 0
    lt = [["and", ["var", "x"], ["var", "y"]], ["or", ["var", "x"], ["var", "y"]], ["and", ["var", "x"], ["var", "y"], ["var", "z"]],
          ["not", ["var", "x"]], ["call", ["var", "g"], [["and", ["var", "x"], ["var", "y"]]]],
          ["or", ["and", ["var", "x"], ["var", "y"]], ["var", "z"]]]
    le = []
    for op in ("and", "or", "sum", "prod"):
        le += [[op, ["var", "p"], ["var", "q"]], [op, ["var", "p"], ["var", "q"], ["var", "r"]], [op, ["var", "q"], ["var", "p"]]]
    le += [["not", ["var", "p"]], ["var", "p"], ["call", ["var", "g"], [["or", ["var", "p"], ["var", "q"]]]],
           ["call", ["var", "g"], [["and", ["var", "p"], ["var", "q"]]]], ["or", ["and", ["var", "p"], ["var", "q"]], ["var", "r"]],
           ["and", ["or", ["var", "p"], ["var", "q"]], ["var", "r"]]]
    for T in lt:
        for E in le:
            for free in (["x", "y", "z"], ["x", "y"], None):
                run({"template": T, "target": E, "free": free, "bound": None, "pre_match": None, "lenient_errors": True})
                n_l += 1
    parts["logical_node_pairs"] = n_l

    # ---- exhaustive: small templates x small targets x choices of free variables ----
    templates = small_trees([["var", "a"], ["var", "b"], ["int", 1]])
    targets = small_trees([["var", "a"], ["var", "c"], ["int", 0], ["int", 1]], with_kwargs=(tier != "quick"))
    frees = [["a", "b"], ["a"], ["a", "b", "f"], None]
    n_exh = 0
    for T in templates:
        for E in targets:
            for free in frees:
                run({"template": T, "target": E, "free": free, "bound": None, "pre_match": None})
                n_exh += 1
    parts["exhaustive_pairs"] = n_exh
    # pre-matches on a fixed family
    for T in templates:
        if "a" not in names_in(T):
            continue
        for E in targets[:30]:
            for pre in ({"a": ["var", "c"]}, {"a": ["int", 1]}, {"b": ["var", "a"]}, {"f": ["var", "f"]}):
                run({"template": T, "target": E, "free": ["a", "b"], "bound": None, "pre_match": pre})
    samples.append({"template": ["sum", ["prod", ["var", "c"], ["var", "a"]], ["prod", ["var", "b"], ["var", "a"]]],
                    "target": ["sum", ["prod", ["var", "c"], ["var", "a"]], ["var", "a"]], "free": ["b"],
                    "bound": None, "pre_match": None})

    # ---- keyword arguments are matched by name, whatever order the two calls list them in ----
    n_kw = 0
    kwnames = ["t", "y", "h"]
    for nk in (2, 3):
        for tperm in itertools.permutations(kwnames[:nk]):
            for eperm in itertools.permutations(kwnames[:nk]):
                for free in (["u", "f", "x", "kt", "ky", "kh"], ["kt", "ky", "kh"]):
                    T = ["sum", ["var", "u"], ["call", ["var", "f"], [["var", "x"]],
                                               {n: ["var", "k" + n] for n in tperm}]]
                    E = ["sum", ["var", "u"], ["call", ["var", "f"], [["var", "x"]],
                                               {n: ["var", "v" + n] for n in eperm}]]
                    run({"template": T, "target": E, "free": free, "bound": None, "pre_match": None})
                    n_kw += 1
    parts["keyword_order_pairs"] = n_kw

    # ---- calls of different kinds: positional-only templates against targets that also carry keyword arguments, and back ----
    n_ck = 0
    V = lambda n: ["var", n]                                    # noqa: E731
    ck_t = [["call", V("f"), [V("a")]], ["call", V("f"), [V("a")], {}], ["call", V("f"), [V("a"), V("b")]],
            ["call", V("f"), [V("a")], {"t": V("b")}], ["call", V("f"), [], {"t": V("a")}],
            ["sum", V("u"), ["call", V("f"), [V("a")]]]]
    ck_e = [["call", V("g"), [V("x")]], ["call", V("g"), [V("x")], {"t": V("y")}], ["call", V("g"), [V("x"), V("y")]],
            ["call", V("g"), [V("x")], {"t": V("y"), "s": V("z")}], ["call", V("g"), [], {"t": V("x")}],
            ["call", V("g"), [V("x")], {"s": V("y")}], ["sum", V("u"), ["call", V("g"), [V("x")], {"t": V("y")}]]]
    for T in ck_t:
        for E in ck_e:
            for free in (["f", "a", "b"], ["f", "a", "b", "u"], ["a", "b"], None):
                run({"template": T, "target": E, "free": free, "bound": None, "pre_match": None})
                n_ck += 1
    parts["call_kind_pairs"] = n_ck

    # ---- several pre-supplied bindings: a match has to honour ALL of them (or ValueError) ----
    n_pm = 0
    for T, E, good in (
            (["call", ["var", "f"], [["var", "x"], ["var", "y"]], {}], ["call", ["var", "f"], [["var", "p"], ["var", "q"]], {}],
             {"x": ["var", "p"], "y": ["var", "q"]}),
            (["sum", ["var", "x"], ["var", "y"]], ["sum", ["var", "p"], ["var", "q"]], {"x": ["var", "p"], "y": ["var", "q"]}),
            (["call", ["var", "g"], [["prod", ["var", "x"], ["var", "y"]]], {"k": ["var", "z"]}],
             ["call", ["var", "g"], [["prod", ["var", "p"], ["var", "q"]]], {"k": ["var", "r"]}],
             {"x": ["var", "p"], "y": ["var", "q"], "z": ["var", "r"]})):
        names_ = sorted(good)
        wrong = ["var", "e"]
        for mask in itertools.product((0, 1), repeat=len(names_)):
            for order in itertools.permutations(names_):
                pre = {n: (good[n] if mask[names_.index(n)] else wrong) for n in order}
                run({"template": T, "target": E, "free": names_, "bound": None, "pre_match": pre})
                n_pm += 1
    parts["multiple_pre_match_cases"] = n_pm

    # ---- random ----
    for i in range(n_random):
        inp = random_input(rng)
        if i < 3:
            samples.append(inp)
        run(inp)
    parts["random_pairs"] = n_random

    known_hits = []
    for e in payload.get("known", []):
        if e.get("native") is None:
            continue
        if replay(e["native"]).get("fails"):
            known_hits.append("%s: %s" % (e.get("id"), e.get("what")))

    parts.update({"outcomes": outcomes, "points_decided_on_matches": decided_points,
                  "violations_by_clause": classes, "suppressed_by_known_fingerprint": suppressed})
    return {"evaluations": evals, "distinct_nontrivial": len(distinct),
            "rule": "real match(template, target, free names, pre_match).  Exhaustive: %d templates (atoms a, b, 1; "
                    "x+y, x*y, f(x), f(x, t=y)) x %d targets (atoms a, c, 0, 1) x 4 choices of free names (incl. the "
                    "function symbol and 'all'), plus 4 pre-matches on a sub-family; then seeded random pairs: 60%% "
                    "targets built from the template by a random substitution (variables, 0/1 for the identity "
                    "rules, function symbols, small terms), children commuted, identities dropped, 12%% with one "
                    "leaf changed; 40%% independent targets; 29%% with a pre-match (right, wrong, or for a name "
                    "that is not free); 8%% passed as strings.  Non-trivial = match returned a substitution (then "
                    "checked at 4 rational points under hash-table function symbols); distinct = distinct inputs"
                    % (len(templates), len(targets)),
            "bound": "template depth <= 3; flattened sums/products of <= %d (template) / <= %d (target) operands; "
                     "each match call cut off after 2 s (counted as timeout, no verdict); calls with <= 2 positional and <= 2 keyword "
                     "arguments, quotients, integer powers, subscripts" % (max_t_width, max_e_width),
            "samples": samples[:4], "failures": failures[:max_fail], "known_hits": known_hits,
            "parts": parts, "exhaustive": False}
