"""C09 — KindInferenceMapper.map_generic_call, map_logical_or / map_logical_and, _get_arg_dict_from_call_stmt.

map_generic_call: the function asked is the registry's entry for the called id; it gets, under every argument key
(position or keyword), the inferred kind of THAT argument or None when it cannot be inferred yet, and the mapper's
check flag; its answer is passed on unchanged (the single kind when one value is demanded, RuntimeError when the
function does not return exactly one value there); any refusal of the function becomes UnableToInferKind.
"""
import z3
from pyvc.values import *  # noqa
from pyvc.contracts import FunctionContract, FunctionUnit

REL = "dagrt/data.py"
B = z3.BoolVal


class VArgDict2(V):
    ty = None

    def __init__(self, items):
        self.items = items          # [(key tag, value tag)]


class VKindDict(V):
    ty = None

    def __init__(self):
        self.d = {}

    def setitem(self, it, idx, v, node):
        k = it.ctx.deref(idx)
        val = it.ctx.deref(v)
        self.d[getattr(k, "py", "?")] = "None" if isinstance(val, VNone) else getattr(val, "py", "?")
        return NONE


class VResult(V):
    ty = None

    def __init__(self, n):
        self.n = n

    def getitem(self, it, idx, node):
        i = it.ctx.deref(idx)
        if isinstance(i, VInt) and z3.is_int_value(z3.simplify(i.t)) and z3.simplify(i.t).as_long() == 0:
            return VPy("result[0]")
        raise Unsupported("index into the result")


class GenericCall(FunctionContract):
    prop = "C09"
    relpath = REL
    qualname = "KindInferenceMapper.map_generic_call"
    exc_hierarchy = {"UnableToInferKind": ["Exception"], "RegistryRefuses": ["Exception"]}

    def __init__(self, single):
        self.single = single
        self.variant_name = "single_return_only=%s" % single

    def params(self, ctx):
        self.asked = None
        self.fail = {}
        ctx.env["self"] = VObj(TObj("KIM", {}), {"function_registry": VReg(self), "check": VPy("self.check"),
                                                 "rec": VFunc("rec", self.m_rec)})
        ctx.env["function_id"] = VPy("function_id")
        ctx.env["arg_dict"] = VArgDict2([("0", "arg0"), ("name", "argname")])
        ctx.env["single_return_only"] = VBool(self.single)
        self.nres = z3.Int("number_of_result_kinds")
        self.refuses = z3.Bool("function_refuses")

    def m_rec(self, ctx, it, args, kw):
        v = ctx.deref(args[0])
        tag = getattr(v, "py", "?")
        fails = z3.Bool("cannot_infer_%s" % tag)
        if ctx.branch(fails, "rec-fails"):
            self.fail[tag] = True
            ctx.raise_("UnableToInferKind")
        self.fail[tag] = False
        return VPy("kind(%s)" % tag)

    def getattr_hook(self, ctx, it, obj, name):
        o = ctx.deref(obj)
        if isinstance(o, VArgDict2) and name == "items":
            return VFunc("items", lambda ctx, it, a, k: VTuple([VTuple([VPy(k_), VPy(v_)]) for k_, v_ in o.items]))
        if isinstance(o, VFuncObj) and name == "get_result_kinds":
            return VFunc(name, o.get_result_kinds)
        return None

    def dict_literal(self, ctx, it, e):
        if e.keys:
            raise Unsupported("dict literal")
        return VKindDict()

    def m_len(self, ctx, it, args, kw):
        v = ctx.deref(args[0])
        if isinstance(v, VResult):
            return VInt(v.n)
        raise Unsupported("len(%r)" % (v,))

    def binop_hook(self, ctx, it, op_, a, b):
        import ast as pyast
        if op_ is pyast.Mod and isinstance(a, VPy):
            return VPy("<message>")
        return None

    names = property(lambda self: {"len": VFunc("len", self.m_len), "UnableToInferKind": VClass("UnableToInferKind")})

    def common(self, st):
        want = {"0": "None" if self.fail.get("arg0") else "kind(arg0)", "name": "None" if self.fail.get("argname") else "kind(argname)"}
        return [("the-registry's-function-for-the-called-id-is-asked-with-the-kind-of-each-argument-under-its-key(None-when-unknown)-and-the-check-flag",
                 B(self.asked == ("function_id", want, "self.check")))]

    @property
    def raises(self):
        return {"UnableToInferKind": lambda st: self.common(st) + [("only-when-the-function-refuses", self.refuses)],
                "RuntimeError": lambda st: self.common(st) + [("only-where-one-value-is-demanded-and-the-function-returns-another-number",
                                                               z3.And(B(self.single), self.nres != 1))],
                "KeyError": lambda st: [("only-for-an-unregistered-function", z3.Bool("function_is_not_registered"))]}

    def ensures(self, st):
        r = st.result
        if self.single:
            ok = isinstance(r, VPy) and r.py == "result[0]"
            return self.common(st) + [("the-single-kind-is-passed-on", z3.And(B(bool(ok)), self.nres == 1))]
        return self.common(st) + [("the-function's-answer-is-passed-on-unchanged", B(isinstance(r, VResult)))]


class VReg(V):
    ty = None

    def __init__(self, c):
        self.c = c

    def getitem(self, it, idx, node):
        k = it.ctx.deref(idx)
        if it.ctx.branch(z3.Bool("function_is_not_registered"), "registry"):
            it.ctx.raise_("KeyError")
        return VFuncObj(self.c, getattr(k, "py", "?"))


class VFuncObj(V):
    ty = None

    def __init__(self, c, fid):
        self.c, self.fid = c, fid

    def get_result_kinds(self, ctx, it, args, kw):
        a = [ctx.deref(x) for x in args]
        d = dict(a[0].d) if isinstance(a[0], VKindDict) else None
        self.c.asked = (self.fid, d, getattr(a[1], "py", "?"))
        if ctx.branch(self.c.refuses, "refuses"):
            ctx.raise_("RegistryRefuses")
        ctx.assume(self.c.nres >= 0)
        return VResult(self.c.nres)


class ArgDict(FunctionContract):
    """_get_arg_dict_from_call_stmt: positional arguments under 0, 1, ..., keyword arguments under their names"""
    prop = "C09"
    relpath = REL
    qualname = "_get_arg_dict_from_call_stmt"

    def params(self, ctx):
        ctx.env["stmt"] = VObj(TObj("stmt", {}), {"parameters": VTuple([VPy("p0"), VPy("p1")]),
                                                   "kw_parameters": VArgDict2([("a", "ka"), ("b", "kb")])})

    def getattr_hook(self, ctx, it, obj, name):
        o = ctx.deref(obj)
        if isinstance(o, VArgDict2) and name == "items":
            return VFunc("items", lambda ctx, it, a, k: VTuple([VTuple([VPy(k_), VPy(v_)]) for k_, v_ in o.items]))
        return None

    def dict_literal(self, ctx, it, e):
        return VKindDict()

    def m_enumerate(self, ctx, it, args, kw):
        v = ctx.deref(args[0])
        return VTuple([VTuple([VPy(str(i)), x]) for i, x in enumerate(v.items)])

    names = property(lambda self: {"enumerate": VFunc("enumerate", self.m_enumerate)})

    def ensures(self, st):
        r = st.result
        return [("every-argument-under-its-position-or-name", B(isinstance(r, VKindDict) and r.d == {"0": "p0", "1": "p1", "a": "ka", "b": "kb"}))]


class MethodResolveArgs(FunctionContract):
    """Function.resolve_args(arg_dict): exactly dagrt.utils.resolve_args(self.arg_names, self.default_dict, arg_dict) - the
    function whose contract is Python's call binding (C01: resolve_args); every get_result_kinds reads its arguments
    through it, in declaration order whatever order the call wrote them in"""
    prop = "C09"
    relpath = "dagrt/function_registry.py"
    qualname = "Function.resolve_args"

    def params(self, ctx):
        ctx.env["self"] = VObj(TObj("Function", {}), {"arg_names": VPy("<self.arg_names>"), "default_dict": VPy("<self.default_dict>")})
        ctx.env["arg_dict"] = VPy("<arg_dict>")
        self.log = []

    def m_resolve(self, ctx, it, args, kw):
        self.log.append((tuple(getattr(ctx.deref(a), "py", "?") for a in args), tuple(sorted(kw))))
        return VPy("<utils.resolve_args(...)>")

    names = property(lambda self: {"resolve_args": VFunc("resolve_args", self.m_resolve)})

    def ensures(self, st):
        r = st._deref(st.result)
        ok = (self.log == [(("<self.arg_names>", "<self.default_dict>", "<arg_dict>"), ())]
              and isinstance(r, VPy) and r.py == "<utils.resolve_args(...)>")
        return [("is-dagrt.utils.resolve_args-on-the-function's-own-argument-names-and-defaults(nothing-else)", z3.BoolVal(ok))]


def units():
    return [FunctionUnit(GenericCall(True)), FunctionUnit(GenericCall(False)), FunctionUnit(ArgDict()),
            FunctionUnit(MethodResolveArgs())]
