"""Discharge obligations: fork-based worker pool over the in-memory z3 terms,
portfolio of seeds, optional cvc5 second opinion through SMT-LIB text."""
import os
import subprocess
import sys
import tempfile
import time
import multiprocessing as mp

import z3

_OBS = []      # global, inherited by forked workers
_AXIOMS = []


class Result:
    def __init__(self, name, status, seconds, backend, model=None, line=None, note=None):
        self.name = name
        self.status = status      # "unsat" (discharged) | "sat" | "unknown"
        self.seconds = seconds
        self.backend = backend
        self.model = model
        self.line = line
        self.note = note

    def as_dict(self):
        d = {"name": self.name, "result": "discharged" if self.status == "unsat" else self.status,
             "backend": self.backend, "seconds": round(self.seconds, 4)}
        if self.line is not None:
            d["line"] = self.line
        return d


def _mk_solver(ob, seed, timeout_ms):
    s = z3.Solver()
    s.set("timeout", timeout_ms)
    if seed:
        s.set("random_seed", seed)
        s.set("smt.random_seed", seed) if False else None
    for ax in _AXIOMS[ob._axioms_ix]:
        s.add(ax)
    for h in ob.hyps:
        s.add(h)
    s.add(z3.Not(ob.goal))
    return s


def _model_text(m, limit=6000):
    try:
        txt = m.sexpr()
    except Exception:
        txt = str(m)
    return txt[:limit]


def _solve_one(args):
    i, timeout_ms, use_cvc5 = args
    ob = _OBS[i]
    t0 = time.time()
    status, backend, model = "unknown", "z3", None
    ext = getattr(ob, "external", None)
    if ext is not None:
        st = "unsat" if ext["ok"] else ("unknown" if ext["ok"] is None else "sat")
        return (i, st, ext["seconds"], ext["backend"], None if ext["ok"] else ext["output"])
    g = z3.simplify(ob.goal)
    if z3.is_true(g):
        return (i, "unsat", time.time() - t0, "simplifier", None)
    for seed in (0, 7, 23):
        try:
            s = _mk_solver(ob, seed, timeout_ms)
            r = s.check()
        except z3.Z3Exception as ex:   # pragma: no cover
            r = z3.unknown
        if r == z3.unsat:
            return (i, "unsat", time.time() - t0, "z3(seed=%d)" % seed, None)
        if r == z3.sat:
            status = "sat"
            try:
                model = _model_text(s.model())
            except Exception:
                model = None
            backend = "z3(seed=%d)" % seed
            break
    if status != "unsat" and use_cvc5:
        r2 = _cvc5(ob, timeout_ms)
        if r2 == "unsat":
            if status == "sat":
                return (i, "disagree", time.time() - t0, "z3-vs-cvc5", model)
            return (i, "unsat", time.time() - t0, "cvc5", None)
    return (i, status, time.time() - t0, backend, model)


def _cvc5(ob, timeout_ms):
    try:
        s = _mk_solver(ob, 0, timeout_ms)
        text = s.to_smt2()
    except Exception:
        return "unknown"
    if "define-fun-rec" in text or "(_ " in text and "define-funs-rec" in text:
        return "unknown"
    text = "(set-logic ALL)\n" + text
    with tempfile.NamedTemporaryFile("w", suffix=".smt2", delete=False) as f:
        f.write(text)
        path = f.name
    try:
        out = subprocess.run(["/usr/bin/cvc5", "--strings-exp", "--tlimit=%d" % timeout_ms, path],
                             capture_output=True, text=True, timeout=timeout_ms / 1000 + 5)
        first = out.stdout.strip().splitlines()[0] if out.stdout.strip() else "unknown"
        return first if first in ("sat", "unsat") else "unknown"
    except Exception:
        return "unknown"
    finally:
        os.unlink(path)


def discharge(obligation_groups, timeout_ms=5000, workers=None, use_cvc5=True):
    """obligation_groups: list of (axioms, [Obligation]).  Returns list[Result]
    aligned with the flattened obligations."""
    global _OBS, _AXIOMS
    _OBS = []
    _AXIOMS = []
    for axioms, obs in obligation_groups:
        _AXIOMS.append(list(axioms))
        for ob in obs:
            ob._axioms_ix = len(_AXIOMS) - 1
            _OBS.append(ob)
    n = len(_OBS)
    if n == 0:
        return []
    workers = workers or min(16, os.cpu_count() or 4, n)
    jobs = [(i, timeout_ms, use_cvc5) for i in range(n)]
    if workers <= 1 or n < 4:
        raw = [_solve_one(j) for j in jobs]
    else:
        ctxm = mp.get_context("fork")
        with ctxm.Pool(workers) as pool:
            raw = pool.map(_solve_one, jobs, chunksize=max(1, n // (workers * 4)))
    out = []
    for i, status, secs, backend, model in raw:
        ob = _OBS[i]
        out.append(Result(ob.name, status, secs, backend, model, ob.line, ob.note))
    return out


def check_sat(axioms, formulas, timeout_ms=3000):
    s = z3.Solver()
    s.set("timeout", timeout_ms)
    for a in axioms:
        s.add(a)
    for f in formulas:
        s.add(f)
    return str(s.check())
