"""Native oracle for C04 (each step runs every statement of the phase once, after its dependencies).

Drives the REAL dagrt.language.ExecutionController (reset, update_plan, __call__) and the real
ExecutionPhase.depends_on on small hand-written phases made of real statement objects, with a recording
fake target whose evaluate_condition / exec_* methods are scripted by the input.

Input (JSON):
  {"stmts": [{"id": "s0", "deps": ["s2", ...], "guard": true|false, "kind": "Assign"|"Call"|"Yield"|"Nop"}, ...],
       list order = order of phase.statements; "deps" order = iteration order of that statement's depends_on
   "roots": null | [ids]     ids handed to the first update_plan of each step, in this order.  null = the real
                             phase.depends_on (the interpreter's own path) in sorted order; "roots_reversed": true
                             reverses it.  An explicit list may be partial (controller started on part of a phase).
   "dyn": {"s1": {"event": "e1"|null, "new_deps": [ids]|null}, ...}   what exec of that statement returns
   "raise_at": id|null       exec of this statement raises in the FIRST step (step cut short)
   "twin": null|"before"|"after"   the method has a second phase (listed before / after this one) with the same statement ids and
                             reversed edges; it is never run
   "steps": 1|2}

Clauses checked on the log of callbacks of each step:
  once            no statement visited (evaluate_condition) or executed (exec_*) twice
  dep-order       a statement is never visited before all statements it depends on have been visited
  guard           guard false -> no exec call, guard true -> exec call right after the visit
  all-visited     a step that is not cut short visits exactly the dependency closure of everything requested
                  (= every statement of the phase when started from phase.depends_on)
  requested-first after exec of X returns new_deps Q: the needed set N (unvisited members of Q and their unvisited
                  dependencies, transitively) is visited before anything else (checked up to the next request)
  events          events come out in execution order
  sinks           phase.depends_on is the set of statements nothing depends on
  reset           a second step after reset() produces the same log as a fresh controller
  crash           the controller itself raises on a well-formed phase (the scripted target only raises `Cut`)
"""
import itertools
import json
import random

from dagrt import language as lang
from pymbolic.primitives import Variable


class OrderedDeps(frozenset):
    """a frozenset whose iteration order is the order given (the property quantifies over iteration orders)"""

    def __new__(cls, items):
        obj = super().__new__(cls, items)
        obj._order = tuple(items)
        return obj

    def __iter__(self):
        return iter(self._order)


class Cut(Exception):
    pass


class Runaway(Exception):
    """the controller keeps calling back far beyond one visit per statement (reported as a `once` violation)"""


def build_twin(inp):
    """another phase of the same method that uses the SAME statement ids (ids need only be unique within a phase) with every
    dependency edge reversed"""
    ids = [s["id"] for s in inp["stmts"]]
    rev = {i: [] for i in ids}
    for s in inp["stmts"]:
        for d in s["deps"]:
            rev[d].append(s["id"])
    stmts = []
    for i in ids:
        st = lang.Assign(assignee="twin_" + i, assignee_subscript=(), expression=2, condition=True, id=i,
                         depends_on=frozenset(rev[i]))
        stmts.append(st)
    return lang.ExecutionPhase("ph2", "ph2", stmts)


def build_phase(inp):
    stmts = []
    for s in inp["stmts"]:
        kind = s.get("kind", "Assign")
        kw = dict(id=s["id"], depends_on=frozenset(s["deps"]))
        if kind == "Nop":
            st = lang.Nop(**kw)
        elif kind == "Call":
            st = lang.AssignFunctionCall(assignees=("x_" + s["id"],), function_id="<func>f", parameters=(),
                                         condition=bool(s.get("guard", True)), **kw)
        elif kind == "Yield":
            st = lang.YieldState(expression=Variable("x"), component_id="c", time=0, time_id="t",
                                 condition=bool(s.get("guard", True)), **kw)
        else:
            st = lang.Assign(assignee="x_" + s["id"], assignee_subscript=(), expression=1,
                             condition=bool(s.get("guard", True)), **kw)
        st.depends_on = OrderedDeps(list(s["deps"]))
        stmts.append(st)
    return lang.ExecutionPhase("ph", "ph", stmts)


class Target:
    def __init__(self, inp, ctrl, step):
        self.guards = {s["id"]: bool(s.get("guard", True)) for s in inp["stmts"]}
        self.kinds = {s["id"]: s.get("kind", "Assign") for s in inp["stmts"]}
        self.dyn = inp.get("dyn") or {}
        self.raise_at = inp.get("raise_at") if step == 0 else None
        self.ctrl = ctrl
        self.log = []           # ("visit", id) | ("exec", id, method) | ("request", id, new_deps, plan snapshot)
        self.limit = 4 * len(inp["stmts"]) + 8
        self.nvisits = 0

    def evaluate_condition(self, stmt):
        self.nvisits += 1
        if self.nvisits > self.limit:
            raise Runaway()
        self.log.append(("visit", stmt.id))
        if self.kinds[stmt.id] == "Nop":
            return True
        return self.guards[stmt.id]

    def _exec(self, method, stmt):
        self.log.append(("exec", stmt.id, method))
        if stmt.id == self.raise_at:
            raise Cut()
        d = self.dyn.get(stmt.id)
        if d is None:
            return None
        if d.get("new_deps") is not None:
            self.log.append(("request", stmt.id, list(d["new_deps"]), list(self.ctrl.plan)))
        return d.get("event"), d.get("new_deps")

    def exec_Assign(self, stmt):
        return self._exec("exec_Assign", stmt)

    def exec_AssignFunctionCall(self, stmt):
        return self._exec("exec_AssignFunctionCall", stmt)

    def exec_YieldState(self, stmt):
        return self._exec("exec_YieldState", stmt)

    def exec_Nop(self, stmt):
        return self._exec("exec_Nop", stmt)


METHOD = {"Assign": "exec_Assign", "Call": "exec_AssignFunctionCall", "Yield": "exec_YieldState", "Nop": "exec_Nop"}

D14 = "d14_requested_dep_already_planned"
REQ_PLANNED = "requested_statement_itself_already_planned"


def well_formed(inp):
    ids = [s["id"] for s in inp["stmts"]]
    if len(set(ids)) != len(ids) or not ids:
        return False
    idset = set(ids)
    deps = {s["id"]: list(s["deps"]) for s in inp["stmts"]}
    for s in inp["stmts"]:
        if not set(s["deps"]) <= idset or len(set(s["deps"])) != len(s["deps"]):
            return False
    # acyclic
    state = {}

    def visit(u):
        if state.get(u) == 1:
            return False
        if state.get(u) == 2:
            return True
        state[u] = 1
        for d in deps[u]:
            if not visit(d):
                return False
        state[u] = 2
        return True
    if not all(visit(u) for u in ids):
        return False
    for k, d in (inp.get("dyn") or {}).items():
        if k not in idset or (d.get("new_deps") is not None and not set(d["new_deps"]) <= idset):
            return False
    if inp.get("roots") is not None and not set(inp["roots"]) <= idset:
        return False
    if inp.get("raise_at") is not None and inp["raise_at"] not in idset:
        return False
    return True


def closure(deps, start, skip=()):
    out = set()
    todo = [x for x in start if x not in skip]
    while todo:
        u = todo.pop()
        if u in out:
            continue
        out.add(u)
        todo.extend(d for d in deps[u] if d not in skip and d not in out)
    return out


def run_step(inp, phase, ctrl, step, roots):
    target = Target(inp, ctrl, step)
    ctrl.reset()
    ctrl.update_plan(phase, roots)
    events = []
    cut = None
    try:
        for ev in ctrl(phase, target):
            events.append(ev)
    except Cut:
        cut = "raised"
    except Runaway:
        cut = "runaway"
    except Exception as ex:      # nothing in the script raises this: the controller itself failed
        cut = "controller raised %s: %s" % (type(ex).__name__, ex)
    return target.log, events, cut


def prefix_model_log(inp, roots, step):
    """what the controller of the pinned snapshot d93a44f (before the D14 repair) does on this input: a plain
    re-statement of its algorithm -- update_plan skips every id that is already planned and puts the new ids
    in front.  Used ONLY to keep the fingerprints narrow: a failure is attributed to D14 / to the
    'already planned' class only if the real log is exactly the log this model predicts."""
    deps = {s["id"]: list(s["deps"]) for s in inp["stmts"]}
    guards = {s["id"]: (True if s.get("kind") == "Nop" else bool(s.get("guard", True))) for s in inp["stmts"]}
    kinds = {s["id"]: s.get("kind", "Assign") for s in inp["stmts"]}
    dyn = inp.get("dyn") or {}
    raise_at = inp.get("raise_at") if step == 0 else None
    plan, executed, log = [], set(), []

    def update(ids):
        early = []

        def add(sid):
            if sid in executed or sid in plan or sid in early:
                return
            for d in deps[sid]:
                add(d)
            early.append(sid)
        for i in ids:
            add(i)
        plan[:0] = early

    update(roots)
    while plan and len(log) < 20 * len(deps) + 20:
        sid = plan.pop(0)
        executed.add(sid)
        log.append(("visit", sid))
        if not guards[sid]:
            continue
        log.append(("exec", sid, METHOD[kinds[sid]]))
        if sid == raise_at:
            break
        d = dyn.get(sid)
        if d is not None and d.get("new_deps") is not None:
            log.append(("request", sid, list(d["new_deps"]), list(plan)))
            update(d["new_deps"])
    return log


def check_step(inp, log, events, cut, roots, tag, as_prefix_model=True):
    """-> list of violations (clause, detail, causes)"""
    deps = {s["id"]: list(s["deps"]) for s in inp["stmts"]}
    guards = {s["id"]: (True if s.get("kind") == "Nop" else bool(s.get("guard", True))) for s in inp["stmts"]}
    kinds = {s["id"]: s.get("kind", "Assign") for s in inp["stmts"]}
    dyn = inp.get("dyn") or {}
    viol = []
    visited = []
    executed = []
    requests = []      # dict(at=index in visited of requester, by, Q, plan, V (visited set then), N, causes)
    expected = closure(deps, roots)
    for k, entry in enumerate(log):
        if entry[0] == "visit":
            sid = entry[1]
            if sid in visited:
                viol.append(("once", "%s: %s visited twice (visits so far %s)" % (tag, sid, visited), set()))
            missing = [d for d in deps[sid] if d not in visited]
            if missing:
                causes = set()
                for d in missing:
                    c = None
                    for r in requests:
                        if sid in r["N"] and sid not in r["plan"] and d in r["plan"] and d not in r["V"]:
                            c = D14
                    causes.add(c)
                viol.append(("dep-order", "%s: %s visited before its dependencies %s (visits so far %s)"
                             % (tag, sid, missing, visited),
                             causes if None not in causes else set()))
            visited.append(sid)
            # guard clause: next entry must be the exec call iff the guard is true
            nxt = log[k + 1] if k + 1 < len(log) else None
            has_exec = nxt is not None and nxt[0] == "exec" and nxt[1] == sid
            if guards[sid] and not has_exec:
                viol.append(("guard", "%s: %s has a true guard but was not executed right after its visit" % (tag, sid), set()))
            if not guards[sid] and has_exec:
                viol.append(("guard", "%s: %s has a false guard but was executed" % (tag, sid), set()))
        elif entry[0] == "exec":
            sid = entry[1]
            if sid in executed:
                viol.append(("once", "%s: %s executed twice" % (tag, sid), set()))
            if not visited or visited[-1] != sid:
                viol.append(("guard", "%s: %s executed without evaluating its guard first" % (tag, sid), set()))
            if entry[2] != METHOD[kinds[sid]]:
                viol.append(("guard", "%s: %s dispatched to %s" % (tag, sid, entry[2]), set()))
            executed.append(sid)
        else:
            _, by, Q, plan = entry
            V = set(visited)
            N = closure(deps, [q for q in Q if q not in V], skip=V)
            causes = set()
            for q in Q:
                if q in V:
                    continue
                if q in plan:
                    causes.add(REQ_PLANNED)
                elif closure(deps, [q], skip=V) & set(plan):
                    causes.add(D14)
            requests.append({"at": len(visited), "by": by, "Q": Q, "plan": plan, "V": V, "N": N, "causes": causes})
            expected |= closure(deps, Q)
    # requested-first, window = visits after the request up to (and including) the next requester
    for k, r in enumerate(requests):
        end = requests[k + 1]["at"] if k + 1 < len(requests) else len(visited)
        window = visited[r["at"]:end]
        head = window[:len(r["N"])]
        bad = [x for x in head if x not in r["N"]]
        if bad:
            viol.append(("requested-first",
                         "%s: %s requested %s; still needed %s (plan then: %s) but %s ran first: visits after the request %s"
                         % (tag, r["by"], r["Q"], sorted(r["N"]), r["plan"], bad, window), set(r["causes"])))
    if cut == "runaway":
        viol.append(("once", "%s: the controller does not terminate: more than %d visits for %d statements (%s ...)"
                     % (tag, len(visited), len(deps), visited[:12]), set()))
    if cut is not None and cut.startswith("controller raised"):
        viol.append(("crash", "%s: %s after visits %s" % (tag, cut, visited), set()))
    if cut is None:
        if set(visited) != expected:
            viol.append(("all-visited", "%s: visited %s, expected exactly %s" % (tag, visited, sorted(expected)), set()))
    if not as_prefix_model:
        # the run does not behave like the pre-repair controller: nothing is attributed to its known defects
        viol = [(c, d, set()) for c, d, _ in viol]
    want_events = [dyn[s]["event"] for s in executed if s in dyn and dyn[s].get("event") is not None
                   and not (cut and s == executed[-1] and s == inp.get("raise_at"))]
    if events != want_events:
        viol.append(("events", "%s: events %s, expected %s" % (tag, events, want_events), set()))
    return viol


def evaluate(inp):
    """-> (violations, info) ; raises ValueError if the input is not a well-formed phase"""
    if not well_formed(inp):
        raise ValueError("not a well-formed phase / script")
    deps = {s["id"]: list(s["deps"]) for s in inp["stmts"]}
    phase = build_phase(inp)
    viol = []
    sinks = set(deps) - {d for ds in deps.values() for d in ds}
    real_roots = phase.depends_on
    if set(real_roots) != sinks:
        viol.append(("sinks", "phase.depends_on = %s, sinks are %s" % (sorted(real_roots), sorted(sinks)), set()))
    if inp.get("roots") is None:
        roots = sorted(real_roots, reverse=bool(inp.get("roots_reversed")))
    else:
        roots = list(inp["roots"])
    phases = [phase]
    if inp.get("twin") == "before":
        phases = [build_twin(inp), phase]
    elif inp.get("twin") == "after":
        phases = [phase, build_twin(inp)]
    code = lang.DAGCode.from_phases_list(phases, "ph")
    ctrl = lang.ExecutionController(code)
    logs = []
    for step in range(int(inp.get("steps", 1))):
        log, events, cut = run_step(inp, phase, ctrl, step, roots)
        logs.append((log, events, cut))
        viol += check_step(inp, log, events, cut, roots, "step %d" % step,
                           as_prefix_model=(log == prefix_model_log(inp, roots, step)))
    if len(logs) > 1:
        # reset clause: the last step on the reused controller must look like a step on a fresh one
        fresh = lang.ExecutionController(code)
        ref = run_step(inp, build_phase(inp), fresh, 1, roots)
        if (logs[-1][0], logs[-1][1], logs[-1][2]) != ref:
            viol.append(("reset", "second step after reset() differs from a step on a fresh controller: %s vs %s"
                         % (logs[-1][0], ref[0]), set()))
    nreq = sum(1 for lg in logs for e in lg[0] if e[0] == "request")
    return viol, {"requests": nreq, "cut": any(lg[2] for lg in logs),
                  "visits": [e[1] for e in logs[0][0] if e[0] == "visit"]}


def interpreter_guard_failure(inp):
    """{"real_guards": {"n0": int, "m0": int}}: the REAL NumpyInterpreter on a hand-written phase in which the same guard
    expression stands on two statements and a statement between them changes the variable it reads.  A statement must take
    effect exactly if its guard holds at the moment it is visited (guards are evaluated per statement, not per expression)."""
    from dagrt.exec_numpy import NumpyInterpreter
    from pymbolic.primitives import Comparison, Sum
    cfg = inp["real_guards"]
    n, m = Variable("<state>n"), Variable("<state>m")
    gn, gm = Comparison(n, ">", 0), Comparison(m, ">", 0)

    def asg(i, name, expr, deps, cond=True):
        return lang.Assign(assignee=name, assignee_subscript=(), expression=expr, condition=cond, id=i, depends_on=frozenset(deps))
    stmts = [asg("s1", "<state>a", Sum((Variable("<state>a"), 1)), [], gn), asg("s2", "<state>n", Sum((n, -1)), ["s1"]),
             asg("s3", "<state>b", Sum((Variable("<state>b"), 1)), ["s2"], gn), asg("s4", "<state>n", Sum((n, 2)), ["s3"]),
             asg("s5", "<state>c", Sum((Variable("<state>c"), 1)), ["s4"], gn),
             asg("t1", "<state>d", Sum((Variable("<state>d"), 1)), [], gm), asg("t2", "<state>m", Sum((m, 1)), ["t1"]),
             asg("t3", "<state>e", Sum((Variable("<state>e"), 1)), ["t2"], gm),
             # guards that are constants: False / 0 never take effect, True always does
             asg("u1", "<state>f", Sum((Variable("<state>f"), 1)), [], False), asg("u2", "<state>f", Sum((Variable("<state>f"), 10)), ["u1"], 0),
             asg("u3", "<state>f", Sum((Variable("<state>f"), 100)), ["u2"], True)]
    if cfg.get("reverse"):
        stmts.reverse()
    code = lang.DAGCode.from_phases_list([lang.ExecutionPhase("ph", "ph", stmts)], "ph")
    it = NumpyInterpreter(code, function_map={})
    st = {"n": cfg["n0"], "m": cfg["m0"], "a": 0, "b": 0, "c": 0, "d": 0, "e": 0, "f": 0}
    it.set_up(t_start=0.0, dt_start=1.0, context=dict(st))
    want = dict(st)
    for _ in range(int(cfg.get("steps", 2))):
        for _ev in it.run_single_step():
            pass
        # program order = the only admissible order of each chain
        if want["n"] > 0:
            want["a"] += 1
        want["n"] -= 1
        if want["n"] > 0:
            want["b"] += 1
        want["n"] += 2
        if want["n"] > 0:
            want["c"] += 1
        if want["m"] > 0:
            want["d"] += 1
        want["m"] += 1
        if want["m"] > 0:
            want["e"] += 1
        want["f"] += 100
        got = {k: it.context["<state>" + k] for k in want}
        if got != want:
            return "real interpreter, guards re-evaluated per statement: state %s, expected %s" % (got, want)
    return None


def interleaved_interpreters_failure(inp):
    """{"interleave": k}: two REAL NumpyInterpreters built from the SAME DAGCode object; the first is suspended at its k-th
    yielded event while the second runs a whole step, then the first is resumed.  Each must run every statement of its own
    step once, after its dependencies (a stepper's plan is its own)."""
    from dagrt.exec_numpy import NumpyInterpreter
    from pymbolic.primitives import Sum
    y = Variable("<state>y")

    def inc(i, deps):
        return lang.Assign(assignee="<state>y", assignee_subscript=(), expression=Sum((y, 1)), condition=True, id=i,
                           depends_on=frozenset(deps))

    def yld(i, deps):
        return lang.YieldState(expression=y, component_id="y", time=0, time_id=i, condition=True, id=i, depends_on=frozenset(deps))
    stmts = [inc("a", []), yld("y1", ["a"]), inc("b", ["y1"]), yld("y2", ["b"]), inc("c", ["y2"])]
    code = lang.DAGCode.from_phases_list([lang.ExecutionPhase("ph", "ph", stmts)], "ph")
    its = [NumpyInterpreter(code, function_map={}) for _ in range(2)]
    for it in its:
        it.set_up(t_start=0.0, dt_start=1.0, context={"y": 0})
    g0 = its[0].run_single_step()
    seen0 = []
    for _ in range(int(inp["interleave"])):
        seen0.append(next(g0))
    ev1 = list(its[1].run_single_step())
    seen0 += list(g0)
    got = [it.context["<state>y"] for it in its]
    ids = [[getattr(e, "time_id", None) for e in evs if hasattr(e, "time_id")] for evs in (seen0, ev1)]
    if got != [3, 3] or ids != [["y1", "y2"], ["y1", "y2"]]:
        return ("two interpreters on one DAGCode, the first suspended after %d event(s): <state>y = %s (expected [3, 3]), yields %s"
                % (inp["interleave"], got, ids))
    return None


def alternating_phases_failure(inp):
    """{"alternating": [phase names in the order of the steps' default successors]}: ONE real NumpyInterpreter on a method
    whose phases reuse the same statement ids with different dependency edges (ids need only be unique within a phase) and
    follow each other.  Every step must run the statements of ITS phase, each once, after its dependencies: every statement
    appends its own digit to <state>y, so the order of a step can be read off the value."""
    from dagrt.exec_numpy import NumpyInterpreter
    from pymbolic.primitives import Sum, Product
    y = Variable("<state>y")

    def app(i, digit, deps):
        return lang.Assign(assignee="<state>y", assignee_subscript=(), expression=Sum((Product((y, 10)), digit)), condition=True,
                           id=i, depends_on=frozenset(deps))
    shapes = {"one": [("s0", 1, []), ("s1", 2, ["s0"])],
              "two": [("s0", 1, []), ("s2", 3, ["s0"]), ("s1", 2, ["s2"])],
              "three": [("s1", 2, []), ("s2", 3, ["s1"]), ("s0", 1, ["s2"])]}
    order = {"one": "12", "two": "132", "three": "231"}
    names = list(inp["alternating"])
    phases = [lang.ExecutionPhase(n, names[(k + 1) % len(names)], [app(*a) for a in shapes[n]]) for k, n in enumerate(names)]
    code = lang.DAGCode.from_phases_list(phases, names[0])
    it = NumpyInterpreter(code, function_map={})
    it.set_up(t_start=0.0, dt_start=1.0, context={"y": 0})
    want = ""
    for k in range(2 * len(names)):
        try:
            for _ev in it.run_single_step():
                pass
        except Exception as ex:            # noqa: BLE001  (a well-formed method: no step may raise)
            return ("one interpreter, phases %s reusing statement ids: step %d (phase %s) raised %s: %s"
                    % (names, k, names[k % len(names)], type(ex).__name__, ex))
        want += order[names[k % len(names)]]
        got = str(it.context["<state>y"])
        if got != want:
            return ("one interpreter, phases %s reusing statement ids: after step %d (phase %s) the statements ran in the order "
                    "%s (digits appended to <state>y), expected %s" % (names, k, names[k % len(names)], got, want))
    return None


def replay(inp):
    if "alternating" in inp:
        d = alternating_phases_failure(inp)
        return {"fails": d is not None, "detail": d}
    if "interleave" in inp:
        d = interleaved_interpreters_failure(inp)
        return {"fails": d is not None, "detail": d}
    if "real_guards" in inp:
        d = interpreter_guard_failure(inp)
        return {"fails": d is not None, "detail": d}
    try:
        viol, info = evaluate(inp)
    except ValueError as ex:
        return {"fails": False, "detail": "outside the domain: %s" % ex}
    except Exception as ex:
        return {"error": "cannot build/evaluate input: %s: %s" % (type(ex).__name__, ex)}
    return {"fails": bool(viol), "detail": "; ".join("[%s] %s" % (c, d) for c, d, _ in viol[:6]) or None}


# ---- fingerprints of known findings ------------------------------------------------

def violation_classes(inp):
    """set of classes of the violations of inp; None stands for 'not explained by a listed class'"""
    try:
        viol, _ = evaluate(inp)
    except Exception:
        return {None}
    out = set()
    for _, _, causes in viol:
        if not causes:
            out.add(None)
        out |= set(causes)
    return out


def fp_only(cls):
    def f(inp):
        return violation_classes(inp) == {cls}
    return f


# D14: at the time of a dynamic request, a requested statement that is neither visited nor planned has a
# (transitive, unvisited) dependency that IS already planned and not yet executed; update_plan puts the requested
# statement in front of that dependency.  Matches only if every violation of the input is of exactly this kind AND
# the whole callback log equals what the pre-repair algorithm (snapshot d93a44f) produces on this input.
# The second class is a different situation with the same root (the requested statement itself is already somewhere
# in the plan and is left where it is, so other planned statements run before it); listed so that such inputs can be
# told apart.  Both were repaired in /repo by commit 6c538a5; on that tree neither occurs.
FINGERPRINTS = {D14: fp_only(D14), REQ_PLANNED: fp_only(REQ_PLANNED)}


# ---- input generation --------------------------------------------------------------

def graphs(n):
    """all DAGs on n nodes numbered topologically: node i may depend on any j < i"""
    pairs = [(i, j) for i in range(n) for j in range(i)]
    for mask in range(1 << len(pairs)):
        deps = [[] for _ in range(n)]
        for b, (i, j) in enumerate(pairs):
            if mask >> b & 1:
                deps[i].append(j)
        yield deps


def mk_input(deps, names, guards=None, rev_deps=False, rev_stmts=False, **kw):
    n = len(deps)
    stmts = []
    kinds = ["Assign", "Call", "Yield", "Nop"]
    for i in range(n):
        ds = [names[j] for j in deps[i]]
        if rev_deps:
            ds.reverse()
        stmts.append({"id": names[i], "deps": ds, "guard": True if guards is None else bool(guards[i]),
                      "kind": kinds[i % 3] if guards is not None and not guards[i] else kinds[i % 4]})
    if rev_stmts:
        stmts.reverse()
    inp = {"stmts": stmts, "roots": None, "dyn": {}, "raise_at": None, "steps": 1}
    inp.update(kw)
    return inp


NAMES = ["s0", "s1", "s2", "s3", "s4", "s5", "s6", "s7", "s8", "s9"]


def exhaustive_inputs(nmax):
    for n in range(1, nmax + 1):
        for deps in graphs(n):
            # static: all guard valuations x iteration orders
            for guards in itertools.product([True, False], repeat=n):
                for rd, rs, rr in itertools.product([False, True], repeat=3):
                    yield "static", mk_input(deps, NAMES, guards, rd, rs, roots_reversed=rr,
                                             steps=2 if (rd and rs and rr) else 1)
            # one dynamic request, started from phase.depends_on
            subsets = [[a] for a in range(n)] + [list(p) for p in itertools.permutations(range(n), 2)]
            for x in range(n):
                for q in subsets:
                    for rd in (False, True):
                        yield "dynamic", mk_input(deps, NAMES, None, rd, False,
                                                  dyn={NAMES[x]: {"event": "ev", "new_deps": [NAMES[k] for k in q]}})
            # the method has a second phase that reuses the ids (statement lookup must stay within the running phase)
            if n <= 3 and any(deps):
                for tw in ("before", "after"):
                    yield "static", mk_input(deps, NAMES, None, False, False, twin=tw, steps=2)
                    for x in range(n):
                        yield "dynamic", mk_input(deps, NAMES, None, False, False, twin=tw,
                                                  dyn={NAMES[x]: {"event": "ev", "new_deps": [NAMES[(x + 1) % n]]}})
            # one dynamic request, controller started on part of the phase
            for r0 in range(n):
                clo = closure({i: deps[i] for i in range(n)}, [r0])
                for x in sorted(clo):
                    for q in range(n):
                        yield "partial", mk_input(deps, NAMES, None, False, False, roots=[NAMES[r0]],
                                                  dyn={NAMES[x]: {"event": None, "new_deps": [NAMES[q]]}})


def random_input(rng, nmax):
    n = rng.randint(2, nmax)
    p = rng.choice([0.2, 0.35, 0.5])
    deps = [[j for j in range(i) if rng.random() < p] for i in range(n)]
    for d in deps:
        rng.shuffle(d)
    names = NAMES[:n]
    rng.shuffle(names)
    guards = [rng.random() < 0.75 for _ in range(n)]
    inp = mk_input(deps, names, guards, False, False)
    rng.shuffle(inp["stmts"])
    if rng.random() < 0.3:
        k = rng.randint(1, max(1, n // 2))
        inp["roots"] = rng.sample(names, k)
    else:
        inp["roots_reversed"] = rng.random() < 0.5
    nreq = rng.choice([0, 1, 1, 2, 3])
    dyn = {}
    for _ in range(nreq):
        x = rng.choice(names)
        q = rng.sample(names, rng.randint(0, min(3, n)))
        dyn[x] = {"event": rng.choice([None, "e_" + x]), "new_deps": q if rng.random() < 0.9 else None}
    if rng.random() < 0.3:
        x = rng.choice(names)
        dyn.setdefault(x, {"event": "y_" + x, "new_deps": []})
    inp["dyn"] = dyn
    if rng.random() < 0.15:
        inp["raise_at"] = rng.choice(names)
    inp["steps"] = rng.choice([1, 2])
    return inp


def bounded(payload):
    budget = payload.get("budget", {}) or {}
    seed = payload.get("seed", 0)
    tier = payload.get("tier", "quick")
    rng = random.Random(seed)
    quick = tier == "quick"
    nmax_exh = budget.get("exhaustive_nodes", 4)
    nrand = budget.get("random", 6000 if quick else 150000)
    nmax = budget.get("max_nodes", 8)
    known_fps = {e.get("fingerprint") for e in payload.get("known", []) if e.get("fingerprint") in FINGERPRINTS}

    evals = 0
    distinct = set()
    new_fail, fp_fail = [], []
    samples = []
    parts = {"static": 0, "dynamic": 0, "partial": 0, "random": 0, "requests_made": 0, "steps_cut_short": 0,
             "failing_inputs": 0, "failing_by_clause": {}, "failing_by_class": {}, "suppressed_by_known": 0,
             "not_well_formed": 0, "duplicates_skipped": 0}

    seen = set()

    def run(inp, src):
        nonlocal evals
        key_ = json.dumps(inp, sort_keys=True)
        if key_ in seen:
            parts["duplicates_skipped"] += 1
            return
        seen.add(key_)
        try:
            viol, info = evaluate(inp)
        except ValueError:
            parts["not_well_formed"] += 1
            return
        evals += 1
        parts[src] += 1
        parts["requests_made"] += info["requests"]
        parts["steps_cut_short"] += 1 if info["cut"] else 0
        nedges = sum(len(s["deps"]) for s in inp["stmts"])
        if len(inp["stmts"]) >= 2 and (nedges or info["requests"]):
            distinct.add(key_)
            if len(samples) < 3 and src == "random" and parts[src] % 400 == 5:
                samples.append({"input": inp, "visits_step0": info["visits"]})
        if viol:
            parts["failing_inputs"] += 1
            clauses = sorted({c for c, _, _ in viol})
            for c in clauses:
                parts["failing_by_clause"][c] = parts["failing_by_clause"].get(c, 0) + 1
            classes = set()
            for _, _, causes in viol:
                classes |= set(causes) if causes else {None}
            label = "+".join(sorted(str(c) for c in classes))
            parts["failing_by_class"][label] = parts["failing_by_class"].get(label, 0) + 1
            fp = next((nm for nm in sorted(FINGERPRINTS) if classes == {nm}), None)
            rec = {"oracle": "+".join(clauses), "input": inp,
                   "detail": "; ".join("[%s] %s" % (c, d) for c, d, _ in viol[:4]),
                   "fingerprint": fp if fp else (label if None not in classes else None)}
            if None not in classes and classes <= known_fps:
                parts["suppressed_by_known"] += 1       # everything wrong with it is a known finding
            elif None in classes:
                new_fail.append(rec)
            else:
                fp_fail.append(rec)

    for n0, m0, rev in itertools.product((1, 0, 2, -1), (0, 1, -1), (False, True)):
        inp = {"real_guards": {"n0": n0, "m0": m0, "reverse": rev, "steps": 2}}
        evals += 1
        parts["real_interpreter_repeated_guard_programs"] = parts.get("real_interpreter_repeated_guard_programs", 0) + 1
        d = interpreter_guard_failure(inp)
        if d:
            new_fail.append({"oracle": "guard", "input": inp, "detail": d, "fingerprint": None})
    for k_ in (0, 1, 2):
        inp = {"interleave": k_}
        evals += 1
        parts["interleaved_interpreters_on_one_code"] = parts.get("interleaved_interpreters_on_one_code", 0) + 1
        d = interleaved_interpreters_failure(inp)
        if d:
            new_fail.append({"oracle": "all-visited", "input": inp, "detail": d, "fingerprint": None})
    for names_ in (["one", "two"], ["two", "one"], ["one", "two", "three"], ["three", "one"], ["two", "three", "one"]):
        inp = {"alternating": names_}
        evals += 1
        parts["alternating_phases_reusing_ids"] = parts.get("alternating_phases_reusing_ids", 0) + 1
        d = alternating_phases_failure(inp)
        if d:
            new_fail.append({"oracle": "all-visited", "input": inp, "detail": d, "fingerprint": None})
    for src, inp in exhaustive_inputs(nmax_exh):
        run(inp, src)
    for _ in range(nrand):
        run(random_input(rng, nmax), "random")

    known_hits = []
    for e in payload.get("known", []):
        try:
            r = replay(e["native"])
        except Exception:
            r = {}
        if r.get("fails"):
            known_hits.append("%s: %s" % (e["id"], e["what"]))
    key = lambda f: len(json.dumps(f["input"]))     # noqa: E731
    new_fail.sort(key=key)
    # show each class of fingerprinted failure, smallest inputs first
    fp_fail.sort(key=lambda f: (key(f)))
    shown, per = [], {}
    for f in fp_fail:
        per[f["fingerprint"]] = per.get(f["fingerprint"], 0) + 1
        if per[f["fingerprint"]] <= 5:
            shown.append(f)
    parts["failing_inputs_with_an_unexplained_violation"] = len(new_fail)
    parts["failing_inputs_explained_by_a_class_not_in_known"] = len(fp_fail)
    return {"evaluations": evals, "distinct_nontrivial": len(distinct),
            "rule": "exhaustive over all DAGs with <= %d statements (topological numbering): (static) x all guard "
                    "valuations x both iteration orders of every depends_on, of phase.statements and of the root list; "
                    "(dynamic) x one request by any statement for any 1 or 2 statements (ordered), started from the real "
                    "phase.depends_on; (partial) controller started on the closure of one statement x one request of one "
                    "statement; then %d seeded random inputs (2..%d statements, shuffled ids and orders, random guards, "
                    "0-3 requests incl. nested ones, 30%% partial starts, 15%% a raising statement, 1-2 steps with "
                    "reset).  Each is run on the real ExecutionController with a recording target.  non-trivial = "
                    ">= 2 statements and (an edge or a request made); distinct = distinct input JSON"
                    % (nmax_exh, nrand, nmax),
            "bound": "<= %d statements exhaustively, <= %d randomly; <= 3 scripted requests of <= 3 ids; 2 steps"
                     % (nmax_exh, nmax),
            "samples": samples, "failures": (new_fail + shown)[:20], "known_hits": known_hits, "parts": parts,
            "exhaustive": False}
