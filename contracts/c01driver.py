"""C01 — the Python generator's drivers (dagrt/codegen/python.py): CodeGenerator.__call__, _pre_lower, lower_function,
_emit_constructor (the phase transition table), _emit_set_up.

Provenance contracts with concrete text (placeholders as in c01emit.py):
  __call__          verifies the method first; for every phase, in sorted name order, lowers THE tree created for that phase
                    under that phase's name, after _pre_lower on the same tree; begin_emit before, finish_emit after
  _pre_lower        _has_yield_inst <=> some statement of the tree is a YieldState
  lower_function    def_begin(name); lower_ast(ast); def_end
  _emit_constructor the emitted table maps every phase name to (its default next phase, the phase function of THAT name)
  _emit_set_up      t, dt from the arguments; every <state> component from context under its bare name; next_phase =
                    the method's initial phase
"""
import ast as pyast
import z3
from z3 import And, Or, Not, Implies, ForAll, Select, Store

from pyvc.values import *  # noqa
from pyvc.contracts import FunctionContract, FunctionUnit
from .c01emit import EmitContract, tree_of

REL = "dagrt/codegen/python.py"
B = z3.BoolVal


class VDag(V):
    ty = None

    def __init__(self, names):
        self.names = list(names)


class VPhases(V):
    ty = None

    def __init__(self, names):
        self.names = list(names)


class CallDriver(FunctionContract):
    prop = "C01"
    relpath = REL
    qualname = "CodeGenerator.__call__"

    def __init__(self, names, sorted_order=False):
        self.pnames = list(names)          # phase names in the dict's (insertion) order
        self.sorted_order = sorted_order   # C15: the phases are emitted in sorted name order (text determinism)
        self.variant_name = "phases=" + "/".join(self.pnames) + (",sorted" if sorted_order else "")
        if sorted_order:
            self.prop = "C15"

    def params(self, ctx):
        self.log = []
        ctx.env["self"] = VObj(TObj("CodeGenerator", {}), {})
        ctx.env["dag"] = VDag(self.pnames)

    def rec(self, what, ret=None):
        def f(ctx, it, args, kw):
            a = tuple(getattr(ctx.deref(x), "py", "dag" if isinstance(ctx.deref(x), VDag) else "?") for x in args)
            self.log.append((what,) + a)
            return ret(a) if ret else NONE
        return f

    def getattr_hook(self, ctx, it, obj, name):
        o = ctx.deref(obj)
        if isinstance(o, VDag) and name == "phases":
            return VPhases(o.names)
        if isinstance(o, VPhases) and name == "keys":
            return VFunc("keys", lambda ctx, it, a, k: VTuple([VPy(n) for n in o.names]))
        return None

    def m_sorted(self, ctx, it, args, kw):
        v = ctx.deref(args[0])
        if isinstance(v, VPhases):
            v = VTuple([VPy(n) for n in v.names])
        if not isinstance(v, VTuple) or kw:
            raise Unsupported("sorted(%r)" % (v,))
        return VTuple(sorted(v.items, key=lambda x: x.py))

    @property
    def calls(self):
        return {"verify_code": self.rec("verify_code"), "self.begin_emit": self.rec("begin_emit"),
                "create_ast_from_phase": self.rec("create_ast", lambda a: VPy("ast-of-%s" % a[1])),
                "self._pre_lower": self.rec("pre_lower"), "self.lower_function": self.rec("lower_function"),
                "self.finish_emit": self.rec("finish_emit"), "self.get_code": self.rec("get_code", lambda a: VPy("<code>"))}

    names = property(lambda self: {"sorted": VFunc("sorted", self.m_sorted)})

    def ensures(self, st):
        def block(n):
            return [("create_ast", "dag", n), ("pre_lower", "ast-of-%s" % n), ("lower_function", n, "ast-of-%s" % n)]
        head, tail = [("verify_code", "dag"), ("begin_emit", "dag")], [("finish_emit", "dag"), ("get_code",)]
        log = self.log
        mid = log[len(head):len(log) - len(tail)]
        blocks = [mid[i:i + 3] for i in range(0, len(mid), 3)]
        each_once = (log[:len(head)] == head and log[len(log) - len(tail):] == tail and len(mid) % 3 == 0
                     and sorted(map(repr, blocks)) == sorted(repr(block(n)) for n in self.pnames))
        out = [("verifies-first-then-lowers-every-phase-exactly-once-with-its-own-tree-and-name", B(bool(each_once))),
               ("returns-the-generated-code", B(getattr(st.result, "py", None) == "<code>"))]
        if self.sorted_order:
            out.append(("phases-are-emitted-in-sorted-name-order(text-does-not-depend-on-the-dict's-order)",
                        B(blocks == [block(n) for n in sorted(self.pnames)])))
        return out


class PreLower(FunctionContract):
    prop = "C01"
    relpath = REL
    qualname = "CodeGenerator._pre_lower"

    def __init__(self, kinds):
        self.kinds = list(kinds)           # e.g. ["Assign", "YieldState", "Assign"]
        self.variant_name = "statements=" + "/".join(self.kinds) if self.kinds else "statements=none"

    def params(self, ctx):
        ctx.env["self"] = ctx.alloc(VObj(TObj("CodeGenerator", {}), {"_has_yield_inst": VPy("<unset>")}))
        ctx.env["ast"] = VPy("<ast>")

    def isinstance_hook(self, ctx, it, obj, names):
        if isinstance(obj, VPy) and isinstance(obj.py, tuple) and obj.py[0] == "stmt" and names == ["YieldState"]:
            return VBool(obj.py[1] == "YieldState")
        return None

    def m_leaves(self, ctx, it, args, kw):
        a = ctx.deref(args[0])
        if not (isinstance(a, VPy) and a.py == "<ast>"):
            raise Unsupported("get_statements_in_ast(%r)" % (a,))
        return VTuple([VPy(("stmt", k, i)) for i, k in enumerate(self.kinds)])

    names = property(lambda self: {"get_statements_in_ast": VFunc("get_statements_in_ast", self.m_leaves),
                                   "YieldState": VClass("YieldState")})

    def ensures(self, st):
        v = st._deref(st._deref(st._env["self"]).fields["_has_yield_inst"])
        return [("flag-says-whether-the-phase-function-contains-a-yield",
                 v.t == B("YieldState" in self.kinds) if isinstance(v, VBool) else B(False))]


class LowerFunction(FunctionContract):
    prop = "C01"
    relpath = REL
    qualname = "CodeGenerator.lower_function"

    def params(self, ctx):
        self.log = []
        ctx.env["self"] = VObj(TObj("CodeGenerator", {}), {})
        ctx.env["function_name"] = VPy("<name>")
        ctx.env["ast"] = VPy("<ast>")

    def rec(self, what):
        def f(ctx, it, args, kw):
            self.log.append((what,) + tuple(getattr(ctx.deref(x), "py", "?") for x in args))
            return NONE
        return f

    calls = property(lambda self: {"self.emit_def_begin": self.rec("def_begin"), "self.lower_ast": self.rec("lower_ast"),
                                   "self.emit_def_end": self.rec("def_end")})

    def ensures(self, st):
        return [("opens-the-phase-function-lowers-the-tree-closes-it",
                 B(self.log == [("def_begin", "<name>"), ("lower_ast", "<ast>"), ("def_end",)]))]


class VFnEmitter(V):
    ty = None

    def __init__(self, name, args):
        self.name, self.args, self.lines = name, args, []

    def call(self, ctx, it, args, kw):
        v = ctx.deref(args[0])
        if not (isinstance(v, VPy) and isinstance(v.py, str)):
            raise Unsupported("emitting %r" % (v,))
        self.lines.append(v.py)
        return NONE


class VPhaseObj(V):
    ty = None

    def __init__(self, name):
        self.name = name


class ConstructorTable(FunctionContract):
    """_emit_constructor: the transition table (and the function symbols)"""
    prop = "C01"
    relpath = REL
    qualname = "CodeGenerator._emit_constructor"
    concrete_fstrings = True

    def __init__(self, names, sorted_order=False):
        self.pnames = list(names)
        self.sorted_order = sorted_order
        self.variant_name = "phases=" + "/".join(self.pnames) + (",sorted" if sorted_order else "")
        if sorted_order:
            self.prop = "C15"

    def params(self, ctx):
        self.emitters = []
        self.incorporated = []
        ctx.env["self"] = VObj(TObj("CodeGenerator", {}), {"_name_manager": VNM(["<func>f", "<func>g"]),
                                                         "_class_emitter": VClsEmitter(self)})
        ctx.env["dag"] = VDag(self.pnames)

    def m_fe(self, ctx, it, args, kw):
        a = [ctx.deref(x) for x in args]
        e = VFnEmitter(getattr(a[0], "py", "?"), tuple(getattr(x, "py", "?") for x in a[1].items) if isinstance(a[1], VTuple) else "?")
        self.emitters.append(e)
        return e

    def getattr_hook(self, ctx, it, obj, name):
        o = ctx.deref(obj)
        if isinstance(o, VDag) and name == "phases":
            return VPhases(o.names)
        if isinstance(o, VDag) and name == "initial_phase":
            return VPy("INITIAL")
        if isinstance(o, VPhases) and name == "items":
            return VFunc("items", lambda ctx, it, a, k: VTuple([VTuple([VPy(n), VPhaseObj(n)]) for n in o.names]))
        if isinstance(o, VPhaseObj) and name == "next_phase":
            return VPy("NEXT_OF_%s" % o.name)
        if isinstance(o, VNM):
            return o.attr(ctx, name)
        if isinstance(o, VClsEmitter) and name == "incorporate":
            return VFunc(name, lambda ctx, it, a, k: (self.incorporated.append(ctx.deref(a[0])), NONE)[1])
        if isinstance(o, VPy) and isinstance(o.py, str):
            return EmitContract.getattr_hook(self, ctx, it, obj, name)
        return None

    def m_sorted(self, ctx, it, args, kw):
        v = ctx.deref(args[0])
        if not isinstance(v, VTuple) or kw:
            raise Unsupported("sorted(%r)" % (v,))
        return VTuple(sorted(v.items, key=lambda x: x.items[0].py if isinstance(x, VTuple) else x.py))

    def comp_table(self, ctx, it, e):
        gen = e.generators[0]
        src = ctx.deref(it.eval(gen.iter))
        if not (isinstance(e, pyast.DictComp) and isinstance(src, VTuple) and not gen.ifs):
            raise Unsupported("table comprehension")
        out = {}
        saved = dict(ctx.env)
        try:
            for x in src.items:
                it.assign(gen.target, x)
                k = ctx.deref(it.eval(e.key))
                v = ctx.deref(it.eval(e.value))
                out[k.py] = tuple(getattr(ctx.deref(z), "py", "?") for z in v.items) if isinstance(v, VTuple) else "?"
        finally:
            ctx.env = saved
        return VPy(("table", tuple(out.items())))

    @property
    def comprehensions(self):
        from .c16 import _comprehensions_of
        return {pyast.unparse(c): self.comp_table for c in _comprehensions_of(REL, self.qualname)}

    def m_repr(self, ctx, it, args, kw):
        v = ctx.deref(args[0])
        if isinstance(v, VPy) and isinstance(v.py, tuple) and v.py[0] == "table":
            return VPy("{" + ", ".join("%r: (%r, %s)" % (k, val[0], val[1]) for k, val in v.py[1]) + "}")
        return VPy("R_%s" % getattr(v, "py", "?"))

    binop_hook = EmitContract.binop_hook
    names = property(lambda self: {"PythonFunctionEmitter": VFunc("PythonFunctionEmitter", self.m_fe),
                                   "sorted": VFunc("sorted", self.m_sorted), "repr": VFunc("repr", self.m_repr),
                                   "BareExpression": VFunc("BareExpression", lambda ctx, it, a, k: ctx.deref(a[0]))})

    def ensures(self, st):
        if len(self.emitters) != 1 or self.incorporated != self.emitters:
            return [("one-function-is-emitted-and-added-to-the-class", B(False))]
        e = self.emitters[0]
        def canon(lines):
            """statements as a list of dumps; the table literal as a key -> value mapping (and its key order)"""
            try:
                mod = pyast.parse("\n".join(l for l in lines if l))
            except SyntaxError as ex:
                return None, None, None
            stmts, table, order = [], None, None
            for st_ in mod.body:
                if isinstance(st_, pyast.Assign) and pyast.unparse(st_.targets[0]) == "self.phase_transition_table" \
                        and isinstance(st_.value, pyast.Dict):
                    table = {pyast.dump(k): pyast.dump(v) for k, v in zip(st_.value.keys, st_.value.values)}
                    order = [pyast.dump(k) for k in st_.value.keys]
                    stmts.append("<table>")
                else:
                    stmts.append(pyast.dump(st_))
            return stmts, table, order
        tbl = "{" + ", ".join("%r: (%r, self.phase_%s)" % (n, "NEXT_OF_%s" % n, n) for n in sorted(self.pnames)) + "}"
        want_lines = ["import numpy", "self._numpy = numpy", "self._functions = self._function_symbol_container()",
                      'F_f = function_map["<func>f"]', 'F_g = function_map["<func>g"]',
                      "self.phase_transition_table = " + tbl]
        g, w = canon(e.lines), canon(want_lines)
        out = [("it-is-__init__(self, function_map)", B(e.name == "__init__" and e.args == ("self", "function_map"))),
               ("every-phase-maps-to-its-default-successor-and-its-own-phase-function;function-symbols-are-bound-by-their-ids",
                B(g[0] is not None and g[0] == w[0] and g[1] == w[1]))]
        if self.sorted_order:
            out.append(("the-table-is-written-in-sorted-name-order", B(g[2] == w[2])))
        return out


class VNM(V):
    ty = None

    def __init__(self, funcs):
        self.funcs = funcs

    def attr(self, ctx, name):
        if name == "function_map":
            return VTuple([VPy(f) for f in self.funcs])
        if name == "name_function":
            return VFunc(name, lambda ctx, it, a, k: VPy("F_%s" % ctx.deref(a[0]).py.replace("<func>", "")))
        if name == "get_global_ids":
            return VFunc(name, lambda ctx, it, a, k: VTuple([VPy("<state>y"), VPy("<p>k"), VPy("<state>z")]))
        if name == "name_global":
            return VFunc(name, lambda ctx, it, a, k: VPy("G_%s" % ctx.deref(a[0]).py.replace("<", "").replace(">", "_")))
        raise Unsupported("name manager .%s" % name)


class VClsEmitter(V):
    ty = None

    def __init__(self, c):
        self.c = c


class SetUp(ConstructorTable):
    qualname = "CodeGenerator._emit_set_up"

    def __init__(self):
        super().__init__(["main"])
        self.variant_name = ""

    def getattr_hook(self, ctx, it, obj, name):
        o = ctx.deref(obj)
        if isinstance(o, VPy) and isinstance(o.py, str) and name == "startswith":
            return VFunc(name, lambda ctx, it, a, k: VBool(o.py.startswith(ctx.deref(a[0]).py)))
        return super().getattr_hook(ctx, it, obj, name)

    def slice_hook(self, *a):
        return None

    def ensures(self, st):
        if len(self.emitters) != 1 or self.incorporated != self.emitters:
            return [("one-function-is-emitted-and-added-to-the-class", B(False))]
        e = self.emitters[0]
        got = tree_of([(0, l) for l in e.lines])
        want = tree_of([(0, l) for l in ["self.t = t_start", "self.dt = dt_start", 'G_state_y = context.get("y")',
                                         'G_state_z = context.get("z")', "self.next_phase = R_INITIAL"]])
        return [("it-is-set_up(self, t_start, dt_start, context)",
                 B(e.name == "set_up" and e.args == ("self", "t_start", "dt_start", "context"))),
                ("time-step-size-every-state-component-under-its-bare-name-and-the-initial-phase-are-set",
                 B(got == want and not got.startswith("SyntaxError")))]


def units_c15():
    """the order clauses (text determinism)"""
    return [FunctionUnit(CallDriver(["b", "a"], sorted_order=True)), FunctionUnit(CallDriver(["p2", "p10", "p1"], sorted_order=True)),
            FunctionUnit(ConstructorTable(["b", "a"], sorted_order=True))]


def units():
    return [FunctionUnit(CallDriver(["b", "a"])), FunctionUnit(CallDriver(["main"])), FunctionUnit(CallDriver(["p2", "p10", "p1"])),
            FunctionUnit(PreLower([])), FunctionUnit(PreLower(["Assign", "Assign"])), FunctionUnit(PreLower(["Assign", "YieldState", "Assign"])),
            FunctionUnit(PreLower(["YieldState"])), FunctionUnit(LowerFunction()),
            FunctionUnit(ConstructorTable(["b", "a"])), FunctionUnit(ConstructorTable(["main"])), FunctionUnit(SetUp())]
