#!/bin/sh
# re-record the discharged-obligation baselines on the current (unchanged) tree; run after every fix: commit
cd "$(dirname "$0")/.." || exit 1
ids=$(python3 -c "import json; print(' '.join(c['property_id'] for c in json.load(open('MANIFEST.json'))['checks']))")
for p in $ids; do ( ./check $p --update-baseline > /tmp/rebase_$p.log 2>&1; echo "$p exit=$? $(tail -1 /tmp/rebase_$p.log)" ) & done; wait
