"""C17 — match(): the driver around the unifier.

Function under contract (read from /repo/dagrt/expression.py on every run): match

Proved: the unifier is built with exactly the declared candidates (the given free names, or all names of the template
minus the bound ones), is run on flatten(template) / flatten(expression) (parsed first when given as text) starting
from nothing or from ONE record that holds exactly the pre_match equations (each of whose names was checked to be a
candidate, ValueError otherwise); on a normal return the result is the set of equations of a record the unifier
returned; when the unifier returns no record ValueError is raised instead.  With A-UNIF for the unifier call (each
returned record unifies the two expressions it was given, extends the initial record, binds only candidates) and
A-FLATTEN (pymbolic.flatten preserves the value) this is the property's statement for match.
"""
import ast as pyast
import z3
from z3 import And, Or, Not, Implies, ForAll, Select, Store, If, BoolSort

from pyvc.values import *  # noqa
from pyvc.contracts import FunctionContract, FunctionUnit
from .dagspec import VarName, VARNAME
from .c08 import Expr, EXPR, NameSet, NAMESET
from .c17 import Rec, RecSet, U, ext, EQV

REL = "dagrt/expression.py"
Text = z3.DeclareSort("Text")
parse_of = z3.Function("parse", Text, Expr)
flat = z3.Function("flatten", Expr, Expr)
names_fs = z3.Function("variables_incl_function_symbols", Expr, NameSet)
binds_only = z3.Function("binds_only", Rec, NameSet, BoolSort())
pm_val = z3.Function("pre_match_expression", VarName, Expr)
pm_text = z3.Function("pre_match_is_text", VarName, BoolSort())
pm_raw = z3.Function("pre_match_text", VarName, Text)


def pm_expr(n):
    """pre_match[name] as an expression (parsed when it is text)"""
    return If(pm_text(n), parse_of(pm_raw(n)), pm_val(n))
has_eq = z3.Function("record_has_equation", Rec, VarName, Expr, BoolSort())
eq_names = z3.Function("names_with_an_equation_in", Rec, NameSet)


class VTextOrExpr(V):
    """an argument that is either text or an expression"""
    ty = None

    def __init__(self, is_text, text, expr):
        self.is_text, self.text, self.expr = is_text, text, expr


class VMaybeSet(V):
    ty = None

    def __init__(self, none, t):
        self.none, self.t = none, t

    def is_none(self):
        return self.none

    def contains(self, it, x):
        x = it.ctx.deref(x)
        return Select(self.t, x.t)


class VPreMatch(V):
    """pre_match: None or a dict name -> expression/text"""
    ty = None

    def __init__(self, none, keys):
        self.none, self.keys = none, keys

    def is_none(self):
        return self.none


def _pm_truth(self, it):
    ne = z3.Bool(fresh_name("pre_match_nonempty"))
    n = z3.Const("n", VarName)
    it.ctx.assume(Implies(Not(ne), ForAll([n], Not(Select(self.keys, n)))))
    return And(Not(self.none), ne)


VPreMatch.truth = _pm_truth


class VPMItems(V):
    ty = None

    def __init__(self, keys):
        self.keys = keys

    def for_loop(self, it, s, k, spec, ex):
        def mk(x):
            return VTuple([VARNAME.wrap(x), VTextOrExpr(pm_text(x), pm_raw(x), pm_val(x))])
        it._for_set(s, k, spec, VSet(NAMESET, self.keys), ex, mk)


class VEqns(V):
    """eqns: the list of (Variable(name), expr) pairs collected from pre_match"""
    ty = None

    def __init__(self, names, ok):
        self.names, self.ok = names, ok       # names collected; ok: every pair is (name, its pre_match value)

    def fresh_like(self, ctx, base):
        return VEqns(z3.Const(fresh_name(base + "_names"), NameSet), z3.Bool(fresh_name(base + "_ok")))


class VVarNode(V):
    ty = None

    def __init__(self, name):
        self.name = name


class VRecord(V):
    ty = None

    def __init__(self, r):
        self.r = r


class VRecList(V):
    """a list of records: None, or the set of its members"""
    ty = None

    def __init__(self, t, none=None, ctx=None):
        self.t = t
        self.none = none if none is not None else z3.BoolVal(False)
        self.nonempty = z3.Bool(fresh_name("nonempty"))
        if ctx is not None:
            e = z3.Const("e", Rec)
            ctx.assume(Implies(Not(self.nonempty), ForAll([e], Not(Select(self.t, e)))))

    def is_none(self):
        return self.none

    def truth(self, it):
        return self.nonempty

    def length(self, it):
        n = z3.Int(fresh_name("n_records"))
        it.ctx.assume(And(n >= 0, (n > 0) == self.nonempty))
        return VInt(n)

    def getitem(self, it, idx, node):
        i = it.ctx.deref(idx)
        if not (isinstance(i, VInt) and z3.is_int_value(z3.simplify(i.t)) and z3.simplify(i.t).as_long() in (0, -1)):
            raise Unsupported("records[%r]" % (i,))
        if not it.ctx.branch(self.nonempty, "index"):
            it.ctx.raise_("IndexError")
        r = z3.Const(fresh_name("picked_record"), Rec)
        it.ctx.assume(Select(self.t, r))       # an element of the list is a member
        return VRecord(r)


class VSubst(V):
    ty = None

    def __init__(self, r):
        self.r = r


class VUnifier(V):
    ty = None

    def __init__(self, cands):
        self.cands = cands


class MatchDriver(FunctionContract):
    prop = "C17"
    relpath = REL
    qualname = "match"
    prune_quantified = False

    def __init__(self):
        self.T = VTextOrExpr(z3.Bool("template_is_text"), z3.Const("template_text", Text), z3.Const("template_expr", Expr))
        self.E = VTextOrExpr(z3.Bool("expression_is_text"), z3.Const("expression_text", Text), z3.Const("expression_expr", Expr))
        self.free_none = z3.Bool("free_variable_names_is_None")
        self.FREE = z3.Const("free_variable_names", NameSet)
        self.bound_none = z3.Bool("bound_variable_names_is_None")
        self.BOUND = z3.Const("bound_variable_names", NameSet)
        self.pm_none = z3.Bool("pre_match_is_None")
        self.PMK = z3.Const("pre_match_keys", NameSet)

    def tval(self, v):
        return If(v.is_text, parse_of(v.text), v.expr)

    def cands(self):
        n = z3.Const("n", VarName)
        bound = If(self.bound_none, z3.K(VarName, z3.BoolVal(False)), self.BOUND)
        allv = names_fs(self.tval(self.T))
        eff = z3.Const("effective_candidates", NameSet)
        return eff, ForAll([n], Select(eff, n) == If(self.free_none, And(Select(allv, n), Not(Select(bound, n))),
                                                     Select(self.FREE, n)))

    def params(self, ctx):
        ctx.env["template"] = self.T
        ctx.env["expression"] = self.E
        ctx.env["free_variable_names"] = VMaybeSet(self.free_none, self.FREE)
        ctx.env["bound_variable_names"] = VMaybeSet(self.bound_none, self.BOUND)
        ctx.env["pre_match"] = VPreMatch(self.pm_none, self.PMK)
        ctx.ghost["run"] = None

    # ---- hooks ---------------------------------------------------------------------------------------------------
    def isinstance_hook(self, ctx, it, obj, names):
        if isinstance(obj, VTextOrExpr) and names == ["str"]:
            return VBool(obj.is_text)
        if isinstance(obj, VElem) and names == ["str"]:
            return VBool(False)
        return None

    def m_parse(self, ctx, it, args, kw):
        v = ctx.deref(args[0])
        if not isinstance(v, VTextOrExpr):
            raise Unsupported("parse(%r)" % (v,))
        # reached only where the argument is text
        return VTextOrExpr(z3.BoolVal(False), v.text, parse_of(v.text))

    def m_set(self, ctx, it, args, kw):
        if not args:
            return VMaybeSet(z3.BoolVal(False), z3.K(VarName, z3.BoolVal(False)))
        v = ctx.deref(args[0])
        if isinstance(v, VMaybeSet):
            return VMaybeSet(z3.BoolVal(False), v.t)
        raise Unsupported("set(%r)" % (v,))

    def m_get_variables(self, ctx, it, args, kw):
        v = ctx.deref(args[0])
        fs = ctx.deref(kw.get("include_function_symbols")) if "include_function_symbols" in kw else None
        if not (isinstance(v, VTextOrExpr) and isinstance(fs, VBool) and z3.is_true(z3.simplify(fs.t))):
            raise Unsupported("get_variables(...)")
        return VMaybeSet(z3.BoolVal(False), names_fs(If(v.is_text, parse_of(v.text), v.expr)))

    def binop_hook(self, ctx, it, op_, a, b):
        if op_ is pyast.Sub and isinstance(a, VMaybeSet) and isinstance(b, VMaybeSet):
            n = z3.Const("n", VarName)
            r = z3.Const(fresh_name("difference"), NameSet)
            ctx.assume(ForAll([n], Select(r, n) == And(Select(a.t, n), Not(Select(b.t, n)))))
            return VMaybeSet(z3.BoolVal(False), r)
        return None

    def contains_hook(self, ctx, it, container, x):
        return None

    def getattr_hook(self, ctx, it, obj, name):
        o = ctx.deref(obj)
        if isinstance(o, VPreMatch) and name == "items":
            return VFunc("items", lambda ctx, it, a, k: VPMItems(o.keys))
        if isinstance(o, VEqns) and name == "append":
            return VFunc("append", lambda ctx, it, a, k: self.m_eq_append(ctx, obj, o, a))
        if isinstance(o, VRecList) and name == "append" and isinstance(obj, VRef):
            def app(ctx, it, a, k):
                r = ctx.deref(a[0])
                if not isinstance(r, VRecord):
                    raise Unsupported("append(%r)" % (r,))
                ctx.store(obj, VRecList(Store(o.t, r.r, True), ctx=ctx))
                return NONE
            return VFunc("append", app)
        if isinstance(o, VFunc) and o.name == "unifier" and name == "unification_record_from_equation":
            def one(ctx, it, a, k):
                v = ctx.deref(a[0])
                r = z3.Const(fresh_name("single_equation_record"), Rec)
                if isinstance(v, VVarNode):
                    ctx.assume(eq_names(r) == Store(z3.K(VarName, z3.BoolVal(False)), v.name, True))
                return VRecord(r)
            return VFunc(name, one)
        if isinstance(o, VRecord) and name == "equations":
            return VPy(("equations-of", o))
        if isinstance(o, (VPy, VStr)) and name == "format":
            return VFunc("format", lambda ctx, it, a, k: VPy("<message>"))
        return None

    def m_eq_append(self, ctx, ref, o, args):
        t = ctx.deref(args[0])
        good = z3.BoolVal(False)
        names = o.names
        if isinstance(t, VTuple) and len(t.items) == 2 and isinstance(t.items[0], VVarNode):
            nm = t.items[0].name
            v = t.items[1]
            if isinstance(v, VTextOrExpr):
                good = And(Not(v.is_text), v.expr == pm_expr(nm))
            names = Store(o.names, nm, True)
        ctx.store(ref, VEqns(names, And(o.ok, good)))
        return NONE

    def list_literal(self, ctx, it, e):
        if not e.elts and self._targets().get((e.lineno, e.col_offset)) == "urecs":
            # a list of records built one by one (not the shape of the current source: kept so that such a
            # restructuring is decided, not just undecided)
            return ctx.alloc(VRecList(z3.K(Rec, z3.BoolVal(False)), ctx=ctx))
        if not e.elts:
            return ctx.alloc(VEqns(z3.K(VarName, z3.BoolVal(False)), z3.BoolVal(True)))
        if len(e.elts) == 1:
            v = ctx.deref(it.eval(e.elts[0]))
            if isinstance(v, VRecord):
                return VRecList(Store(z3.K(Rec, z3.BoolVal(False)), v.r, True), ctx=ctx)
        raise Unsupported("list literal")

    def dict_literal(self, ctx, it, e):
        return VPy("<a dict literal>")

    def _targets(self):
        if not hasattr(self, "_lt"):
            self._lt = {}
            for n in pyast.walk(self.load().node):
                if isinstance(n, pyast.Assign) and isinstance(n.value, pyast.List) and len(n.targets) == 1 \
                        and isinstance(n.targets[0], pyast.Name):
                    self._lt[(n.value.lineno, n.value.col_offset)] = n.targets[0].id
        return self._lt

    def m_urec(self, ctx, it, args, kw):
        eq = ctx.deref(args[0])
        if not isinstance(eq, VEqns):
            raise Unsupported("UnificationRecord(%r)" % (eq,))
        r = z3.Const(fresh_name("initial_record"), Rec)
        ctx.assume(eq_names(r) == eq.names)
        ctx.ghost["initial"] = (r, eq)
        return VRecord(r)

    def m_unifier_cls(self, ctx, it, args, kw):
        c = ctx.deref(args[0])
        if not isinstance(c, VMaybeSet):
            raise Unsupported("_ExtendedUnifier(%r)" % (c,))
        return VFunc("unifier", lambda ctx, it, a, k: self.m_unify(ctx, it, c, a, k))

    def m_flatten(self, ctx, it, args, kw):
        v = ctx.deref(args[0])
        if not isinstance(v, VTextOrExpr):
            raise Unsupported("flatten(%r)" % (v,))
        return EXPR.wrap(flat(If(v.is_text, parse_of(v.text), v.expr)))

    def m_unify(self, ctx, it, cands, args, kw):
        """A-UNIF for the top-level call of the unifier"""
        a = [ctx.deref(x) for x in args]
        if len(a) != 3 or kw:
            raise Unsupported("unifier call shape")
        t, e, init = a

        def term(v):
            if isinstance(v, VTextOrExpr):
                return If(v.is_text, parse_of(v.text), v.expr)
            if isinstance(v, VElem) and v.ty is EXPR:
                return v.t
            raise Unsupported("unifier argument %r" % (v,))
        tt, et = term(t), term(e)
        out = z3.Const(fresh_name("records"), RecSet)
        r = z3.Const("r", Rec)
        init_none = init.is_none() if hasattr(init, "is_none") else z3.BoolVal(isinstance(init, VNone))
        ini = init.t if isinstance(init, VRecList) else z3.K(Rec, z3.BoolVal(False))
        r0 = z3.Const("r0", Rec)
        src = z3.Function(fresh_name("from"), Rec, Rec)
        ctx.assume(ForAll([r], Implies(Select(out, r), And(
            U(r, tt, et), binds_only(r, cands.t),
            Implies(Not(init_none), And(Select(ini, src(r)), ext(r, src(r))))))))
        ctx.ghost["run"] = dict(template=tt, target=et, cands=cands.t, init=init, out=out, init_none=init_none)
        return VRecList(out, ctx=ctx)

    def comp_result(self, ctx, it, e):
        # {key.name: val for key, val in records[0].equations}
        gen = e.generators[0]
        src = ctx.deref(it.eval(gen.iter))
        ok = (isinstance(e, pyast.DictComp) and isinstance(src, VPy) and isinstance(src.py, tuple) and src.py[0] == "equations-of"
              and not gen.ifs and isinstance(gen.target, pyast.Tuple) and len(gen.target.elts) == 2
              and pyast.unparse(e.key) == pyast.unparse(gen.target.elts[0]) + ".name"
              and pyast.unparse(e.value) == pyast.unparse(gen.target.elts[1]))
        if not ok:
            raise Unsupported("result comprehension %s" % pyast.unparse(e))
        return VSubst(src.py[1].r)

    @property
    def comprehensions(self):
        from .c16 import _comprehensions_of
        return {pyast.unparse(c): self.comp_result for c in _comprehensions_of(REL, self.qualname)}

    @property
    def names(self):
        return {"parse": VFunc("parse", self.m_parse), "set": VFunc("set", self.m_set),
                "get_variables": VFunc("get_variables", self.m_get_variables),
                "Variable": VFunc("Variable", lambda ctx, it, a, k: VVarNode(ctx.deref(a[0]).t)),
                "UnificationRecord": VFunc("UnificationRecord", self.m_urec),
                "_ExtendedUnifier": VFunc("_ExtendedUnifier", self.m_unifier_cls),
                "flatten": VFunc("flatten", self.m_flatten),
                "warn": VFunc("warn", lambda ctx, it, a, k: NONE)}

    def compare_hook(self, ctx, it, op_, a, b, node):
        # name not in free_variable_names
        if isinstance(op_, (pyast.In, pyast.NotIn)) and isinstance(b, VMaybeSet) and isinstance(a, VElem):
            r = Select(b.t, a.t)
            return Not(r) if isinstance(op_, pyast.NotIn) else r
        return None

    # ---- loop over pre_match ------------------------------------------------------------------------------
    def inv(self, s):
        n = z3.Const("n", VarName)
        eq = s.eqns
        proc = s.loop(0)["$proc"].t
        fv = s.free_variable_names
        return [("collected-exactly-the-processed-pairs", And(eq.ok, eq.names == proc)),
                ("every-processed-name-is-a-candidate", ForAll([n], Implies(Select(proc, n), Select(fv.t, n))))]

    loops = property(lambda self: {0: dict(shape="for (name, expr) in pre_match.items()", inv=self.inv)})

    raises = {"ValueError": lambda st: []}      # the documented 'no match' / 'not a candidate' outcome

    # ---- postcondition ----------------------------------------------------------------------------------------
    def ensures(self, st):
        r = st.result
        run = st.g("run")
        if not isinstance(r, VSubst) or run is None:
            return [("returns-the-equations-of-a-record-of-the-unifier", z3.BoolVal(False))]
        eff, eff_def = self.cands()
        n = z3.Const("n", VarName)
        out = [
            ("result-is-a-record-the-unifier-returned", Select(run["out"], r.r)),
            ("unifier-ran-on-the-flattened-template-and-target(parsed-when-given-as-text)",
             And(run["template"] == flat(self.tval(self.T)), run["target"] == flat(self.tval(self.E)))),
            ("candidates-are-the-declared-free-names-or-all-names-of-the-template-minus-the-bound-ones",
             Implies(eff_def, ForAll([n], Select(run["cands"], n) == Select(eff, n)))),
            ("no-initial-record-iff-no-pre_match", run["init_none"] == self.pm_none),
        ]
        init = st._ghost.get("initial")
        if init is not None:
            r0, eq = init
            ini = run["init"]
            out.append(("the-initial-record-holds-exactly-the-pre_match-equations",
                        Implies(Not(self.pm_none), And(eq.ok, eq.names == self.PMK,
                                                      isinstance(ini, VRecList) and ini.t == Store(z3.K(Rec, z3.BoolVal(False)), r0, True)))))
            out.append(("every-pre_match-name-is-a-candidate",
                        Implies(Not(self.pm_none), ForAll([n], Implies(Select(self.PMK, n), Select(run["cands"], n))))))
        else:
            out.append(("pre_match-is-None-on-this-path", self.pm_none))
        return out


def units():
    return [FunctionUnit(MatchDriver())]
