#!/usr/bin/env python3
"""tools/add_known.py PROP FINGERPRINT ID "what fails" ["why not fixed"]
Runs the native oracle with no known findings, takes the first failing input that matches
FINGERPRINT and records it in known_findings.json (a committed file; checks never write it)."""
import json, os, subprocess, sys
HERE = os.path.dirname(os.path.dirname(os.path.abspath(__file__)))
prop, fp, fid, what = sys.argv[1:5]
why = sys.argv[5] if len(sys.argv) > 5 else ""
payload = {"tier": "quick", "seed": int(os.environ.get("SEED", "0")), "budget": {}, "known": []}
env = dict(os.environ, PYTHONPATH="/repo:" + HERE, PYTHONHASHSEED="0")
p = subprocess.run(["/venv/bin/python", os.path.join(HERE, "replay/run.py"), prop, "bounded"],
                   input=json.dumps(payload), capture_output=True, text=True, env=env, cwd=HERE)
out = json.loads(p.stdout.strip().splitlines()[-1])
def fps(f):
    r = []
    for k in ("matching_fingerprints", "matches_fingerprints"):
        r += list(f.get(k) or [])
    for k in ("fingerprint", "matches_fingerprint"):
        if f.get(k):
            r.append(f[k])
    return r
cands = [f for f in out["failures"] if fp in fps(f)]
if not cands:
    sys.exit("no failing input matches fingerprint %s (have: %s)" % (fp, sorted({x for f in out["failures"] for x in fps(f)})))
inp = cands[0]["input"]
path = os.path.join(HERE, "known_findings.json")
d = json.load(open(path))
d["findings"] = [e for e in d["findings"] if not (e["property"] == prop and e["id"] == fid)]
d["findings"].append({"id": fid, "property": prop, "what": what, "fingerprint": fp, "native": inp,
                      "detail_when_recorded": str(cands[0].get("detail"))[:300], "why_not_fixed": why})
json.dump(d, open(path, "w"), indent=1)
print("recorded", fid, json.dumps(inp)[:200])
