"""StatementBase.__init__ (dagrt/language.py): what a statement records is what it was given.

Every property that speaks about recorded dependencies (C02, C10, C16) reads `stmt.depends_on` and `stmt.id`, and every pass
builds statements through this constructor (directly or through `copy(...)`).  Contract, for every set of keyword arguments:

  * the record constructor (`super().__init__`) is called exactly once, with keywords only;
  * `id` reaches it with the same text (`intern` returns an equal string), or None where no id / None was given;
  * `depends_on` reaches it as the frozenset of exactly the given elements - nothing removed (not even the statement's own
    id) and nothing added - or as the empty frozenset where none was given;
  * every other keyword argument reaches it unchanged, none dropped and none added.

The keyword dictionary is modelled with concrete keys and symbolic values, in four variants (id given / None / absent,
depends_on given / absent), each with two further fields."""
import z3
from z3 import And, Not, BoolVal

from pyvc.values import *  # noqa
from pyvc.contracts import FunctionContract, FunctionUnit

from .dagspec import Id as StmtId, ID

IDSET = TSet(ID)


class VKw(V):
    """**kwargs: concrete keys, symbolic values"""
    ty = None

    def __init__(self, items):
        self.items = dict(items)

    def fresh_like(self, ctx, base):
        return self


def _kw_pop(ctx, it, obj, args, kw):
    o = ctx.deref(obj)
    if kw or not (1 <= len(args) <= 2):
        raise Unsupported("kwargs.pop(%r, %r)" % (args, kw))
    k = ctx.deref(args[0])
    key = k.py if isinstance(k, VPy) else None
    if not isinstance(key, str):
        raise Unsupported("kwargs.pop of a key that is not a literal")
    if key in o.items:
        return o.items.pop(key)
    if len(args) == 2:
        return args[1]
    ctx.raise_("KeyError")


VKw.methods = {"pop": _kw_pop}


class VEmptyList(V):
    ty = None


class StmtInit(FunctionContract):
    relpath = "dagrt/language.py"
    qualname = "StatementBase.__init__"

    def __init__(self, prop, id_mode, deps_given):
        self.prop = prop
        self.id_mode, self.deps_given = id_mode, deps_given
        self.variant_name = "id=%s,depends_on=%s" % (id_mode, "given" if deps_given else "absent")
        self.id_text = z3.Const("given_id", StmtId)
        self.deps = z3.Const("given_depends_on", IDSET.sort)
        self.extra = {"assignee": VPy("<the assignee given>"), "condition": VPy("<the condition given>")}

    def params(self, ctx):
        items = dict(self.extra)
        if self.id_mode == "text":
            items["id"] = ID.wrap(self.id_text)
        elif self.id_mode == "None":
            items["id"] = NONE
        if self.deps_given:
            items["depends_on"] = VSet(IDSET, self.deps)
        ctx.env["self"] = VObj(TObj("StatementBase", {}), {})
        ctx.env["kwargs"] = VKw(items)
        ctx.ghost["record_built"] = z3.IntVal(0)

    def _collection(self, ctx, it, elts):
        t = z3.K(StmtId, False)
        for x in elts:
            v = ctx.deref(it.eval(x))
            if not (isinstance(v, VElem) and v.ty is ID):
                raise Unsupported("a collection holding %r" % (v,))
            t = z3.Store(t, v.t, True)
        return VSet(IDSET, t)

    def list_literal(self, ctx, it, e):
        if not e.elts:
            return VEmptyList()
        return self._collection(ctx, it, e.elts)

    def m_intern(self, ctx, it, args, kw):
        a = ctx.deref(args[0]) if len(args) == 1 and not kw else None
        if not (isinstance(a, VElem) and a.ty is ID):
            raise Unsupported("intern(%r)" % (args,))
        return a                                   # trusted: sys.intern returns an equal string

    def m_frozenset(self, ctx, it, args, kw):
        if kw or len(args) > 1:
            raise Unsupported("frozenset(%r, %r)" % (args, kw))
        if not args:
            return VSet(IDSET, z3.K(StmtId, False))
        a = ctx.deref(args[0])
        if isinstance(a, VEmptyList) or (isinstance(a, VTuple) and not a.items):
            return VSet(IDSET, z3.K(StmtId, False))
        if isinstance(a, VSet):
            return VSet(IDSET, a.t)
        raise Unsupported("frozenset(%r)" % (a,))

    def m_super_init(self, ctx, it, args, kw):
        if args:
            raise Unsupported("the record constructor is given positional arguments")
        kw = dict(kw)
        rest = kw.pop(None, None)
        rest = ctx.deref(rest) if rest is not None else None
        if rest is not None and not isinstance(rest, VKw):
            raise Unsupported("**%r" % (rest,))
        passed = dict(rest.items) if rest is not None else {}
        for k, v in kw.items():
            if k in passed:
                ctx.raise_("TypeError")             # a keyword given twice
            passed[k] = v
        o = it.oname
        # id
        got = ctx.deref(passed["id"]) if "id" in passed else None
        if self.id_mode == "text":
            ctx.oblige(o("the-id-reaches-the-record-with-the-same-text"),
                       got.t == self.id_text if isinstance(got, VElem) and got.ty is ID else BoolVal(False))
        else:
            ctx.oblige(o("no-id-given-means-the-record's-id-is-None"), BoolVal(got is NONE or isinstance(got, VNone)))
        # depends_on
        gd = ctx.deref(passed["depends_on"]) if "depends_on" in passed else None
        want = self.deps if self.deps_given else z3.K(StmtId, False)
        ctx.oblige(o("depends_on-reaches-the-record-as-the-set-of-exactly-the-given-elements"),
                   gd.t == want if isinstance(gd, VSet) else BoolVal(False))
        # the other fields
        others = {k: v for k, v in passed.items() if k not in ("id", "depends_on")}
        same = set(others) == set(self.extra) and all(ctx.deref(others[k]) is self.extra[k] for k in self.extra)
        ctx.oblige(o("every-other-keyword-reaches-the-record-unchanged-none-dropped-none-added"), BoolVal(same))
        ctx.ghost["record_built"] = ctx.ghost["record_built"] + 1
        return NONE

    calls = property(lambda self: {"super().__init__": self.m_super_init})
    names = property(lambda self: {"intern": VFunc("intern", self.m_intern), "frozenset": VFunc("frozenset", self.m_frozenset)})

    def ensures(self, st):
        return [("the-record-is-built-exactly-once", st.g("record_built") == 1)]


def units(prop):
    return [FunctionUnit(StmtInit(prop, m, d)) for m in ("text", "None", "absent") for d in (True, False)]


TRUSTED = ("sys.intern(s) returns a string equal to s; the record base class (pytools.Record) stores the keyword arguments it is "
           "given as the attributes of the same names (StatementBase.__init__ is under contract to hand it the given id, the "
           "frozenset of exactly the given dependencies and every other keyword unchanged)")
