"""Native oracle for C01 (interpreter == generated Python class == program order).

Drives the REAL dagrt code: the program is replayed call by call into the real `CodeBuilder`, the
resulting `DAGCode` is run (a) by the real `NumpyInterpreter` and (b) by the class that the real
`dagrt.codegen.python.CodeGenerator(...).get_class(code)` produces, and both are compared with (c) an
independent *program-order executor* (class `Ref` below) that carries out the builder calls one after
the other as written.  Compared: the full event sequence of `run(...)` (StateComputed: t, time id,
component, value; StepCompleted: dt, t, current phase, next phase; StepFailed: t; kind of an error
that leaves `run`), and after every step (completed, failed or raised) the persistent variables and
`next_phase`.

Input (JSON, self-contained):
  {"phases": [{"name": str, "next": str, "body": [stmt, ...]}, ...],   # dict order = list order
   "initial": str,
   "funcs":  {"<func>f": ["lin", a, b] | ["sq"] | ["pair"] | ["mix"] | ["vsum"] | ["rhs"] | ["vpair"]},
   "state":  {name: number | [numbers]},          # initial <state>name values (list -> numpy array)
   "t0": number, "dt": number,
   "run": {"max_steps": int|null, "t_end": number|null},
   "cap": int}                                      # at most this many events are drawn from run()
stmt:
  ["assign", name, expr]                      cb(name, expr)
  ["assign", name, expr, loops]               cb(name, expr, loops=[(ident, lo, hi), ...])
  ["assign_sub", name, idx, expr, loops]      cb(name[idx], expr, loops=...)
  ["call", [names], fname, [args], {kw}]      cb((names...), fname(*args, **kw))   (AssignFunctionCall)
  ["if", cond, [stmts], [stmts]|null]         with cb.if_(cond): ...  / with cb.else_(): ...
  ["yield", expr, component, time_expr, time_id]
  ["fail"] | ["switch", phase] | ["restart"] | ["raise", excname, msg]
expr (same codec as c08):
  number | bool | "name" | {"npc": [dtype, "repr"]} (numpy scalar constant) | {"arrc": [numbers]} (numpy array constant) | ["+"|"-"|"*"|"/"|"**", e, e] | ["[]", e, e] | ["call", fname, [e..], {kw: e}] |
  ["cmp", op, e, e] | ["not", e] | ["and"|"or", e, e, ...] | ["if", c, t, e]

Domain (inputs outside are skipped, never reported): every variable is assigned on every program-order
path before it is read (temporaries within the step; `<p>` variables by the unconditional prologue of
the initial phase), array elements are written before they are read, expression evaluation itself never
raises in program order (no division by zero, indices in range, no overflow), loop identifiers are not
used as ordinary variables, user functions are pure.
"""
import copy
import json
import random

import numpy as np
import pymbolic.primitives as P

from dagrt import language as lang
from dagrt.exec_numpy import NumpyInterpreter
from dagrt.codegen.python import CodeGenerator as PyCodeGenerator


# ---- small helpers ---------------------------------------------------------------------------------

def is_persistent(name):
    """what outlives a step according to the property anchors (<state>, <p>, <t>, <dt>)"""
    return name in ("<t>", "<dt>") or name.startswith("<state>") or name.startswith("<p>")


RET_PREFIXES = ("<ret_state>", "<ret_time_id>", "<ret_time>")


class MethodError(Exception):
    pass


EXC_CLASSES = {"ValueError": ValueError, "RuntimeError": RuntimeError,
               "ArithmeticError": ArithmeticError, "MethodError": MethodError}


class DomainError(Exception):
    """the input is outside the property's domain (reference execution is undefined)"""


def key_of(inp):
    return json.dumps(inp, sort_keys=True)


# ---- expression codec: JSON -> pymbolic ----------------------------------------------------------------

def dec(e):
    if isinstance(e, str):
        return P.Variable(e)
    if isinstance(e, (bool, int, float)) or e is None:
        return e
    if isinstance(e, dict):
        # constants of numpy types (leaves): {"npc": [dtype, "repr"]} a numpy scalar, {"arrc": [numbers]} a 1-d array constant
        if "npc" in e:
            return getattr(np, e["npc"][0])(float(e["npc"][1]))
        return np.array(e["arrc"])
    op = e[0]
    if op == "+":
        return P.Sum((dec(e[1]), dec(e[2])))
    if op == "*":
        return P.Product((dec(e[1]), dec(e[2])))
    if op == "-":
        return P.Sum((dec(e[1]), P.Product((-1, dec(e[2])))))
    if op == "/":
        return P.Quotient(dec(e[1]), dec(e[2]))
    if op == "**":
        return P.Power(dec(e[1]), dec(e[2]))
    if op == "[]":
        return P.Subscript(dec(e[1]), dec(e[2]))
    if op == "call":
        args = tuple(dec(a) for a in e[2])
        kw = e[3] if len(e) > 3 and e[3] else {}
        if kw:
            return P.Variable(e[1])(*args, **{k: dec(v) for k, v in kw.items()})
        return P.Call(P.Variable(e[1]), args)
    if op == "cmp":
        return P.Comparison(dec(e[2]), e[1], dec(e[3]))
    if op == "not":
        return P.LogicalNot(dec(e[1]))
    if op == "and":
        return P.LogicalAnd(tuple(dec(x) for x in e[1:]))
    if op == "or":
        return P.LogicalOr(tuple(dec(x) for x in e[1:]))
    if op == "if":
        return P.If(dec(e[1]), dec(e[2]), dec(e[3]))
    raise ValueError("unknown expression form %r" % (e,))


def walk_expr(e):
    """yield every sub-expression (JSON form)"""
    yield e
    if isinstance(e, list):
        op = e[0]
        if op == "call":
            for a in e[2]:
                yield from walk_expr(a)
            for a in (e[3] if len(e) > 3 and e[3] else {}).values():
                yield from walk_expr(a)
        elif op == "cmp":
            yield from walk_expr(e[2])
            yield from walk_expr(e[3])
        else:
            for a in e[1:]:
                yield from walk_expr(a)


def stmt_exprs(s):
    k = s[0]
    if k == "assign":
        yield s[2]
        for lp in (s[3] if len(s) > 3 and s[3] else []):
            yield lp[1]
            yield lp[2]
    elif k == "assign_sub":
        yield s[2]
        yield s[3]
        for lp in (s[4] if len(s) > 4 and s[4] else []):
            yield lp[1]
            yield lp[2]
    elif k == "call":
        yield ["call", s[2], s[3], s[4] if len(s) > 4 else {}]
    elif k == "if":
        yield s[1]
    elif k == "yield":
        yield s[1]
        yield s[3]


def walk_stmts(body, guards=()):
    """yield (stmt, enclosing if-statements) for every statement, recursively"""
    for s in body:
        yield s, guards
        if s[0] == "if":
            yield from walk_stmts(s[2], guards + (s,))
            if len(s) > 3 and s[3]:
                yield from walk_stmts(s[3], guards + (s,))


def all_stmts(inp):
    for ph in inp["phases"]:
        yield from walk_stmts(ph["body"])


def stmt_loops(s):
    if s[0] == "assign":
        return s[3] if len(s) > 3 and s[3] else []
    if s[0] == "assign_sub":
        return s[4] if len(s) > 4 and s[4] else []
    return []


def names_in(inp):
    out = set()
    for s, _ in all_stmts(inp):
        if s[0] in ("assign", "assign_sub"):
            out.add(s[1])
        if s[0] == "call":
            out.update(s[1])
        for e in stmt_exprs(s):
            for sub in walk_expr(e):
                if isinstance(sub, str):
                    out.add(sub)
    return out


# ---- user functions ------------------------------------------------------------------------------------

def make_function(spec):
    kind = spec[0]
    if kind == "lin":
        a, b = spec[1], spec[2]
        return lambda x, tag=0: a * x + b
    if kind == "sq":
        return lambda x, tag=0: x * x
    if kind == "pair":
        return lambda x, tag=0: (x + 1, 2 * x)
    if kind == "mix":
        return lambda x, y=1, tag=0: x + 2 * y
    if kind == "vsum":
        return lambda x, tag=0: float(np.sum(x))
    if kind == "rhs":               # ODE right-hand side f(t, y) (used by the C15 method descriptions)
        return lambda t, y: -0.5 * y + t
    if kind == "vpair":
        return lambda a, b: (a + b, a - b)
    raise ValueError("unknown function spec %r" % (spec,))


def function_map(inp, wrap=None):
    out = {}
    for name in sorted(inp.get("funcs", {})):
        f = make_function(inp["funcs"][name])
        out[name] = wrap(name, f) if wrap else f
    return out


# ---- replay of the builder calls into the REAL CodeBuilder ----------------------------------------------

def _loops(lps):
    return [(lp[0], dec(lp[1]), dec(lp[2])) for lp in lps]


def emit_body(cb, body):
    for s in body:
        k = s[0]
        if k == "assign":
            lps = s[3] if len(s) > 3 and s[3] else []
            if lps:
                cb(P.Variable(s[1]), dec(s[2]), loops=_loops(lps))
            else:
                cb(P.Variable(s[1]), dec(s[2]))
        elif k == "assign_sub":
            lps = s[4] if len(s) > 4 and s[4] else []
            cb(P.Subscript(P.Variable(s[1]), dec(s[2])), dec(s[3]), loops=_loops(lps))
        elif k == "call":
            cb(tuple(P.Variable(n) for n in s[1]),
               dec(["call", s[2], s[3], s[4] if len(s) > 4 else {}]))
        elif k == "if":
            with cb.if_(dec(s[1])):
                emit_body(cb, s[2])
            if len(s) > 3 and s[3]:
                with cb.else_():
                    emit_body(cb, s[3])
        elif k == "yield":
            cb.yield_state(dec(s[1]), s[2], dec(s[3]), s[4])
        elif k == "fail":
            cb.fail_step()
        elif k == "switch":
            cb.switch_phase(s[1])
        elif k == "restart":
            cb.restart_step()
        elif k == "raise":
            cb.raise_(EXC_CLASSES[s[1]], s[2])
        else:
            raise ValueError("unknown statement form %r" % (s,))


def build_code(inp):
    phases = []
    for ph in inp["phases"]:
        with lang.CodeBuilder(ph["name"]) as cb:
            emit_body(cb, ph["body"])
        phases.append(cb.as_execution_phase(ph["next"]))
    return lang.DAGCode.from_phases_list(phases, inp["initial"])


# ---- canonical values / events -------------------------------------------------------------------------

def canon(v):
    if v is None:
        return None
    if isinstance(v, np.ndarray):
        return ["arr"] + [canon(x) for x in v.tolist()]
    if isinstance(v, (bool, np.bool_)):
        return ["b", bool(v)]
    if isinstance(v, (int, float, np.integer, np.floating)):
        f = float(v)
        if f != f:
            return "nan"
        if f in (float("inf"), float("-inf")):
            return repr(f)
        if isinstance(v, (int, np.integer)):
            return int(v)
        return int(f) if f == int(f) and abs(f) < 2.0 ** 53 else f
    if isinstance(v, (complex, np.complexfloating)):
        return ["c", canon(v.real), canon(v.imag)]
    if isinstance(v, (tuple, list)):
        return ["tup"] + [canon(x) for x in v]
    if isinstance(v, str):
        return ["s", v]
    return ["obj", type(v).__name__]


def has_nan(c):
    if c == "nan":
        return True
    if isinstance(c, list):
        return any(has_nan(x) for x in c)
    if isinstance(c, dict):
        return any(has_nan(x) for x in c.values())
    return False


def initial_value(v):
    if isinstance(v, list):
        return np.array(v, dtype=np.float64)
    return v


def canon_event(evt):
    n = type(evt).__name__
    if n == "StateComputed":
        return ["StateComputed", canon(evt[0]), evt[1], evt[2], canon(evt[3])]
    if n == "StepCompleted":
        return ["StepCompleted", canon(evt[0]), canon(evt[1]), evt[2], evt[3]]
    if n == "StepFailed":
        return ["StepFailed", canon(evt[0])]
    return ["?", n]


def error_kind(exc):
    """kind of an error leaving run(): `raise_(E, msg)` is E(msg) in the interpreter and
    StepError(condition=E.__name__, msg) in generated code -- both are kind ["raise", E.__name__]"""
    if type(exc).__name__ == "StepError" and hasattr(exc, "condition"):
        return ["raise", exc.condition]
    if type(exc) in EXC_CLASSES.values():
        return ["raise", type(exc).__name__]
    return ["exc", type(exc).__name__, str(exc)[:120]]


# ---- the two real back ends -----------------------------------------------------------------------------

class Stepper:
    """uniform access to a real stepper object (interpreter or generated class instance)"""

    def __init__(self, kind, code, fmap, interp_class=None, ignore=()):
        self.kind = kind
        self.ignore = set(ignore)
        if kind == "interp":
            self.obj = (interp_class or NumpyInterpreter)(code, fmap)
            self.gen = None
        else:
            self.gen = PyCodeGenerator("Stepper")
            self.cls = self.gen.get_class(code)
            self.obj = self.cls(fmap)

    def set_up(self, t0, dt, state):
        self.obj.set_up(t_start=t0, dt_start=dt,
                        context={k: initial_value(copy.deepcopy(v)) for k, v in state.items()})

    # name -> attribute of the generated object
    def _attr(self, name):
        a = self.gen._name_manager.name_global(name)
        assert a.startswith("self.")
        return a[5:]

    def raw_state(self):
        """{variable name: live value} of everything the stepper object holds between steps"""
        if self.kind == "interp":
            return dict(self.obj.context)
        out = {}
        for name in list(self.gen._name_manager.get_global_ids()):
            a = self._attr(name)
            if a in vars(self.obj):
                out[name] = getattr(self.obj, a)
        return out

    def snapshot(self):
        # a <state> variable the caller never supplied is None in generated code, absent in the
        # interpreter: both mean "no value"
        return {k: canon(v) for k, v in sorted(self.raw_state().items())
                if v is not None and k not in self.ignore}

    def set_var(self, name, value):
        if self.kind == "interp":
            self.obj.context[name] = value
        else:
            setattr(self.obj, self._attr(name), value)

    def stray_attributes(self):
        """names visible on the stepper object that are neither persistent variables nor plumbing"""
        if self.kind == "interp":
            return sorted(k for k in self.obj.context if not is_persistent(k))
        allowed = {"t", "dt", "next_phase", "phase_transition_table", "_numpy", "_functions"}
        names = {self._attr(n): n for n in self.gen._name_manager.get_global_ids()}
        out = []
        for a in vars(self.obj):
            if a in allowed:
                continue
            if a in names and is_persistent(names[a]):
                continue
            out.append(names.get(a, a))
        return sorted(out)

    @property
    def next_phase(self):
        return self.obj.next_phase

    @next_phase.setter
    def next_phase(self, v):
        self.obj.next_phase = v


def drive(stepper, run, cap):
    """draw events from the real run(); returns the trace (list of JSON-able entries)"""
    trace = []
    n_evt = 0
    kw = {}
    if run.get("max_steps") is not None:
        kw["max_steps"] = run["max_steps"]
    if run.get("t_end") is not None:
        kw["t_end"] = run["t_end"]
    g = stepper.obj.run(**kw)
    try:
        with np.errstate(all="ignore"):
            for evt in g:
                ce = canon_event(evt)
                trace.append(ce)
                n_evt += 1
                if ce[0] in ("StepCompleted", "StepFailed"):
                    trace.append(["state", stepper.snapshot(), stepper.next_phase])
                if n_evt >= cap:
                    trace.append(["cap"])
                    break
            else:
                trace.append(["end"])
    except Exception as exc:          # noqa: BLE001 - whatever leaves run() is the observation
        trace.append(["raised", error_kind(exc)])
        trace.append(["state", stepper.snapshot(), stepper.next_phase])
    finally:
        g.close()
    return trace


_UNMENTIONED = {}


def unmentioned_state(inp, gen_stepper=None):
    """<state> components supplied by the caller that the built method never mentions (the builder
    may simplify a mention away, e.g. `y*0`): the generated class does not store them at all and the
    program cannot observe them, so they are not compared.  Decided by the real generator's name table."""
    k = json.dumps([inp["phases"], sorted(inp["state"])], sort_keys=True)
    if gen_stepper is None and k in _UNMENTIONED:
        return _UNMENTIONED[k]
    try:
        if gen_stepper is None:
            g = PyCodeGenerator("Stepper")
            g(build_code(inp))
        else:
            g = gen_stepper.gen
        used = set(g._name_manager.get_global_ids())
    except Exception:       # noqa: BLE001 - no generated class: fall back to the written program
        used = names_in(inp)
    res = {"<state>" + n for n in inp["state"] if "<state>" + n not in used}
    if len(_UNMENTIONED) > 5000:
        _UNMENTIONED.clear()
    _UNMENTIONED[k] = res
    return res


def filter_trace(trace, ignore):
    if not ignore:
        return trace
    return [[e[0], {k: v for k, v in e[1].items() if k not in ignore}, e[2]] if e[0] == "state" else e
            for e in trace]


def run_real(kind, inp, interp_class=None, code=None):
    """-> (trace with unfiltered state snapshots, stepper)"""
    code = code if code is not None else build_code(inp)
    st = Stepper(kind, code, function_map(inp), interp_class=interp_class)
    st.set_up(inp["t0"], inp["dt"], inp["state"])
    return drive(st, inp["run"], inp.get("cap", 40)), st


# ---- the independent program-order executor ----------------------------------------------------------

class _Fail(Exception):
    pass


class _Switch(Exception):
    def __init__(self, phase):
        self.phase = phase


class _Raise(Exception):
    def __init__(self, name):
        self.name = name


def _b_norm(kind):
    def f(x):
        if np.isscalar(x):
            return abs(x)
        if kind == "1":
            return np.linalg.norm(x, 1)
        if kind == "2":
            return np.linalg.norm(x, 2)
        return np.linalg.norm(x, np.inf)
    return f


def _b_array(n):
    if n != int(n) or n < 0:
        raise DomainError("array size")
    return np.full(int(n), np.nan, dtype=np.float64)      # NaN = "never written"


# documented argument names (dagrt.function_registry) -> reference behaviour
REF_BUILTINS = {
    "<builtin>len": (("x",), lambda x: np.size(x)),
    "<builtin>isnan": (("x",), lambda x: np.isnan(x)),
    "<builtin>norm_1": (("x",), _b_norm("1")),
    "<builtin>norm_2": (("x",), _b_norm("2")),
    "<builtin>norm_inf": (("x",), _b_norm("inf")),
    "<builtin>elementwise_abs": (("x",), lambda x: np.abs(x)),
    "<builtin>dot_product": (("x", "y"), lambda x, y: np.vdot(x, y)),
    "<builtin>array": (("n",), _b_array),
}


class Ref:
    """Carries out the builder calls of one phase one after the other, exactly as written.

    Step protocol (the documented one): the phase to run is `next_phase`; `next_phase` becomes the
    phase's default successor before the body runs; fail_step -> StepFailed(t), step not counted;
    switch_phase(p) -> next_phase = p, step completed; raise_ -> the error leaves run(); temporaries
    (everything that is not <state>*, <p>*, <t>, <dt>) are dropped at the end of the step.

    Also records, for C11, which writes are *tainted* by a designated call instance (`taint_site`).
    """

    def __init__(self, inp, funcs=None):
        self.inp = inp
        self.phases = {ph["name"]: ph for ph in inp["phases"]}
        self.funcs = funcs if funcs is not None else function_map(inp)
        self.store = {"<t>": inp["t0"], "<dt>": inp["dt"]}
        self.ignore = set()         # callers may set it (names left out of snapshot())
        for k, v in inp["state"].items():
            self.store["<state>" + k] = initial_value(copy.deepcopy(v))
        self.next_phase = inp["initial"]
        self.stmts_executed = 0
        self.zero_trip_idents = []       # loop identifiers of loops that ran zero times
        self.kinds_seen = set()
        # taint machinery (C11)
        self.taint_site = None           # (tag, occurrence) of the call instance to taint
        self.site_counts = {}
        self.tainted = set()             # variable names
        self.tainted_elems = {}          # id(array) -> set(index)
        self._acc = False
        self.writes = []                 # (name, index|None, canon value, tainted)
        self.call_log = []

    # -- expressions
    def ev(self, e):
        if isinstance(e, str):
            if e not in self.store:
                raise DomainError("read of unassigned variable %s" % e)
            if e in self.tainted:
                self._acc = True
            v = self.store[e]
            if isinstance(v, np.ndarray) and self.tainted_elems.get(id(v)):
                self._acc = True
            return v
        if isinstance(e, (bool, int, float)) or e is None:
            return e
        if isinstance(e, dict):
            if "npc" in e:
                return float(e["npc"][1])                       # the number that was written
            return np.array(e["arrc"], dtype=object)            # the entries that were written, each with its own type
        op = e[0]
        if op == "+":
            return self.ev(e[1]) + self.ev(e[2])
        if op == "-":
            return self.ev(e[1]) - self.ev(e[2])
        if op == "*":
            return self.ev(e[1]) * self.ev(e[2])
        if op == "/":
            d = self.ev(e[2])
            n = self.ev(e[1])
            if np.isscalar(d) and d == 0:
                raise DomainError("division by zero")
            return n / d
        if op == "**":
            return self.ev(e[1]) ** self.ev(e[2])
        if op == "[]":
            name = e[1]
            if not isinstance(name, str) or name not in self.store:
                raise DomainError("subscript of unassigned %r" % (name,))
            arr = self.store[name]
            if name in self.tainted:
                self._acc = True
            idx = self.ev(e[2])
            if not isinstance(arr, np.ndarray) or not isinstance(idx, (int, np.integer)) \
                    or not 0 <= idx < len(arr):
                raise DomainError("bad subscript")
            if idx in self.tainted_elems.get(id(arr), ()):
                self._acc = True
            return arr[idx]
        if op == "call":
            return self.call(e[1], e[2], e[3] if len(e) > 3 and e[3] else {})
        if op == "cmp":
            import operator
            f = {"<": operator.lt, "<=": operator.le, ">": operator.gt, ">=": operator.ge,
                 "==": operator.eq, "!=": operator.ne}[e[1]]
            return f(self.ev(e[2]), self.ev(e[3]))
        if op == "not":
            return not self.ev(e[1])
        if op == "and":
            return all(self.ev(x) for x in e[1:])
        if op == "or":
            return any(self.ev(x) for x in e[1:])
        if op == "if":
            return self.ev(e[2]) if self.ev(e[1]) else self.ev(e[3])
        raise ValueError("unknown expression form %r" % (e,))

    def call(self, fname, args, kw):
        a = [self.ev(x) for x in args]
        k = {n: self.ev(x) for n, x in kw.items()}
        if fname in REF_BUILTINS:
            names, f = REF_BUILTINS[fname]
            if len(a) > len(names) or set(k) - set(names[len(a):]) or len(a) + len(k) != len(names):
                raise DomainError("bad builtin arguments")
            return f(*a, **k)
        if fname not in self.funcs:
            raise DomainError("unknown function %s" % fname)
        tag = k.get("tag", None)
        occ = self.site_counts.get((fname, tag), 0)
        self.site_counts[(fname, tag)] = occ + 1
        self.call_log.append((fname, tag, occ))
        if self.taint_site == (fname, tag, occ):
            self._acc = True
        return self.funcs[fname](*a, **k)

    # -- statements
    def _store(self, name, value, tainted):
        self.store[name] = value
        if tainted:
            self.tainted.add(name)
        else:
            self.tainted.discard(name)
        if is_persistent(name):
            self.writes.append((name, None, canon(value), tainted))

    def _assign(self, s, ctl):
        sub = s[0] == "assign_sub"
        name = s[1]
        idx_e, rhs, lps = (s[2], s[3], s[4] if len(s) > 4 and s[4] else []) if sub \
            else (None, s[2], s[3] if len(s) > 3 and s[3] else [])

        def once(loop_taint):
            self._acc = ctl or loop_taint
            val = self.ev(rhs)
            if sub:
                idx = self.ev(idx_e)
                arr = self.store.get(name)
                if not isinstance(arr, np.ndarray) or not isinstance(idx, (int, np.integer)) \
                        or not 0 <= idx < len(arr):
                    raise DomainError("bad subscript on the left")
                if isinstance(val, np.ndarray):
                    raise DomainError("array stored into an element")
                arr[idx] = val
                te = self.tainted_elems.setdefault(id(arr), set())
                (te.add if self._acc else te.discard)(int(idx))
                self._keep.append(arr)
                for pname, pv in self.store.items():
                    if pv is arr and is_persistent(pname):
                        self.writes.append((pname, int(idx), canon(arr[idx]), self._acc))
            else:
                self._store(name, val, self._acc)

        def nest(level, loop_taint):
            if level == len(lps):
                once(loop_taint)
                return
            ident, lo_e, hi_e = lps[level]
            self._acc = False
            lo, hi = self.ev(lo_e), self.ev(hi_e)
            lt = loop_taint or self._acc
            for b in (lo, hi):
                if not isinstance(b, (int, np.integer)) or isinstance(b, bool):
                    raise DomainError("loop bound is not an integer")
            trips = 0
            for i in range(lo, hi):
                trips += 1
                self.store[ident] = i
                nest(level + 1, lt)
            if trips == 0:
                self.zero_trip_idents.append(ident)
            self.store.pop(ident, None)

        if lps:
            for ident, _, _ in lps:
                if ident in self.store:
                    raise DomainError("loop identifier %s is also a variable" % ident)
            nest(0, False)
        else:
            once(False)

    def block(self, body, events, ctl=False):
        for s in body:
            self.stmts_executed += 1
            k = s[0]
            self.kinds_seen.add(k)
            if k in ("assign", "assign_sub"):
                self._assign(s, ctl)
            elif k == "call":
                self._acc = ctl
                res = self.call(s[2], s[3], s[4] if len(s) > 4 and s[4] else {})
                t = self._acc
                if len(s[1]) == 1:
                    self._store(s[1][0], res, t)
                elif len(s[1]) > 1:
                    if not isinstance(res, tuple) or len(res) != len(s[1]):
                        raise DomainError("result arity")
                    for n, r in zip(s[1], res):
                        self._store(n, r, t)
            elif k == "if":
                self._acc = ctl
                c = bool(self.ev(s[1]))
                t = self._acc
                if c:
                    self.block(s[2], events, t)
                elif len(s) > 3 and s[3]:
                    self.block(s[3], events, t)
            elif k == "yield":
                self._acc = False
                tv = self.ev(s[3])
                events.append(["StateComputed", canon(tv), s[4], s[2], canon(self.ev(s[1]))])
            elif k == "fail":
                raise _Fail()
            elif k == "switch":
                raise _Switch(s[1])
            elif k == "restart":
                raise _Switch(self.cur_phase)
            elif k == "raise":
                raise _Raise(s[1])
            else:
                raise ValueError("unknown statement form %r" % (s,))

    def snapshot(self):
        return {k: canon(v) for k, v in sorted(self.store.items())
                if is_persistent(k) and v is not None and k not in self.ignore}

    def step(self, events):
        """one step; returns "completed" | "failed" | ("raised", name)"""
        if self.next_phase not in self.phases:
            raise DomainError("unknown phase")
        ph = self.phases[self.next_phase]
        self.cur_phase = ph["name"]
        self.next_phase = ph["next"]
        self.writes = []
        self.site_counts = {}
        self.call_log = []
        self.tainted = set()
        self.tainted_elems = {}
        self._keep = []                  # keeps arrays alive so id() stays unique within the step
        outcome = "completed"
        try:
            with np.errstate(all="ignore"):
                self.block(ph["body"], events)
        except _Fail:
            outcome = "failed"
        except _Switch as sw:
            self.next_phase = sw.phase
        except _Raise as r:
            outcome = ("raised", r.name)
        except (ArithmeticError, IndexError, TypeError, ValueError) as ex:
            raise DomainError("evaluation error in program order: %r" % (ex,))
        finally:
            for k in [k for k in self.store if not is_persistent(k)]:
                del self.store[k]
        return outcome

    def run(self, run, cap):
        trace = []
        n_evt = 0
        n_steps = 0
        max_steps, t_end = run.get("max_steps"), run.get("t_end")
        while True:
            if t_end is not None and self.store["<t>"] >= t_end:
                trace.append(["end"])
                return trace
            if max_steps is not None and n_steps >= max_steps:
                trace.append(["end"])
                return trace
            cur = self.next_phase
            events = []
            outcome = self.step(events)
            for ce in events:
                trace.append(ce)
                n_evt += 1
                if n_evt >= cap:
                    trace.append(["cap"])
                    return trace
            if outcome == "failed":
                trace.append(["StepFailed", canon(self.store["<t>"])])
            elif outcome == "completed":
                trace.append(["StepCompleted", canon(self.store["<dt>"]), canon(self.store["<t>"]),
                              cur, self.next_phase])
                n_steps += 1
            else:
                trace.append(["raised", ["raise", outcome[1]]])
                trace.append(["state", self.snapshot(), self.next_phase])
                return trace
            n_evt += 1
            trace.append(["state", self.snapshot(), self.next_phase])
            if n_evt >= cap:
                trace.append(["cap"])
                return trace


def run_ref(inp):
    r = Ref(inp)
    trace = r.run(inp["run"], inp.get("cap", 40))
    return trace, r


# ---- the oracle ------------------------------------------------------------------------------------------

def first_diff(a, b):
    for i, (x, y) in enumerate(zip(a, b)):
        if x != y:
            return i, x, y
    if len(a) != len(b):
        i = min(len(a), len(b))
        return i, (a[i] if i < len(a) else "<nothing>"), (b[i] if i < len(b) else "<nothing>")
    return None


def _short(x, n=260):
    s = json.dumps(x, default=str)
    return s if len(s) <= n else s[:n] + "..."


_CACHE = {}


def evaluate(inp, tolerant=False):
    """-> {"status": "ok"|"fail"|"skip", "clause", "detail", "diag": {...}}
    tolerant=True runs the interpreter subclass that neutralises D21 (only used by fingerprints)"""
    k = (key_of(inp), tolerant)
    if k in _CACHE:
        return _CACHE[k]
    res = _evaluate(inp, interp_class=_TolerantInterpreter if tolerant else None)
    if len(_CACHE) > 20000:
        _CACHE.clear()
    _CACHE[k] = res
    return res


def _evaluate(inp, interp_class=None):
    try:
        ref, r = run_ref(inp)
    except DomainError as ex:
        return {"status": "skip", "detail": "outside the domain: %s" % ex, "diag": {}}
    try:
        build_code(inp)
    except (ValueError, TypeError) as ex:
        # e.g. `a[0] <- f(x)`: the builder itself refuses the call sequence, so there is no method
        return {"status": "skip", "detail": "the builder rejects the program: %r" % (ex,), "diag": {}}
    except Exception as ex:
        # any other exception while carrying out the builder calls (e.g. an internal assertion) on a program
        # the reference executor accepts: the builder does not implement the written program
        return {"status": "fail", "clause": "builder-accepts-the-program",
                "detail": "carrying out the builder calls raised %s: %s" % (type(ex).__name__, ex), "diag": {}}
    if has_nan(ref):
        return {"status": "skip", "detail": "outside the domain: NaN / unwritten array element read",
                "diag": {}}
    diag = {"ref_stmts": r.stmts_executed, "zero_trip": sorted(set(r.zero_trip_idents)),
            "ref_events": [e[0] for e in ref], "kinds": sorted(r.kinds_seen)}
    gen_st = None
    try:
        ti, _ = run_real("interp", inp, interp_class=interp_class)
    except Exception as ex:     # noqa: BLE001 - building/constructing failed in the real code
        ti = [["construction-error", error_kind(ex)]]
    try:
        tg, gen_st = run_real("gen", inp)
    except Exception as ex:     # noqa: BLE001
        tg = [["construction-error", error_kind(ex)]]
    ignore = unmentioned_state(inp, gen_st)
    ref, ti, tg = filter_trace(ref, ignore), filter_trace(ti, ignore), filter_trace(tg, ignore)
    diag["sig"] = hash(json.dumps([ti, tg, ref], sort_keys=True, default=str))
    diag["interp_eq_ref"] = ti == ref
    diag["gen_eq_ref"] = tg == ref
    diag["interp_eq_gen"] = ti == tg
    for nm, tr in (("interp", ti), ("gen", tg)):
        errs = [e[1] for e in tr if e[0] in ("raised", "construction-error") and e[1][0] == "exc"]
        diag[nm + "_exc"] = errs[0] if errs else None
    if ti == ref and tg == ref:
        return {"status": "ok", "detail": None, "diag": diag}
    # which clause?
    parts = []
    clause = None
    for name, a, b, la, lb in (("interpreter-vs-generated", ti, tg, "interpreter", "generated"),
                               ("interpreter-vs-program-order", ti, ref, "interpreter", "program order"),
                               ("generated-vs-program-order", tg, ref, "generated", "program order")):
        d = first_diff(a, b)
        if d is not None:
            clause = clause or name
            what = "state" if (isinstance(d[1], list) and d[1][:1] == ["state"]) else "events"
            parts.append("%s differ at trace entry %d (%s): %s has %s, %s has %s"
                         % (name, d[0], what, la, _short(d[1]), lb, _short(d[2])))
    # is the only difference extra keys in the generated snapshots?
    diag["only_extra_gen_state"] = _only_extra_state(ti, tg, ref)
    return {"status": "fail", "clause": clause, "detail": "; ".join(parts), "diag": diag}


def _only_extra_state(ti, tg, ref):
    """names that only the generated object keeps between steps, if removing them from its snapshots
    makes all three traces equal; else None"""
    if ti != ref or len(tg) != len(ref):
        return None
    extra = set()
    for a, b in zip(tg, ref):
        if a == b:
            continue
        if a[0] != "state" or b[0] != "state" or a[2] != b[2]:
            return None
        more = set(a[1]) - set(b[1])
        if {k: v for k, v in a[1].items() if k not in more} != b[1]:
            return None
        extra |= more
    return sorted(extra)


# ---- fingerprints of known findings -----------------------------------------------------------------------
# A finding is recognised by NEUTRALISING it: the input (or, for D21, the interpreter) is changed in a way
# that keeps the program-order meaning exactly but avoids the one construct the finding is about.  If the
# failure disappears, the finding accounts for it.  Neutralisers are applied cumulatively, so an input
# that trips over several known findings is recognised as such, and anything left over stays visible.

class _TolerantInterpreter(NumpyInterpreter):
    """the real interpreter, except that a loop identifier is bound before exec_Assign runs, so the
    trailing `del self.context[ident]` cannot raise for a zero-trip loop (used ONLY to decide
    whether a failure is the known D21; nothing in dagrt is patched)"""

    def exec_Assign(self, stmt):
        for ident, _, _ in stmt.loops:
            self.context.setdefault(ident, None)
        return NumpyInterpreter.exec_Assign(self, stmt)


def map_program(inp, fx=None, fname=None, floops=None):
    """copy of `inp` with fx applied bottom-up to every expression node, fname to every variable name
    (also assignment targets) and floops(phase, loops) to every loop list"""
    fx = fx or (lambda e: e)
    fname = fname or (lambda n: n)

    def rx(e):
        if isinstance(e, str):
            return fx(fname(e))
        if isinstance(e, list):
            if e[0] == "call":
                new = ["call", e[1], [rx(a) for a in e[2]],
                       {k: rx(a) for k, a in (e[3] if len(e) > 3 and e[3] else {}).items()}]
            elif e[0] == "cmp":
                new = ["cmp", e[1], rx(e[2]), rx(e[3])]
            else:
                new = [e[0]] + [rx(a) for a in e[1:]]
            return fx(new)
        return fx(e)

    def rl(ph, lps):
        lps = [[lp[0], rx(lp[1]), rx(lp[2])] for lp in lps]
        return floops(ph, lps) if floops else lps

    def rs(ph, s):
        k = s[0]
        if k == "assign":
            lps = s[3] if len(s) > 3 and s[3] else []
            return ["assign", fname(s[1]), rx(s[2])] + ([rl(ph, lps)] if lps else [])
        if k == "assign_sub":
            return ["assign_sub", fname(s[1]), rx(s[2]), rx(s[3]), rl(ph, s[4] if len(s) > 4 and s[4] else [])]
        if k == "call":
            c = rx(["call", s[2], s[3], s[4] if len(s) > 4 and s[4] else {}])
            if not (isinstance(c, list) and c[0] == "call"):
                raise ValueError("a call statement must stay a call")
            return ["call", [fname(n) for n in s[1]], c[1], c[2], c[3]]
        if k == "if":
            return ["if", rx(s[1]), [rs(ph, x) for x in s[2]],
                    [rs(ph, x) for x in s[3]] if len(s) > 3 and s[3] else None]
        if k == "yield":
            return ["yield", rx(s[1]), s[2], rx(s[3]), s[4]]
        return s

    out = copy.deepcopy(inp)
    for ph in out["phases"]:
        ph["body"] = [rs(ph, s) for s in ph["body"]]
    return out


def _keep(e):
    """same value, but printed inside parentheses by every printer: (e if True else 0)"""
    return ["if", True, e, 0]


def _is_neg_const(e):
    return isinstance(e, (int, float)) and not isinstance(e, bool) and e < 0


def _is_cmp(e):
    return isinstance(e, list) and e[0] == "cmp"


def neutralise_d22(inp):
    def rn(n):
        for p in RET_PREFIXES:
            if n.startswith(p):
                return "tmp_" + p[1:-1] + "_" + n[len(p):]
        return n
    return map_program(inp, fname=rn)


def neutralise_neg_power(inp):
    return map_program(inp, fx=lambda e: ["**", _keep(e[1]), e[2]]
                       if isinstance(e, list) and e[0] == "**" and _is_neg_const(e[1]) else e)


def neutralise_d18(inp):
    return map_program(inp, fx=lambda e: ["**", _keep(e[1]), e[2]]
                       if isinstance(e, list) and e[0] == "**" and isinstance(e[1], list) and e[1][0] == "**"
                       else e)


def neutralise_nested_cmp(inp):
    return map_program(inp, fx=lambda e: ["cmp", e[1]] + [_keep(x) if _is_cmp(x) else x for x in e[2:4]]
                       if _is_cmp(e) and any(_is_cmp(x) for x in e[2:4]) else e)


def neutralise_builtin_kwargs(inp):
    """keyword arguments of built-ins rewritten to positional ones, by the registry's documented names"""
    def fx(e):
        if isinstance(e, list) and e[0] == "call" and e[1] in REF_BUILTINS and len(e) > 3 and e[3]:
            names = REF_BUILTINS[e[1]][0]
            args = list(e[2])
            for n in names[len(args):]:
                if n not in e[3]:
                    return e
                args.append(e[3][n])
            if len(args) == len(names) and set(e[3]) <= set(names):
                return ["call", e[1], args, {}]
        return e
    return map_program(inp, fx=fx)


def neutralise_guarded_bounds(inp):
    """loop bounds that name a temporary which the phase assigns exactly once, with a numeric literal,
    are replaced by that literal (same meaning in program order; generated code then no longer reads
    the temporary outside the guard under which it is assigned)"""
    consts = {}
    for ph in inp["phases"]:
        count, val = {}, {}
        for s, _ in walk_stmts(ph["body"]):
            tg = [s[1]] if s[0] in ("assign", "assign_sub") else list(s[1]) if s[0] == "call" else []
            for t in tg:
                count[t] = count.get(t, 0) + 1
            if s[0] == "assign" and not stmt_loops(s) and isinstance(s[2], (int, float)) \
                    and not isinstance(s[2], bool):
                val[s[1]] = s[2]
        consts[ph["name"]] = {n: v for n, v in val.items() if count[n] == 1 and not is_persistent(n)}

    def floops(ph, lps):
        c = consts[ph["name"]]

        def sub(e):
            if isinstance(e, str):
                return c.get(e, e)
            if isinstance(e, list):
                return [e[0]] + [sub(x) for x in e[1:]] if e[0] not in ("call", "cmp") else e
            return e
        return [[lp[0], sub(lp[1]), sub(lp[2])] for lp in lps]
    return map_program(inp, floops=floops)


def _has_expr(inp, pred):
    for s, _ in all_stmts(inp):
        for e in stmt_exprs(s):
            for sub in walk_expr(e):
                if pred(sub):
                    return True
    return False


def _assigned_in(body):
    out = set()
    for s, _ in walk_stmts(body):
        if s[0] in ("assign", "assign_sub"):
            out.add(s[1])
        elif s[0] == "call":
            out.update(s[1])
    return out


def has_guarded_loop_bound(inp):
    """a looped assignment inside an if-branch whose bound mentions a temporary assigned inside an
    enclosing if-statement"""
    for s, guards in all_stmts(inp):
        lps = stmt_loops(s)
        if not lps or not guards:
            continue
        inside = set()
        for g in guards:
            inside |= _assigned_in(g[2]) | (_assigned_in(g[3]) if len(g) > 3 and g[3] else set())
        for lp in lps:
            for b in (lp[1], lp[2]):
                for sub in walk_expr(b):
                    if isinstance(sub, str) and sub in inside and not is_persistent(sub):
                        return True
    return False


# name -> (applies(inp), neutraliser(inp) -> inp).  D21 is special (it changes the interpreter).
NEUTRALISERS = [
    ("D22", lambda i: any(n.startswith(RET_PREFIXES) for n in names_in(i)), neutralise_d22),
    ("guarded_loop_bound", has_guarded_loop_bound, neutralise_guarded_bounds),
    ("D18", lambda i: _has_expr(i, lambda e: isinstance(e, list) and e[0] == "**"
                                and isinstance(e[1], list) and e[1][0] == "**"), neutralise_d18),
    ("neg_power_base", lambda i: _has_expr(i, lambda e: isinstance(e, list) and e[0] == "**"
                                           and _is_neg_const(e[1])), neutralise_neg_power),
    ("nested_comparison", lambda i: _has_expr(i, lambda e: _is_cmp(e) and any(_is_cmp(x) for x in e[2:4])),
     neutralise_nested_cmp),
    ("builtin_kwargs", lambda i: _has_expr(i, lambda e: isinstance(e, list) and e[0] == "call"
                                           and e[1] in REF_BUILTINS and len(e) > 3 and bool(e[3])),
     neutralise_builtin_kwargs),
]
FINDING_DOC = {
    "D21": "zero-trip loop: interpreter KeyError at `del self.context[ident]`",
    "D22": "<ret_state>/<ret_time>/<ret_time_id> names persist in the generated class only",
    "guarded_loop_bound": "generated code evaluates the bounds of a looped assignment outside its guard",
    "D18": "Power(Power(a,b),c) printed a**b**c",
    "neg_power_base": "Power(negative constant, e) printed -c**e",
    "nested_comparison": "comparison of comparisons printed as a Python comparison chain",
    "builtin_kwargs": "dot_product(x=, y=): builtins_python names its parameters a, b",
}


def _d21_symptom(v):
    d = v["diag"]
    exc = d.get("interp_exc")
    return bool(exc and exc[1] == "KeyError" and d.get("zero_trip")
                and exc[2].strip("'\"") in d["zero_trip"])


def explain(inp):
    """names of the known findings that together account for the failure of `inp` (each one changes
    the observed behaviour when it alone is neutralised on top of the previous ones, and after the
    last one nothing fails); None if something is left unexplained"""
    v = evaluate(inp)
    if v["status"] != "fail":
        return None
    used, cur, tol = [], inp, False
    if _d21_symptom(v):
        vt = evaluate(cur, True)
        if vt["status"] == "ok":
            return ["D21"]
        if vt["diag"].get("sig") != v["diag"].get("sig"):
            used.append("D21")
            tol, v = True, vt
    for _round in range(3):         # one finding may hide another: repeat until nothing changes
        progress = False
        for name, applies, neutralise in NEUTRALISERS:
            if name in used:
                continue
            try:
                if not applies(cur):
                    continue
                nxt = neutralise(cur)
                vn = evaluate(nxt, tol)
            except Exception:       # noqa: BLE001
                continue
            if vn["status"] == "skip":
                continue
            if vn["status"] == "ok":
                return used + [name]
            if vn["diag"].get("sig") != v["diag"].get("sig"):
                used.append(name)
                progress = True
                cur, v = nxt, vn
                if not tol and _d21_symptom(v):     # D21 may only show once another finding is out of the way
                    vt = evaluate(cur, True)
                    if vt["status"] == "ok":
                        return used + ["D21"]
                    if vt["diag"].get("sig") != v["diag"].get("sig"):
                        used.append("D21")
                        tol, v = True, vt
        if not progress:
            break
    return None


def _sole(name):
    return lambda inp: explain(inp) == [name]


# FINGERPRINTS[name](inp) holds iff `inp` fails and neutralising the named finding ALONE removes the failure
FINGERPRINTS = {name: _sole(name) for name in FINDING_DOC}


def matching_fingerprint(inp):
    ex = explain(inp)
    return "+".join(sorted(ex)) if ex else None


# ---- input generation ---------------------------------------------------------------------------------

CONSTS = [0, 1, 2, 3, 0.5, 0.25, 1.5, -1, -2, -0.5]
CMP_OPS = ["<", "<=", ">", ">=", "==", "!="]


class Gen:
    """random builder programs inside the domain described in the module docstring"""

    def __init__(self, rng, **cfg):
        self.rng = rng
        self.cfg = dict(zero_trip=True, ret_names=True, guarded_bounds=True, printer_stress=True,
                        builtin_kwargs=True, funcs=True, call_boost=False, max_depth=2)
        self.cfg.update(cfg)
        self.tag = 0

    # -- expressions
    def const(self):
        return self.rng.choice(CONSTS)

    def scalar_atom(self, env):
        r = self.rng.random()
        if r < 0.3 or not env["scalars"]:
            return self.const()
        return self.rng.choice(sorted(env["scalars"]))

    def elem(self, env):
        """an in-range element read, or None"""
        arrs = sorted(env["arrays"].items())
        if not arrs:
            return None
        name, n = self.rng.choice(arrs)
        loopv = [(i, hi) for i, hi in sorted(env["loopvars"].items()) if hi <= n]
        if loopv and self.rng.random() < 0.6:
            return ["[]", name, self.rng.choice(loopv)[0]]
        return ["[]", name, self.rng.randrange(n)]

    def call_expr(self, env, depth):
        fs = sorted(f for f, spec in self.funcs.items() if spec[0] in ("lin", "sq", "mix"))
        if not fs:
            return self.scalar_atom(env)
        f = self.rng.choice(fs)
        self.tag += 1
        kw = {"tag": self.tag}
        args = [self.expr(env, depth + 1)]
        if self.funcs[f][0] == "mix" and self.rng.random() < 0.7:
            kw["y"] = self.expr(env, depth + 1)
        return ["call", f, args, kw]

    def expr(self, env, depth=0):
        rng = self.rng
        if self.cfg.get("call_boost") and depth < self.cfg["max_depth"] and rng.random() < 0.15:
            return self.call_expr(env, depth)
        r = rng.random()
        if depth >= self.cfg["max_depth"] or r < 0.3:
            e = self.elem(env) if rng.random() < 0.3 else None
            if e is None and env["loopvars"] and rng.random() < 0.4:
                e = rng.choice(sorted(env["loopvars"]))
            return e if e is not None else self.scalar_atom(env)
        if r < 0.5:
            a = self.expr(env, depth + 1)
            b = self.expr(env, depth + 1)
            while isinstance(b, list) and b[0] in ("+", "-"):
                b = self.scalar_atom(env)            # keep sums left-nested (see module notes)
            return [rng.choice(["+", "-"]), a, b]
        if r < 0.65:
            a = self.expr(env, depth + 1)
            b = self.expr(env, depth + 1)
            while isinstance(b, list) and b[0] == "*":
                b = self.scalar_atom(env)
            return ["*", a, b]
        if r < 0.72:
            return ["/", self.expr(env, depth + 1), rng.choice([2, 4, -2])]
        if r < 0.78:
            base = self.scalar_atom(env)
            if _is_neg_const(base) and not self.cfg["printer_stress"]:
                base = 2
            if self.cfg["printer_stress"] and rng.random() < 0.15:
                base = ["**", self.scalar_atom(env), 2]
                if _is_neg_const(base[1]):
                    base[1] = 2
            return ["**", base, rng.choice([2, 2, 3])]
        if r < 0.86 and self.cfg["funcs"]:
            return self.call_expr(env, depth)
        if r < 0.92:
            return ["if", self.cond(env, depth + 1), self.expr(env, depth + 1), self.expr(env, depth + 1)]
        if r < 0.96 and env["arrays"]:
            name = rng.choice(sorted(env["arrays"]))
            f = rng.choice(["<builtin>norm_1", "<builtin>norm_inf", "<builtin>len", "<builtin>dot_product"])
            if f == "<builtin>dot_product":
                if self.cfg["builtin_kwargs"] and rng.random() < 0.3:
                    return ["call", f, [], {"x": name, "y": name}]
                return ["call", f, [name, name], {}]
            if self.cfg["builtin_kwargs"] and rng.random() < 0.3:
                return ["call", f, [], {"x": name}]
            return ["call", f, [name], {}]
        return self.scalar_atom(env)

    def cond(self, env, depth=0):
        rng = self.rng
        r = rng.random()
        if env["flags"] and r < 0.12:
            return rng.choice(sorted(env["flags"]))
        if depth < 2 and r < 0.25:
            return [rng.choice(["and", "or"]), self.cond(env, depth + 1), self.cond(env, depth + 1)]
        if depth < 2 and r < 0.32:
            return ["not", self.cond(env, depth + 1)]
        if self.cfg["printer_stress"] and depth < 2 and r < 0.36:
            return ["cmp", rng.choice(["==", "!="]), self.cond(env, 2), self.cond(env, 2)]
        a = self.expr(env, max(depth, 1))
        b = self.const() if rng.random() < 0.6 else self.expr(env, 2)
        return ["cmp", rng.choice(CMP_OPS), a, b]

    # -- statements
    def new_temp(self, env, prefix="x"):
        i = 0
        while "%s%d" % (prefix, i) in env["used"]:
            i += 1
        n = "%s%d" % (prefix, i)
        env["used"].add(n)
        return n

    def array_unit(self, env, persistent=False):
        """creation immediately followed by a loop that writes every element"""
        rng = self.rng
        n = rng.randint(2, 4)
        out = []
        name = self.new_temp(env, "<p>arr" if persistent else "a")
        size_e = n
        if rng.random() < 0.5 and not persistent and (self.cfg["guarded_bounds"] or not env.get("in_if")):
            nv = self.new_temp(env, "n")
            out.append(["assign", nv, n])
            env["sizevars"][nv] = n
            size_e = nv
            svs = [nv]
            if self.cfg["zero_trip"] and rng.random() < 0.4:
                zv = self.new_temp(env, "z")
                out.append(["assign", zv, 0])
                env["sizevars"][zv] = 0
                size_e = ["+", nv, zv]
                svs.append(zv)
            env["arr_sizevars"][name] = svs
        if self.cfg["builtin_kwargs"] and rng.random() < 0.15:
            out.append(["assign", name, ["call", "<builtin>array", [], {"n": size_e}]])
        else:
            out.append(["assign", name, ["call", "<builtin>array", [size_e], {}]])
        hi = size_e if not isinstance(size_e, list) else size_e[1]
        env2 = self.with_loop(env, "i", n)
        out.append(["assign_sub", name, "i", self.expr(env2, 1), [["i", 0, hi]]])
        env["arrays"][name] = n
        return out

    def with_loop(self, env, ident, hi):
        e = dict(env)
        e["loopvars"] = dict(env["loopvars"])
        e["loopvars"][ident] = hi
        return e

    def bounds(self, env, name, n):
        """(lo, hi, static lo, static hi) with 0 <= lo and hi <= n; maybe zero-trip, maybe held in
        variables.  Only variables read by the creation of `name` are used: the loop depends on the
        creation (it writes the array), the creation on the assignment of the variable, so the bound
        is assigned before the loop in every admissible schedule (no reliance on a declared read of
        the bound, cf. finding D8)."""
        rng = self.rng
        svs = [v for v in env["arr_sizevars"].get(name, []) if v in env["sizevars"]]
        pos = [v for v in svs if env["sizevars"][v] > 0]
        zer = [v for v in svs if env["sizevars"][v] == 0]
        r = rng.random()
        if self.cfg["zero_trip"] and r < 0.3:
            k = rng.randint(0, n)
            choices = [(0, 0, 0, 0), (k, k, k, k), (min(k + 1, n), k, min(k + 1, n), k)]
            if zer:
                choices += [(0, zer[0], 0, 0), (zer[0], zer[0], 0, 0)]
            if pos:
                choices += [(pos[0], pos[0], n, n), (pos[0], n, n, n)]
            return rng.choice(choices)
        choices = [(0, n, 0, n), (1, n, 1, n), (0, n - 1, 0, n - 1)]
        if pos:
            choices += [(0, pos[0], 0, n), (1, pos[0], 1, n), (0, ["-", pos[0], 1], 0, n - 1)]
        if zer and pos:
            choices += [(zer[0], pos[0], 0, n)]
        return rng.choice(choices)

    def loop_stmt(self, env):
        rng = self.rng
        arrs = sorted(env["arrays"].items())
        if not arrs:
            return []
        name, n = rng.choice(arrs)
        lo, hi, slo, shi = self.bounds(env, name, n)
        r = rng.random()
        if r < 0.25 and env["scalar_temps"]:
            # accumulation into a scalar:  s <- s + e(i)  [i=lo..hi]   (constant bounds: the statement
            # does not write the array, so nothing orders it after the assignment of a bound variable)
            sc = rng.choice(sorted(env["scalar_temps"]))
            env2 = self.with_loop(env, "i", shi)
            return [["assign", sc, ["+", sc, self.expr(env2, 1)], [["i", slo, shi]]]]
        if r < 0.4 and n >= 3:
            # two nested loops:  a[i + j] <- e  [i=0..2][j=0..n-1]
            env2 = self.with_loop(self.with_loop(env, "i", 10 ** 9), "j", 10 ** 9)   # no a[i] reads
            e = rng.choice([["+", ["*", "i", 2], "j"], ["*", "i", "j"], self.expr(env2, 1)])
            hi_i = 2 if not (self.cfg["zero_trip"] and rng.random() < 0.2) else 0
            return [["assign_sub", name, ["+", "i", "j"], e, [["i", 0, hi_i], ["j", 0, n - 1]]]]
        env2 = self.with_loop(env, "i", shi)
        return [["assign_sub", name, "i", self.expr(env2, 1), [["i", lo, hi]]]]

    def terminator(self, env):
        rng = self.rng
        r = rng.random()
        if r < 0.35:
            return ["fail"]
        if r < 0.7:
            return ["switch", rng.choice(self.phase_names)]
        if r < 0.82:
            return ["restart"]
        return ["raise", rng.choice(sorted(EXC_CLASSES)), "stop"]

    def call_stmt(self, env):
        rng = self.rng
        out = []
        f = rng.choice(sorted(self.funcs))
        self.tag += 1
        spec = self.funcs[f][0]
        if spec == "vsum":
            if not env["arrays"]:
                return out
            args = [rng.choice(sorted(env["arrays"]))]
        else:
            args = [self.expr(env, 1)]
        if spec == "pair":
            t1, t2 = self.new_temp(env), self.new_temp(env)
            if rng.random() < 0.3:
                t2 = rng.choice(sorted(env["persist"]))
            out.append(["call", [t1, t2], f, args, {"tag": self.tag}])
            env["scalars"].update([t1, t2])
            env["scalar_temps"].update(t for t in (t1, t2) if not is_persistent(t))
        else:
            if rng.random() < 0.15:
                out.append(["call", [], f, args, {"tag": self.tag}])
            else:
                t = self.new_temp(env) if rng.random() < 0.6 else rng.choice(sorted(env["persist"]))
                out.append(["call", [t], f, args, {"tag": self.tag}])
                env["scalars"].add(t)
                if not is_persistent(t):
                    env["scalar_temps"].add(t)
        return out

    def block(self, env, n_stmts, depth):
        rng = self.rng
        out = []
        for _ in range(n_stmts):
            if self.cfg.get("call_boost") and self.funcs and rng.random() < 0.2:
                out.extend(self.call_stmt(env))
                continue
            r = rng.random()
            if r < 0.18:
                t = self.new_temp(env) if (rng.random() < 0.6 or not env["scalar_temps"]) \
                    else rng.choice(sorted(env["scalar_temps"]))
                if self.cfg["ret_names"] and rng.random() < 0.06:
                    t = rng.choice(RET_PREFIXES) + "y"
                out.append(["assign", t, self.expr(env)])
                env["scalars"].add(t)
                env["scalar_temps"].add(t)
            elif r < 0.36:
                tgt = rng.choice(sorted(env["persist"]))
                out.append(["assign", tgt, self.expr(env)])
            elif r < 0.42 and self.cfg["funcs"] and self.funcs:
                out.extend(self.call_stmt(env))
            elif r < 0.48:
                t = self.new_temp(env, "b")
                out.append(["assign", t, self.cond(env, 1)])
                env["flags"].add(t)
            elif r < 0.56:
                out.extend(self.array_unit(env))
            elif r < 0.70:
                out.extend(self.loop_stmt(env))
            elif r < 0.74 and env["arrays"]:
                name, n = rng.choice(sorted(env["arrays"].items()))
                e = self.expr(env, 1)
                if isinstance(e, list) and e[0] == "call":
                    e = ["+", e, 0.5]       # the builder refuses `a[k] <- f(..)` (call statement, subscripted target)
                out.append(["assign_sub", name, rng.randrange(n), e, []])
            elif r < 0.86:
                comp = rng.choice(["y", "z"])
                val = self.expr(env, 1)
                if env["arrays"] and rng.random() < 0.2:
                    val = rng.choice(sorted(env["arrays"]))
                tm = rng.choice(["<t>", ["+", "<t>", "<dt>"], 0, ["*", "<dt>", 0.5]])
                out.append(["yield", val, comp, tm, rng.choice(["final", "mid", ""])])
            elif depth < 2:
                out.extend(self.if_stmt(env, depth))
            else:
                out.append(["assign", self.rng.choice(sorted(env["persist"])), self.expr(env)])
        return out

    def branch_env(self, env):
        e = dict(env)
        for k in ("scalars", "scalar_temps", "flags"):
            e[k] = set(env[k])
        for k in ("arrays", "sizevars", "arr_sizevars", "loopvars"):
            e[k] = dict(env[k])
        e["in_if"] = True
        return e        # "used" stays shared: fresh names are globally fresh within the phase

    def if_stmt(self, env, depth):
        rng = self.rng
        c = self.cond(env)
        e1 = self.branch_env(env)
        pre = []
        if self.cfg["guarded_bounds"] and rng.random() < 0.25:
            pre = self.array_unit(e1)
            pre += self.loop_stmt(e1)
        then = pre + self.block(e1, rng.randint(1, 3), depth + 1)
        if rng.random() < 0.3:
            then.append(self.terminator(e1))
        els = None
        if rng.random() < 0.5:
            e2 = self.branch_env(env)
            els = self.block(e2, rng.randint(1, 2), depth + 1)
            if rng.random() < 0.2:
                els.append(self.terminator(e2))
        out = [["if", c, then, els]]
        return out

    def program(self):
        rng = self.rng
        nph = rng.choice([1, 1, 2, 2, 3])
        self.phase_names = ["p%d" % i for i in range(nph)]
        self.funcs = {}
        if self.cfg["funcs"]:
            pool = [("<func>f", ["lin", rng.choice([2, 0.5, -1]), rng.choice([0, 0.5, 1])]),
                    ("<func>g", ["pair"]), ("<func>h", ["mix"]), ("<func>sq", ["sq"]),
                    ("<func>vs", ["vsum"])]
            for name, spec in pool:
                if rng.random() < 0.6:
                    self.funcs[name] = spec
        state = {"x": rng.choice([0, 1, 0.5, -1.5, 2]), "y": rng.choice([0.25, 1, -1, 3])}
        if rng.random() < 0.3:
            state["v"] = [rng.choice([0.5, 1, -2]) for _ in range(rng.randint(2, 3))]
        persist = {"<state>x", "<state>y", "<p>q"}
        initial = rng.choice(self.phase_names)
        self.parr = {}
        phases = []
        for name in self.phase_names:
            env = {"scalars": {"<state>x", "<state>y", "<p>q", "<t>", "<dt>"},
                   "scalar_temps": set(), "flags": set(), "arrays": {}, "sizevars": {},
                   "arr_sizevars": {}, "loopvars": {}, "persist": set(persist),
                   "used": {"i", "j"}}
            if "v" in state:
                env["arrays"]["<state>v"] = len(state["v"])
            body = []
            if name == initial:
                body.append(["assign", "<p>q", rng.choice([0, 1, 0.5])])
                if rng.random() < 0.25:
                    body.extend(self.array_unit(env, persistent=True))
                    self.parr = dict((k, v) for k, v in env["arrays"].items() if k.startswith("<p>"))
            phases.append({"name": name, "next": rng.choice(self.phase_names), "body": body, "_env": env})
        for ph in phases:
            env = ph.pop("_env")
            env["arrays"].update(self.parr)
            ph["body"] += self.block(env, rng.randint(2, 6), 0)
            if rng.random() < 0.85:
                ph["body"].append(["assign", "<t>", ["+", "<t>", "<dt>"]])
            if rng.random() < 0.15:
                ph["body"].append(["assign", "<dt>", ["/", "<dt>", 2]])
            if rng.random() < 0.5:
                ph["body"].append(["yield", rng.choice(["<state>x", "<state>y", "<p>q"]), "y", "<t>", "final"])
            if rng.random() < 0.06:
                ph["body"].append(self.terminator(env))
        run = {"max_steps": rng.randint(1, 4), "t_end": None}
        if rng.random() < 0.3:
            run = {"max_steps": None, "t_end": rng.choice([0.5, 1, 1.25])}
        elif rng.random() < 0.1:
            run["t_end"] = 0.75
        return {"phases": phases, "initial": initial, "funcs": self.funcs, "state": state,
                "t0": 0, "dt": rng.choice([0.25, 0.5]), "run": run, "cap": 24}


# ---- exhaustive small family --------------------------------------------------------------------------

def small_family():
    """all programs  P(s1, s2, w1, w2):  [prologue] w1(s1) w2(s2) yield, one phase, 2 steps, where s1, s2
    range over 9 statement templates and w over {plain, if-true, if-false, else-of-true, else-of-false}"""
    pro = [["assign", "a", ["call", "<builtin>array", [3], {}]],
           ["assign_sub", "a", "i", ["*", "i", 0.5], [["i", 0, 3]]],
           ["assign", "s", 1]]
    templates = [
        ["assign", "<state>x", ["+", "<state>x", 1]],
        ["assign", "s", ["*", "s", 2]],
        ["assign_sub", "a", "i", ["+", ["[]", "a", "i"], "s"], [["i", 1, 3]]],
        ["assign_sub", "a", "i", 7, [["i", 2, 2]]],                       # zero-trip
        ["assign", "s", ["+", "s", ["[]", "a", "i"]], [["i", 0, 3]]],
        ["yield", "s", "y", "<t>", "mid"],
        ["fail"],
        ["switch", "main"],
        ["raise", "MethodError", "m"],
    ]
    wraps = ["plain", "if-true", "if-false", "else-true", "else-false"]

    def wrap(w, s):
        if w == "plain":
            return s
        c = ["cmp", ">" if w.endswith("true") else "<", "<state>y", 0]
        if w.startswith("if"):
            return ["if", c, [s], None]
        return ["if", c, [["assign", "<state>y", ["+", "<state>y", 0]]], [s]]

    for i1, s1 in enumerate(templates):
        for i2, s2 in enumerate(templates):
            for w1 in wraps:
                for w2 in wraps:
                    body = copy.deepcopy(pro) + [wrap(w1, copy.deepcopy(s1)), wrap(w2, copy.deepcopy(s2)),
                                                 ["assign", "<t>", ["+", "<t>", "<dt>"]],
                                                 ["yield", ["+", "<state>x", ["[]", "a", 2]], "y", "<t>", "final"]]
                    yield {"phases": [{"name": "main", "next": "main", "body": body}], "initial": "main",
                           "funcs": {}, "state": {"x": 1, "y": 1}, "t0": 0, "dt": 0.5,
                           "run": {"max_steps": 2, "t_end": None}, "cap": 12}


def nontrivial(v):
    d = v.get("diag", {})
    ev = set(d.get("ref_events", []))
    return d.get("ref_stmts", 0) >= 4 and bool(ev & {"StateComputed", "StepFailed", "raised"}
                                               or len(set(d.get("kinds", []))) >= 3)


# ---- entry points ----------------------------------------------------------------------------------------

def replay(inp):
    try:
        v = _evaluate(inp)
    except Exception as ex:     # noqa: BLE001
        return {"error": "%s: %s" % (type(ex).__name__, ex)}
    if v["status"] == "skip":
        return {"fails": False, "detail": v["detail"]}
    if v["status"] == "ok":
        return {"fails": False, "detail": None}
    _CACHE[(key_of(inp), False)] = v
    fp = matching_fingerprint(inp)
    return {"fails": True, "detail": "[%s] %s" % (v["clause"], v["detail"]),
            "matches_fingerprint": fp}


def signature(v):
    """coarse class of a failure, used only to keep `failures` diverse"""
    d = v["diag"]
    return (v.get("clause"), bool(d.get("interp_eq_ref")), bool(d.get("gen_eq_ref")),
            (d.get("interp_exc") or [None, None])[1], (d.get("gen_exc") or [None, None])[1])


def bounded(payload):
    import time
    t0 = time.time()
    budget = payload.get("budget", {}) or {}
    tier = payload.get("tier", "quick")
    seed = payload.get("seed", 0)
    rng = random.Random(seed)
    n_random = budget.get("programs", 450 if tier == "quick" else 9000)
    wall = budget.get("wall_s", 15 if tier == "quick" else 270)
    small_stride = budget.get("small_stride", 5 if tier == "quick" else 1)
    active = {e.get("fingerprint") for e in payload.get("known", []) if e.get("fingerprint") in FINGERPRINTS}

    failures, samples, known_hits = [], [], []
    per_sig = {}
    fp_counts = {}
    parts = {"small_family": 0, "random": 0, "skipped_outside_domain": 0, "failing_inputs": 0,
             "failing_matched_by_fingerprint": fp_counts, "suppressed_by_active_fingerprint": 0,
             "ok": 0}
    distinct = set()
    evals = 0
    exhaustive_done = True

    def consider(inp):
        nonlocal evals
        v = evaluate(inp)
        if v["status"] == "skip":
            parts["skipped_outside_domain"] += 1
            return
        evals += 1
        if nontrivial(v):
            distinct.add(key_of(inp))
        if v["status"] == "ok":
            parts["ok"] += 1
            return
        parts["failing_inputs"] += 1
        ex = explain(inp)
        fp = "+".join(sorted(ex)) if ex else None
        if fp:
            fp_counts[fp] = fp_counts.get(fp, 0) + 1
            if set(ex) <= active:
                parts["suppressed_by_active_fingerprint"] += 1
                return
        sig = (fp,) + signature(v)
        per_sig[sig] = per_sig.get(sig, 0) + 1
        if per_sig[sig] <= 2:
            f = {"oracle": v["clause"], "input": inp, "detail": v["detail"]}
            if fp:
                f["matches_fingerprint"] = fp
            failures.append(f)

    # conditional expressions nested in each position, under all four truth combinations of the two conditions
    # (printing them needs parentheses in the then- and the condition-position)
    for x0 in (14, 8, -4, -10):
        for shape in ("then", "else", "cond"):
            inner = ["if", ["cmp", "<", "<state>x", 10], "<state>x", 10]
            outer_c = ["cmp", ">", "<state>x", 0]
            if shape == "then":
                e = ["if", outer_c, inner, 0]
            elif shape == "else":
                e = ["if", outer_c, 1, inner]
            else:
                e = ["if", ["cmp", ">", inner, 5], 1, 2]
            consider({"phases": [{"name": "main", "next": "main", "body": [
                ["assign", "c", e], ["assign", "<state>x", ["+", "<state>x", -6]],
                ["assign", "<t>", ["+", "<t>", "<dt>"]], ["yield", "c", "y", "<t>", "final"]]}],
                "initial": "main", "funcs": {}, "state": {"x": x0, "y": 1}, "t0": 0, "dt": 0.5,
                "run": {"max_steps": 2, "t_end": None}, "cap": 12})
            parts["nested_conditional_expression_programs"] = parts.get("nested_conditional_expression_programs", 0) + 1

    # constants of numpy types: non-finite and finite numpy scalars; an integer-valued array constant that later gets a fraction
    for cst in ({"npc": ["float64", "inf"]}, {"npc": ["float32", "-inf"]}, {"npc": ["float64", "1.5"]}, {"npc": ["float32", "0.25"]},
                {"npc": ["int64", "3"]}):
        consider({"phases": [{"name": "main", "next": "main", "body": [
            ["assign", "c", cst],
            ["assign", "<state>x", ["if", ["cmp", "<", "<state>x", "c"], ["+", "<state>x", 1], ["-", "<state>x", 1]]],
            ["assign", "<t>", ["+", "<t>", "<dt>"]], ["yield", "<state>x", "y", "<t>", "final"]]}],
            "initial": "main", "funcs": {}, "state": {"x": 2, "y": 1}, "t0": 0, "dt": 0.5,
            "run": {"max_steps": 2, "t_end": None}, "cap": 12})
        parts["numpy_constant_programs"] = parts.get("numpy_constant_programs", 0) + 1
    for arr in ([1, 2, 1], [1.0, 2, 1], [0, 0]):
        n_ = len(arr)
        tot = ["[]", "<p>w", 0]
        for j_ in range(1, n_):
            tot = ["+", tot, ["[]", "<p>w", j_]]
        consider({"phases": [
            {"name": "init", "next": "main", "body": [["assign", "<p>w", {"arrc": arr}],
                                                      ["assign_sub", "<p>w", 1, ["*", 3, "<dt>"], []]]},
            {"name": "main", "next": "main", "body": [["assign", "<state>x", ["+", "<state>x", ["*", "<dt>", tot]]],
                                                      ["assign", "<t>", ["+", "<t>", "<dt>"]],
                                                      ["yield", "<state>x", "y", "<t>", "final"]]}],
            "initial": "init", "funcs": {}, "state": {"x": 0.0, "y": 1}, "t0": 0, "dt": 0.25,
            "run": {"max_steps": 3, "t_end": None}, "cap": 12})
        parts["numpy_constant_programs"] = parts.get("numpy_constant_programs", 0) + 1

    # an if_ whose condition is a bare variable that the block itself overwrites (the decision is the value on entry)
    for x0 in (1, 0):
        for with_else in (False, True):
            body = [["if", "<state>armed",
                     [["assign", "<state>armed", 0], ["assign", "<state>x", ["+", "<state>x", 10]],
                      ["yield", "<state>x", "y", "<t>", "fired"]],
                     [["assign", "<state>x", ["+", "<state>x", 1]], ["assign", "<state>armed", 1]] if with_else else None],
                    ["assign", "<t>", ["+", "<t>", "<dt>"]], ["yield", "<state>x", "y", "<t>", "final"]]
            consider({"phases": [{"name": "main", "next": "main", "body": body}],
                      "initial": "main", "funcs": {}, "state": {"x": 0, "y": 1, "armed": x0}, "t0": 0, "dt": 0.5,
                      "run": {"max_steps": 3, "t_end": None}, "cap": 16})
            parts["bare_variable_condition_programs"] = parts.get("bare_variable_condition_programs", 0) + 1

    # a per-step variable spelled like the user function it is handed to (variables and functions are two name spaces: a name
    # in value position is the variable)
    # (untagged spelling only: a <func>-tagged name denotes a function wherever it stands - the generators' name managers say so -
    # and assigning to one is not a program of the domain)
    for fname in ("f", "g"):
        body = [["assign", fname, ["*", "<state>y", 2]],
                ["assign", "z", ["call", fname, [fname], {}]],
                ["assign", "<state>y", ["+", "z", fname]],
                ["assign", "<t>", ["+", "<t>", "<dt>"]], ["yield", "<state>y", "y", "<t>", "final"]]
        consider({"phases": [{"name": "main", "next": "main", "body": body}],
                  "initial": "main", "funcs": {fname: ["lin", 1, 10]}, "state": {"y": 1}, "t0": 0, "dt": 0.5,
                  "run": {"max_steps": 2, "t_end": None}, "cap": 12})
        parts["variable_named_like_its_function_programs"] = parts.get("variable_named_like_its_function_programs", 0) + 1

    # every built-in on a two-dimensional state, a complex vector and a scalar (interpreter's implementation vs generated text)
    for fn, nargs in (("<builtin>norm_1", 1), ("<builtin>norm_2", 1), ("<builtin>norm_inf", 1), ("<builtin>elementwise_abs", 1),
                      ("<builtin>len", 1), ("<builtin>dot_product", 2)):
        for st_name, st_val in (("m", [[1.0, -2.0], [3.0, 4.0]]), ("m", [[1.0, -2.0, 0.5], [3.0, 4.0, -6.0]]), ("m", [1.0, -2.0, 3.0])):
            args = ["<state>m"] * nargs
            consider({"phases": [{"name": "main", "next": "main", "body": [
                ["assign", "est", ["call", fn, args, {}]],
                ["assign", "<state>m", ["*", 0.5, "<state>m"]],
                ["assign", "<t>", ["+", "<t>", "<dt>"]], ["yield", "est", "y", "<t>", "final"]]}],
                "initial": "main", "funcs": {}, "state": {"m": st_val, "y": 1}, "t0": 0, "dt": 0.5,
                "run": {"max_steps": 2, "t_end": None}, "cap": 12})
            parts["builtins_on_matrix_state_programs"] = parts.get("builtins_on_matrix_state_programs", 0) + 1

    # loop nests whose inner bounds depend on an outer counter (triangles, bands), element by element
    for nest in ([["i", 0, 4], ["j", 0, ["+", "i", 1]]], [["i", 0, 4], ["j", "i", 4]], [["i", 1, 4], ["j", ["-", "i", 1], ["+", "i", 1]]],
                 [["i", 0, 3], ["j", 0, "i"], ["k", "j", "i"]], [["i", 0, 4], ["j", 0, ["-", 4, "i"]]]):
        idx = ["+", ["*", "i", 4], "j"]
        val = ["+", ["*", 10, "j"], ["+", "i", 1]]
        if len(nest) == 3:
            val = ["+", val, ["*", 100, "k"]]
        consider({"phases": [{"name": "main", "next": "main", "body": [
            ["assign", "a", ["call", "<builtin>array", [16], {}]],
            ["assign_sub", "a", "i", 0, [["i", 0, 16]]],
            ["assign_sub", "a", idx, val, nest],
            ["assign", "<state>x", ["+", "<state>x", ["+", ["[]", "a", 5], ["+", ["[]", "a", 10], ["[]", "a", 14]]]]],
            ["assign", "<t>", ["+", "<t>", "<dt>"]], ["yield", "a", "y", "<t>", "final"]]}],
            "initial": "main", "funcs": {}, "state": {"x": 1, "y": 1}, "t0": 0, "dt": 0.5,
            "run": {"max_steps": 2, "t_end": None}, "cap": 12})
        parts["dependent_loop_bound_programs"] = parts.get("dependent_loop_bound_programs", 0) + 1

    fam = list(small_family())
    # the exhaustive family (strided in the quick tier; offset by seed so that repeated quick runs
    # with different seeds cover it)
    for idx in range(seed % small_stride, len(fam), small_stride):
        if time.time() - t0 > wall * 0.45:
            exhaustive_done = False
            break
        consider(fam[idx])
        parts["small_family"] += 1
    if small_stride != 1:
        exhaustive_done = False
    samples.append(fam[3 * 45 + 7])

    off = dict(zero_trip=False, ret_names=False, guarded_bounds=False, printer_stress=False,
               builtin_kwargs=False)
    profiles = [dict(), off, dict(off, zero_trip=True), dict(off, zero_trip=True, guarded_bounds=True),
                dict(off, zero_trip=True, printer_stress=True), dict(off, ret_names=True, builtin_kwargs=True)]
    for i in range(n_random):
        if time.time() - t0 > wall:
            break
        g = Gen(rng, **profiles[i % len(profiles)])
        inp = g.program()
        consider(inp)
        parts["random"] += 1
        if i in (0, 2):
            samples.append(inp)

    for e in payload.get("known", []):
        try:
            r = replay(e["native"])
        except Exception:       # noqa: BLE001
            continue
        if r.get("fails"):
            known_hits.append("%s: %s" % (e["id"], e["what"]))
    parts["failure_classes"] = {json.dumps(list(k), default=str): n for k, n in sorted(per_sig.items(), key=str)}
    return {"evaluations": evals, "distinct_nontrivial": len(distinct),
            "rule": "exhaustive family: one phase, prologue (array of 3, scalar) + two statements from 9 "
                    "templates (state/temporary update, element loop, zero-trip loop, accumulation loop, "
                    "yield, fail_step, switch_phase, raise_) each plain / under a true or false if_ / in the "
                    "else_ of a true or false if_, 2 steps (2025 programs; stride %d in this tier); then "
                    "seeded random builder programs (1-3 phases, <= ~25 builder calls, nesting <= 2, "
                    "temporaries, <state>/<p> variables, <t>/<dt> updates, <builtin>array + element loops "
                    "incl. zero-trip loops and bounds held in variables, accumulation and doubly nested "
                    "loops, user function calls incl. multiple results and keyword arguments, yield_state, "
                    "fail_step, switch_phase, restart_step, raise_), random initial state, bound max_steps "
                    "1-4 or t_end; six generator profiles rotate (all features / none of the constructs that known "
                    "findings are about / some of them).  Non-trivial = "
                    "program-order execution runs >= 4 builder statements and produces a yielded value, a "
                    "failed step, a raise or >= 3 statement kinds; distinct = distinct JSON inputs."
                    % small_stride,
            "bound": "<= 3 phases, <= ~25 builder calls per phase, if-nesting <= 2, expression depth <= 3, "
                     "arrays of 2-4 elements, <= 4 completed steps or <= 24 events per run",
            "samples": samples[:3], "failures": failures[:24], "known_hits": known_hits,
            "parts": parts, "exhaustive": bool(exhaustive_done and small_stride == 1 and n_random == 0)}
