import Mathlib.Data.Finset.Card

/-!
L-CARD: the three facts about the number of elements of a finite set that the termination argument of
`verify_no_circular_dependencies` uses (`card` in contracts/c10.py is `Finset.card`; `Store(S, x, true)` is `insert x S`).
-/

theorem card_nonneg' {α : Type} (s : Finset α) : 0 ≤ s.card := Nat.zero_le _

theorem card_insert_new {α : Type} [DecidableEq α] (s : Finset α) (x : α) (h : x ∉ s) :
    (insert x s).card = s.card + 1 := by
  simp [h]

theorem card_subset_le {α : Type} (s t : Finset α) (h : ∀ x, x ∈ s → x ∈ t) : s.card ≤ t.card :=
  Finset.card_le_card h
