"""Locate functions in /repo by qualified name and normalise them.

Everything the verifier reasons about is read from /repo's working tree on
every run.  What normalisation drops (and nothing else) is recorded in
`Extracted.dropped`: docstrings, `logger.debug(...)` statements,
function-local imports.  `assert` is kept.
"""
import ast
import hashlib
import os
import textwrap

REPO = os.environ.get("DAGRT_REPO", "/repo")


class ExtractionError(Exception):
    pass


class Extracted:
    def __init__(self, relpath, qualname, node, source, lines, dropped, cls):
        self.relpath = relpath
        self.qualname = qualname
        self.node = node
        self.source = source
        self.lines = lines
        self.dropped = dropped
        self.cls = cls  # enclosing ClassDef or None
        self.sha256 = hashlib.sha256(source.encode()).hexdigest()

    def describe(self):
        return {"path": self.relpath, "qualname": self.qualname,
                "lines": "%d-%d" % self.lines, "sha256": self.sha256[:16],
                "dropped": self.dropped}


_module_cache = {}


def parse_module(relpath):
    path = os.path.join(REPO, relpath)
    st = os.stat(path)
    key = (path, st.st_mtime_ns, st.st_size)
    if key not in _module_cache:
        with open(path) as f:
            text = f.read()
        _module_cache[key] = (ast.parse(text), text)
    return _module_cache[key]


def _find(body, names, cls=None):
    name = names[0]
    for node in body:
        if isinstance(node, (ast.FunctionDef, ast.ClassDef)) and node.name == name:
            if len(names) == 1:
                return node, cls
            inner_cls = node if isinstance(node, ast.ClassDef) else cls
            found = _find_nested(node, names[1:], inner_cls)
            if found is not None:
                return found
    return None


def _find_nested(node, names, cls):
    # search the whole subtree of `node` (a nested def may sit inside an if/for)
    name = names[0]
    for sub in ast.walk(node):
        if sub is node:
            continue
        if isinstance(sub, (ast.FunctionDef, ast.ClassDef)) and sub.name == name:
            if len(names) == 1:
                return sub, cls
            inner_cls = sub if isinstance(sub, ast.ClassDef) else cls
            r = _find_nested(sub, names[1:], inner_cls)
            if r is not None:
                return r
    return None


def _is_logger_debug(stmt):
    return (isinstance(stmt, ast.Expr) and isinstance(stmt.value, ast.Call)
            and isinstance(stmt.value.func, ast.Attribute)
            and isinstance(stmt.value.func.value, ast.Name)
            and stmt.value.func.value.id == "logger")


class _Normaliser(ast.NodeTransformer):
    def __init__(self):
        self.dropped = []

    def _clean(self, body, is_def=False):
        out = []
        for i, st in enumerate(body):
            if (is_def and i == 0 and isinstance(st, ast.Expr)
                    and isinstance(st.value, ast.Constant)
                    and isinstance(st.value.value, str)):
                self.dropped.append("docstring@L%d" % st.lineno)
                continue
            if _is_logger_debug(st):
                self.dropped.append("logger-call@L%d" % st.lineno)
                continue
            if isinstance(st, (ast.Import, ast.ImportFrom)):
                self.dropped.append("local-import@L%d" % st.lineno)
                continue
            out.append(self.visit(st))
        if not out:
            out = [ast.Pass()]
        return out

    def generic_visit(self, node):
        for field in ("body", "orelse", "finalbody"):
            if hasattr(node, field) and isinstance(getattr(node, field), list):
                setattr(node, field, self._clean(
                    getattr(node, field),
                    is_def=(field == "body" and isinstance(node, ast.FunctionDef)))
                    if (getattr(node, field) or field == "body") else [])
        if hasattr(node, "handlers"):
            for h in node.handlers:
                self.generic_visit(h)
        return node


def load_function(relpath, qualname):
    tree, text = parse_module(relpath)
    found = _find(tree.body, qualname.split("."))
    if found is None:
        raise ExtractionError("%s: %s not found" % (relpath, qualname))
    node, cls = found
    if not isinstance(node, ast.FunctionDef):
        raise ExtractionError("%s: %s is not a function" % (relpath, qualname))
    src = ast.get_source_segment(text, node)
    import copy
    node2 = copy.deepcopy(node)
    norm = _Normaliser()
    node2 = norm.generic_visit(node2)
    ast.fix_missing_locations(node2)
    return Extracted(relpath, qualname, node2, src,
                     (node.lineno, node.end_lineno), norm.dropped, cls)


def load_template_function(relpath, qualname, marker):
    """Extract a string constant passed to an emit call inside `qualname` whose
    text contains `marker`, de-indent it and parse it as a function."""
    tree, text = parse_module(relpath)
    found = _find(tree.body, qualname.split("."))
    if found is None:
        raise ExtractionError("%s: %s not found" % (relpath, qualname))
    node, cls = found
    for sub in ast.walk(node):
        if isinstance(sub, ast.Constant) and isinstance(sub.value, str) \
                and marker in sub.value:
            code = textwrap.dedent(sub.value)
            try:
                mod = ast.parse(code)
            except SyntaxError as e:
                raise ExtractionError("template under %s does not parse: %s"
                                      % (qualname, e))
            fdefs = [n for n in mod.body if isinstance(n, ast.FunctionDef)]
            if not fdefs:
                # the template is a function *body*; its header is built by
                # PythonFunctionEmitter(name, args) in the same emitting function: synthesise
                # `def name(args):` mechanically from that call
                hdr = None
                for c in ast.walk(node):
                    if isinstance(c, ast.Call) and ast.unparse(c.func).endswith("PythonFunctionEmitter") \
                            and len(c.args) == 2 and isinstance(c.args[0], ast.Constant):
                        try:
                            args = ast.literal_eval(c.args[1])
                        except Exception:
                            continue
                        hdr = "def %s(%s):\n" % (c.args[0].value, ", ".join(args))
                if hdr is None:
                    raise ExtractionError("template under %s has no def and no PythonFunctionEmitter header" % qualname)
                code = hdr + textwrap.indent(code, "    ")
                mod = ast.parse(code)
                fdefs = [n for n in mod.body if isinstance(n, ast.FunctionDef)]
            if len(fdefs) != 1:
                raise ExtractionError("template under %s: %d defs"
                                      % (qualname, len(fdefs)))
            norm = _Normaliser()
            fn = norm.generic_visit(fdefs[0])
            ast.fix_missing_locations(fn)
            return Extracted(relpath, qualname + "#template:" + fdefs[0].name,
                             fn, code, (sub.lineno, sub.end_lineno),
                             norm.dropped, cls)
    raise ExtractionError("%s: no template containing %r in %s"
                          % (relpath, marker, qualname))


def class_hierarchy(relpath):
    """name -> list of base-class names, read from the source."""
    tree, _ = parse_module(relpath)
    out = {}
    for node in ast.walk(tree):
        if isinstance(node, ast.ClassDef):
            out[node.name] = [ast.unparse(b) for b in node.bases]
    return out


def mro(relpath, clsname, extra=None):
    """C3 linearisation restricted to classes defined in `relpath`
    (external bases are kept as opaque leaves)."""
    h = class_hierarchy(relpath)
    if extra:
        h.update(extra)

    def lin(c):
        bases = h.get(c)
        if bases is None:
            return [c]
        seqs = [lin(b) for b in bases] + [list(bases)]
        res = [c]
        while True:
            seqs = [s for s in seqs if s]
            if not seqs:
                return res
            for s in seqs:
                cand = s[0]
                if not any(cand in t[1:] for t in seqs):
                    break
            else:
                raise ExtractionError("inconsistent MRO for %s" % c)
            res.append(cand)
            for s in seqs:
                if s and s[0] == cand:
                    del s[0]
    return lin(clsname)


def resolve_method(relpath, clsname, method):
    """Find the class (in MRO order) of `relpath` that defines `method`."""
    tree, _ = parse_module(relpath)
    classes = {n.name: n for n in ast.walk(tree) if isinstance(n, ast.ClassDef)}
    for c in mro(relpath, clsname):
        node = classes.get(c)
        if node is None:
            continue
        for st in node.body:
            if isinstance(st, ast.FunctionDef) and st.name == method:
                return c
    return None
