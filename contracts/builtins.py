"""Declared result kinds of the built-in functions (dagrt/function_registry.py) against the kinds of the values
their Python implementations return (C09, second sentence of the property).

Functions under contract (read from /repo/dagrt/function_registry.py on every run):
  _NormBase / ElementwiseAbs / DotProduct / Len / IsNaN / Array_ / MatMul / Transpose / LinearSolve / SVD / Print
  .get_result_kinds

For every tuple of determined argument kinds in the implementation's domain, every declared result kind is an upper
bound (in the order `below` of the native oracle: never real where the value is complex, scalars below arrays / user
types, integers below every numeric kind) of IMPL_f(argument kinds): the kind of the value that
dagrt/builtins_python.py returns for arguments of those kinds.  IMPL_f is written down here from the implementations
and NumPy's dtype rules (A-IMPL, an assumed contract on NumPy; the bounded stand-in runs the real implementations on a
value catalogue and compares with the same `below`, which is what keeps A-IMPL honest).
"""
import z3
from z3 import And, Or, Not, Implies, If, BoolVal

from pyvc.values import *  # noqa
from pyvc.contracts import FunctionContract, FunctionUnit
from .kinds import Kind, KIND, KIND_CLASSES, Ident

REL = "dagrt/function_registry.py"
K = Kind


def below(v, d):
    """value kind v may be stored where kind d is claimed (mirror of replay/oracles/c09.py: below)"""
    real_ok = lambda vr, dr: Or(vr, Not(dr))     # noqa: never complex under real
    num_d = Or(K.is_Integer(d), K.is_Scalar(d), K.is_Array(d), K.is_UserType(d))
    return If(Or(K.is_Boolean(v), K.is_Boolean(d)), And(K.is_Boolean(v), K.is_Boolean(d)),
           If(K.is_Integer(v), num_d,
           If(K.is_Scalar(v), Or(K.is_UserType(d),
                                 And(K.is_Scalar(d), real_ok(K.s_real(v), K.s_real(d))),
                                 And(K.is_Array(d), real_ok(K.s_real(v), K.a_real(d)))),
           If(K.is_Array(v), And(K.is_Array(d), real_ok(K.a_real(v), K.a_real(d))),
           If(K.is_UserType(v), And(K.is_UserType(d), K.u_ident(v) == K.u_ident(d)), BoolVal(False))))))


def is_real(k):
    return If(K.is_Scalar(k), K.s_real(k), If(K.is_Array(k), K.a_real(k), BoolVal(True)))


def arrayish(k):
    return Or(K.is_Array(k), K.is_UserType(k))


def scalarish(k):
    return Or(K.is_Integer(k), K.is_Scalar(k))


# name -> (class, arity, domain(args) -> Bool, impl(args) -> [kind terms])
# A-IMPL, from dagrt/builtins_python.py: user-type values are ndarray subclasses; NumPy results are complex iff an operand is
SPECS = {
    "norm": ("_NormBase", 1, lambda a: arrayish(a[0]),
             lambda a: [K.Scalar(True)]),                                   # numpy.linalg.norm: a float
    "elementwise_abs": ("ElementwiseAbs", 1, lambda a: Or(K.is_Scalar(a[0]), arrayish(a[0])),
                        lambda a: [If(K.is_UserType(a[0]), a[0], If(K.is_Array(a[0]), K.Array(True), K.Scalar(True)))]),
    "dot_product": ("DotProduct", 2, lambda a: And(arrayish(a[0]), arrayish(a[1])),
                    lambda a: [K.Scalar(And(is_real(a[0]), is_real(a[1])))]),  # numpy.vdot
    "len": ("Len", 1, lambda a: Or(K.is_Scalar(a[0]), arrayish(a[0])),
            lambda a: [K.Integer]),                                         # numpy.size: an int
    # isnan of an array is an array of flags, which has no kind: known finding D12; the contract covers scalars
    "isnan": ("IsNaN", 1, lambda a: K.is_Scalar(a[0]),
              lambda a: [K.Boolean]),
    "array": ("Array_", 1, lambda a: scalarish(a[0]),
              lambda a: [K.Array(True)]),                                   # numpy.empty(n, float64)
    "matmul": ("MatMul", 4, lambda a: And(K.is_Array(a[0]), K.is_Array(a[1]), scalarish(a[2]), scalarish(a[3])),
               lambda a: [K.Array(And(K.a_real(a[0]), K.a_real(a[1])))]),
    "transpose": ("Transpose", 2, lambda a: And(K.is_Array(a[0]), scalarish(a[1])),
                  lambda a: [K.Array(K.a_real(a[0]))]),
    "linear_solve": ("LinearSolve", 4, lambda a: And(K.is_Array(a[0]), K.is_Array(a[1]), scalarish(a[2]), scalarish(a[3])),
                     lambda a: [K.Array(And(K.a_real(a[0]), K.a_real(a[1])))]),   # numpy.linalg.solve
    "svd": ("SVD", 2, lambda a: And(K.is_Array(a[0]), scalarish(a[1])),
            lambda a: [K.Array(K.a_real(a[0])), K.Array(True), K.Array(K.a_real(a[0]))]),   # sigma is always real
    "print": ("Print", 1, lambda a: Or(K.is_Integer(a[0]), K.is_Scalar(a[0]), K.is_Array(a[0])),
              lambda a: []),
}


class ResultKinds(FunctionContract):
    prop = "C09"
    relpath = REL
    any_raise_ok = True        # rejecting the arguments (TypeError) or deferring (UnableToInferKind) claims nothing

    def __init__(self, name):
        self.name = name
        cls, self.arity, self.domain, self.impl = SPECS[name]
        self.qualname = cls + ".get_result_kinds"
        self.args = [z3.Const("%s_arg%d_kind" % (name, i), Kind) for i in range(self.arity)]
        self.check = z3.Bool("check")

    exc_hierarchy = {"UnableToInferKind": ["Exception"]}

    def params(self, ctx):
        ctx.env["self"] = VObj(TObj("Function", {}), {})
        ctx.env["arg_kinds"] = VPy("<arg_kinds>")
        ctx.env["check"] = VBool(self.check)

    def m_resolve(self, ctx, it, args, kw):
        a = ctx.deref(args[0])
        if not (isinstance(a, VPy) and a.py == "<arg_kinds>"):
            raise Unsupported("resolve_args(%r)" % (a,))
        return VTuple([KIND.wrap(t) for t in self.args])

    calls = property(lambda self: {"self.resolve_args": self.m_resolve})
    names = property(lambda self: dict(KIND_CLASSES, NoneType=VClass("NoneType"),
                                       UnableToInferKind=VClass("UnableToInferKind")))

    def isinstance_hook(self, ctx, it, obj, names):
        return None

    def ensures(self, st):
        r = st.result
        want = self.impl(self.args)
        determined = And(*[Not(K.is_NoneK(a)) for a in self.args])
        hyp = And(determined, self.domain(self.args))
        if not isinstance(r, VTuple):
            return [("returns-a-tuple-of-kinds", BoolVal(False))]
        out = [("as-many-result-kinds-as-the-implementation-returns-values", BoolVal(len(r.items) == len(want)))]
        for i, (dk, vk) in enumerate(zip(r.items, want)):
            dk = st._deref(dk)
            if not (isinstance(dk, VElem) and dk.ty is KIND):
                out.append(("result-%d-is-a-kind" % i, BoolVal(False)))
                continue
            out.append(("result-%d-is-a-kind-never-None" % i, Implies(hyp, Not(K.is_NoneK(dk.t)))))
            out.append(("declared-kind-of-result-%d-bounds-the-kind-of-the-value-the-implementation-returns"
                        "(never-real-where-the-value-is-complex)" % i, Implies(hyp, below(vk, dk.t))))
        return out


# "NoneType" as a class test on kind values
KIND.classes.setdefault("NoneType", Kind.is_NoneK)


def units():
    return [FunctionUnit(ResultKinds(n)) for n in SPECS]


_VALUES = {"(Array true)": {"s": "arr", "v": [1.0, 2.0, 3.0, 5.0]},
           "(Array false)": {"s": "carr", "v": [[1.0, 1.0], [2.0, 0.0], [3.0, 0.0], [5.0, 0.0]]},
           "(Scalar true)": {"s": "real", "v": 2.0}, "(Scalar false)": {"s": "cplx", "v": [2.0, 1.0]},
           "Integer": {"s": "int", "v": 2}, "Boolean": {"s": "bool", "v": True}}


def concretize(obligation_name, model_text):
    """z3 model of a failed bound -> arguments of those kinds for the native oracle's built-in part"""
    import re
    m = re.search(r"function_registry\.py:(\w+)\.get_result_kinds", obligation_name)
    if not m or not model_text:
        return None
    cls = m.group(1)
    name = next((n for n, s in SPECS.items() if s[0] == cls), None)
    if name is None:
        return None
    args = []
    for i in range(SPECS[name][1]):
        mm = re.search(r"\(define-fun %s_arg%d_kind \(\) Kind\s+(\([^()]*\)|\w+)\)" % (name, i), model_text)
        k = mm.group(1) if mm else "Integer"
        if k.startswith("(UserType"):
            args.append({"s": "ut", "v": [1.0, 2.0, 3.0, 5.0]})
        else:
            args.append(dict(_VALUES.get(k, _VALUES["Integer"])))
    return {"part": "builtin", "fn": "<builtin>" + ("norm_2" if name == "norm" else name), "args": args}
